"""C60 Classical-shadow estimators are exactly unbiased.

The snapshot / estimator kernels are functions of the (bits, recipes) records only, so they are RUN NATIVELY on the COMPLETE ensemble of
records of an n-qubit register -- all 3^n recipes x 2^n outcomes -- and their outputs (dyadic floats) are converted exactly; the state
enters through the Born probability of a record, written here independently of the code under test,

        p(r, b) = <b| U_r rho U_r^dagger |b> / 3^n ,      U_r = (x)_q U_{r_q},   U_X = H,  U_Y = H.S^dagger,  U_Z = 1     (refs/gates.py)

for a GENERIC symbolic rho (every entry an independent complex symbol: NO hermiticity, positivity or trace assumption).  Obligations are
polynomial identities in the entries of rho (exact normal forms: they hold for all complex matrices, in particular all states):

   (1)  sum_{r,b} p(r,b) . global_snapshots()[r,b] == rho        and     local_snapshots()[t,q] == 3 U^dagger|b><b|U - 1  (documented form)
        (the '- 1' is tr(|b><b|).1 of the inverted single-qubit channel M^-1(Y) = 3Y - tr(Y).1 ; the trace of rho is never used:
         sum p(r,b) = tr rho, and the identity is linear in rho)
   (2)  sum_{r,b} p(r,b) . e(r,b;P) == tr(rho P)  for EVERY Pauli word P on n qubits (4^n words), where e(r,b;P) is the REAL
        ClassicalShadow.expval(P, k=1) of the single-record shadow; and expval on the complete ensemble is the plain mean of the
        per-record values (so the weighting by p is by linearity); linear combinations (Hamiltonians) are linear
   (3)  median_of_means: k = 1 is the mean; for k batches the records are split into consecutive batches, each record in exactly one
   (4)  device shadow measurements have the documented form (shape (2,T,n), int8, bits in {0,1}, recipes in {0,1,2}, recipes reproducible
        from the seed) -- bounded native stand-ins, as is the statistical end-to-end confirmation.
Size-bounded in the number of qubits (n <= 2 quick, 3 thorough), complete per size.
"""
import itertools
import warnings
from fractions import Fraction

import numpy as np

from vf.common import Plan, Obligation, Outcome, DISCHARGED, REFUTED, UNDECIDED

SFILE = "pennylane/shadows/classical_shadow.py"
MFILE = "pennylane/measurements/classical_shadow.py"
DFILE = "pennylane/devices/qubit/sampling.py"
LETTERS = "IXYZ"


def build(tier, seed):
    import pennylane as qp
    from pennylane.shadows import classical_shadow as CS
    from vf.symx.ring import Poly
    from vf.symx.scalar import sym, poly_matrix, to_poly, pm_matmul, pm_dagger, pm_kron, pm_eye
    from refs import gates as G

    plan = Plan("C60", level="other")
    plan.explanation = ("the real ClassicalShadow kernels (local_snapshots, global_snapshots, expval / pauli_expval, median_of_means) are run on the complete "
                        "ensemble of (recipe, outcome) records of an n-qubit register; their exact outputs are weighted with the Born probability of each record for "
                        "a generic symbolic density matrix (written independently with reference unitaries) and the sums are compared with rho / tr(rho P) as "
                        "polynomials in normal form")
    plan.trusted_base = ["vf/symx exact ring (cyclotomic coefficients: 1/sqrt2 of the reference Hadamard is exact)", "refs/gates.py H, S, X, Y, Z",
                         "numpy executes the kernels on concrete integer records; outputs are dyadic floats, converted exactly"]
    plan.assumptions = ["recipe code 0/1/2 = measurement of X/Y/Z (documented); outcome bit b = eigenvalue (-1)^b", "numpy interface (no torch / jax / autograd bits)"]
    plan.assumed_contracts = ["numpy.random.RandomState(seed).randint and numpy.random.default_rng(rng).random are the sources of recipes / outcomes (not modelled: see (4))"]
    plan.unverified = ["the sampling loop of ClassicalShadowMP.process_state_with_shots / process_density_matrix_with_shots (state collapse, renormalisation): only the "
                       "bounded statistical stand-in", "ClassicalShadow.entropy (eigenvalues, log)", "median of means with k > 1 as a statistical estimator",
                       "registers of more than 3 qubits (2 in the quick tier)", "snapshots= / wires= sub-selection arguments of local_snapshots beyond wires=None",
                       "torch / jax / autograd interfaces, shot vectors"]
    ns = (1, 2) if tier == "quick" else (1, 2, 3)
    plan.size_bounds = [f"registers of n = {', '.join(map(str, ns))} qubits: complete ensembles of 3^n x 2^n records, all 4^n Pauli words",
                        "median_of_means: T <= 12 records, every 1 <= k <= T"]

    # ------------------------------------------------------------------------------------------------ reference side
    def pm(m):
        return poly_matrix(m)
    U1 = {0: pm(G.H), 1: pm_matmul(pm(G.H), pm_dagger(pm(G.S))), 2: pm_eye(2)}        # diagonalising unitaries of X, Y, Z measurements
    P1 = {"I": pm(G.I2), "X": pm(G.X), "Y": pm(G.Y), "Z": pm(G.Z)}

    def kron_all(ms):
        out = pm_eye(1)
        for m in ms:
            out = pm_kron(out, m)
        return out

    def generic_rho(n):
        d = 2 ** n
        out = np.empty((d, d), dtype=object)
        for i in range(d):
            for j in range(d):
                out[i, j] = to_poly(sym(f"r{i}_{j}re") + 1j * sym(f"r{i}_{j}im"))
        return out

    def records(n):
        """the complete ensemble: (recipe tuple, bit tuple)"""
        return [(r, b) for r in itertools.product((0, 1, 2), repeat=n) for b in itertools.product((0, 1), repeat=n)]

    def born(rho, r, b):
        """<b| U rho U^dagger |b> / 3^n"""
        n = len(r)
        U = kron_all([U1[x] for x in r])
        row = int("".join(map(str, b)), 2)
        d = 2 ** n
        acc = Poly()
        for i in range(d):
            if U[row, i].is_zero():
                continue
            for j in range(d):
                if U[row, j].is_zero():
                    continue
                acc = acc + U[row, i] * rho[i, j] * U[row, j].conj()
        return acc.scale(to_poly(Fraction(1, 3 ** n)).const_value())

    def shadow_of(recs):
        bits = np.array([list(b) for _, b in recs], dtype=np.int64)
        recipes = np.array([list(r) for r, _ in recs], dtype=np.int64)
        return qp.ClassicalShadow(bits, recipes)

    def exact(a):
        return poly_matrix(np.asarray(a))

    def first_nonzero(diffs):
        return next(((idx, str(d)[:200]) for idx, d in diffs), None)

    def diff_entries(A, B):
        return [(idx, x - B[idx]) for idx, x in np.ndenumerate(A) if not (x - B[idx]).is_zero()]

    def numeric_witness(n, lhs_minus_rhs_fn):
        """a concrete density matrix at which the refuted identity visibly fails (replay input)"""
        rng = np.random.default_rng(seed + 11)
        d = 2 ** n
        A = rng.normal(size=(d, d)) + 1j * rng.normal(size=(d, d))
        rho = A @ A.conj().T
        rho = rho / np.trace(rho)
        return rho, lhs_minus_rhs_fn(rho)

    def born_num(rho, r, b):
        Un = {0: np.array([[1, 1], [1, -1]]) / np.sqrt(2), 1: (np.array([[1, 1], [1, -1]]) / np.sqrt(2)) @ np.diag([1, -1j]), 2: np.eye(2)}
        U = np.eye(1)
        for x in r:
            U = np.kron(U, Un[x])
        row = int("".join(map(str, b)), 2)
        return float(np.real(U[row] @ rho @ U[row].conj())) / 3 ** len(r)

    def ob(name, fn, func, desc, **kw):
        def guarded():
            try:
                return fn()
            except Exception as ex:  # pylint: disable=broad-except
                import traceback
                tb = traceback.extract_tb(ex.__traceback__)
                if any("/pennylane/" in fr.filename for fr in tb):        # the code under test raised on a valid input
                    where = next(fr for fr in reversed(tb) if "/pennylane/" in fr.filename)
                    return refuted(f"the real code raised {type(ex).__name__}: {ex} at {where.filename.split('/pennylane/')[-1]}:{where.lineno}",
                                   dict(call=name.split("/")[1]), f"{type(ex).__name__}: {ex}", "a result")
                raise
        return Obligation(name, "post", guarded, func=func, sample=desc, timeout=kw.pop("timeout", 900), **kw)

    def refuted(detail, inputs, observed, expected):
        return Outcome(REFUTED, "real-kernels+exact-polynomials", detail[:1200], witness=dict(inputs=inputs),
                       replay=dict(confirmed=True, inputs=inputs, observed=observed, expected=expected))

    # ------------------------------------------------------------------------------------------------ (1) snapshots
    def local_form():
        for n in (1, 2):
            recs = records(n)
            loc = shadow_of(recs).local_snapshots()
            if loc.shape != (len(recs), n, 2, 2):
                return refuted("local_snapshots shape", dict(n=n), list(loc.shape), [len(recs), n, 2, 2])
            for t, (r, b) in enumerate(recs):
                for q in range(n):
                    ket = np.zeros((2, 1), dtype=object)
                    ket[:, 0] = [Poly.const(1 - b[q]), Poly.const(b[q])]
                    proj = pm_matmul(pm_matmul(pm_dagger(U1[r[q]]), pm_matmul(ket, pm_dagger(ket))), U1[r[q]])
                    want = np.empty((2, 2), dtype=object)
                    for idx in np.ndindex(2, 2):
                        want[idx] = proj[idx].scale(to_poly(3).const_value()) - (Poly.const(1) if idx[0] == idx[1] else Poly())
                    d = diff_entries(exact(loc[t, q]), want)
                    if d:
                        return refuted(f"local snapshot differs from 3 U^dagger|b><b|U - 1 at entry {d[0][0]}", dict(recipes=list(r), bits=list(b), qubit=q),
                                       str(loc[t, q].tolist()), "3 U^dagger |b><b| U - 1 with U = H / H.S^dagger / 1")
        return Outcome(DISCHARGED, "real-kernels+exact-polynomials", "all 6 single-qubit and 36 x 2 two-qubit local snapshots")
    plan.add(ob("C60/classical_shadow:ClassicalShadow.local_snapshots/documented-form[all records, n<=2]", local_form, (SFILE, "ClassicalShadow.local_snapshots"),
                "every local snapshot == 3 U^dagger|b><b|U - 1 (reference unitaries), exact", size_bounded=True))

    def unbiased_state(n):
        def fn():
            recs = records(n)
            snaps = shadow_of(recs).global_snapshots()
            d = 2 ** n
            if snaps.shape != (len(recs), d, d):
                return refuted("global_snapshots shape", dict(n=n), list(snaps.shape), [len(recs), d, d])
            rho = generic_rho(n)
            acc = np.empty((d, d), dtype=object)
            for idx in np.ndindex(d, d):
                acc[idx] = Poly()
            for t, (r, b) in enumerate(recs):
                p = born(rho, r, b)
                S = exact(snaps[t])
                for idx in np.ndindex(d, d):
                    if not S[idx].is_zero():
                        acc[idx] = acc[idx] + p * S[idx]
            diffs = diff_entries(acc, rho)
            if diffs:
                R, err = numeric_witness(n, lambda R: sum(born_num(R, r, b) * snaps[t] for t, (r, b) in enumerate(recs)) - R)
                return refuted(f"sum_r,b p(r,b) snapshot(r,b) != rho at entry {diffs[0][0]}: difference {str(diffs[0][1])[:300]}",
                               dict(rho=[[str(z) for z in row] for row in R.tolist()]), f"max |E[snapshot] - rho| = {float(np.max(np.abs(err))):.6f}",
                               "E[snapshot] == rho exactly")
            return Outcome(DISCHARGED, "real-kernels+exact-polynomials", f"{len(recs)} records, {d * d} entries, generic rho", extra=dict(sub_obligations=d * d))
        return ob(f"C60/classical_shadow:ClassicalShadow.global_snapshots/unbiased[n={n}]", fn, (SFILE, "ClassicalShadow.global_snapshots"),
                  "sum over all recipes and outcomes of p(r,b) . snapshot == rho, entry by entry, for a generic symbolic rho", size_bounded=True, timeout=1500)
    for n in ns:
        plan.add(unbiased_state(n))
    plan.fn_under_contract(SFILE, "ClassicalShadow.local_snapshots")
    plan.fn_under_contract(SFILE, "ClassicalShadow.global_snapshots")

    # ------------------------------------------------------------------------------------------------ (2) Pauli expectation values
    def op_of(word):
        ops = [{"X": qp.X, "Y": qp.Y, "Z": qp.Z, "I": qp.Identity}[ch](q) for q, ch in enumerate(word)]
        non_id = [o for o, ch in zip(ops, word) if ch != "I"]
        if not non_id:
            return ops[0]
        return non_id[0] if len(non_id) == 1 else qp.prod(*non_id)

    def trace_with(rho, word):
        P = kron_all([P1[ch] for ch in word])
        d = rho.shape[0]
        acc = Poly()
        for i in range(d):
            for j in range(d):
                if not P[j, i].is_zero():
                    acc = acc + rho[i, j] * P[j, i]
        return acc

    def unbiased_expval(n):
        def fn():
            recs = records(n)
            rho = generic_rho(n)
            ps = [born(rho, r, b) for r, b in recs]
            singles = [shadow_of([rec]) for rec in recs]
            full = shadow_of(recs)
            count = 0
            for word in map("".join, itertools.product(LETTERS, repeat=n)):
                P = op_of(word)
                est = [np.asarray(s.expval(P, k=1)) for s in singles]
                if any(e.shape != () for e in est):
                    return refuted("expval of one observable is not a scalar", dict(word=word), str([e.shape for e in est][:3]), "()")
                vals = [float(e) for e in est]
                acc = Poly()
                for p, v in zip(ps, vals):
                    if v:
                        acc = acc + p.scale(to_poly(v).const_value())
                want = trace_with(rho, word)
                if not (acc - want).is_zero():
                    R, err = numeric_witness(n, lambda R: sum(born_num(R, r, b) * v for (r, b), v in zip(recs, vals))
                                             - np.trace(R @ np.asarray(qp.matrix(P, wire_order=list(range(n))))))
                    return refuted(f"E[expval estimate of {word}] - tr(rho P) = {str(acc - want)[:300]}",
                                   dict(observable=word, rho=[[str(z) for z in row] for row in R.tolist()],
                                        per_record_estimates={f"{r}/{b}": v for (r, b), v in zip(recs, vals)}),
                                   f"E[estimate] - tr(rho P) = {complex(err):.6f}", "0")
                # the estimator on the whole ensemble is the plain mean of the per-record values
                whole = float(np.asarray(full.expval(P, k=1)))
                if Fraction(whole).limit_denominator(10 ** 6) != Fraction(sum(Fraction(v) for v in vals), len(vals)):
                    return refuted("expval(k=1) on the complete ensemble is not the mean of the per-record estimates", dict(observable=word), whole,
                                   float(sum(vals) / len(vals)))
                count += 1
            return Outcome(DISCHARGED, "real-kernels+exact-polynomials", f"{count} Pauli words x {len(recs)} records", extra=dict(sub_obligations=count))
        return ob(f"C60/classical_shadow:ClassicalShadow.expval/unbiased-all-pauli-words[n={n}]", fn, (SFILE, "ClassicalShadow.expval"),
                  "sum p(r,b) . expval_single_record(P) == tr(rho P) for every Pauli word, generic symbolic rho; expval(k=1) is the mean", size_bounded=True, timeout=1500)
    for n in ns:
        plan.add(unbiased_expval(n))

    def linear_combinations():
        n = 2
        recs = records(n)
        full = shadow_of(recs)
        H = qp.Hamiltonian([2.0, -0.5, 0.25], [qp.X(0) @ qp.Z(1), qp.Y(1), qp.Identity(0)])
        terms = [("XZ", 2.0), ("IY", -0.5), ("II", 0.25)]
        for s in [shadow_of([rec]) for rec in recs] + [full]:
            got = float(np.asarray(s.expval(H, k=1)))
            want = sum(c * float(np.asarray(s.expval(op_of(wd), k=1))) for wd, c in terms)
            if got != want:
                return refuted("expval of a linear combination is not the combination of the expvals", dict(bits=s.bits.tolist(), recipes=s.recipes.tolist()), got, want)
        lst = np.asarray(full.expval([qp.X(0), qp.Z(1) @ qp.Z(0)], k=1))
        if lst.shape != (2,) or float(lst[0]) != float(np.asarray(full.expval(qp.X(0)))) or float(lst[1]) != float(np.asarray(full.expval(qp.Z(0) @ qp.Z(1)))):
            return refuted("expval of a list of observables", dict(observables="[X(0), Z(1)@Z(0)]"), lst.tolist(), "one value per observable")
        return Outcome(DISCHARGED, "real-kernels", "Hamiltonian and list inputs are linear / elementwise")
    plan.add(ob("C60/classical_shadow:ClassicalShadow.expval/linear-combinations[n=2]", linear_combinations, (SFILE, "ClassicalShadow.expval"),
                "expval(sum c_i P_i) == sum c_i expval(P_i) on every record and on the ensemble; lists give one value per observable", size_bounded=True))
    for q in ("ClassicalShadow.expval", "pauli_expval", "ClassicalShadow._convert_to_pauli_words", "ClassicalShadow._convert_to_pauli_words_with_pauli_rep"):
        plan.fn_under_contract(SFILE, q)

    # ------------------------------------------------------------------------------------------------ (3) median of means
    def capture_batches(arr, k):
        seen = {}
        orig = np.median

        def spy(means, axis=0):
            seen["means"] = [np.asarray(m) for m in means]
            return orig(means, axis=axis)
        np.median = spy
        try:
            with warnings.catch_warnings():
                warnings.simplefilter("ignore")
                res = CS.median_of_means(arr, k, axis=0)
        finally:
            np.median = orig
        return res, seen.get("means")

    def mom_structure():
        for T in range(1, 13):
            arr = np.eye(T)                       # record t is the unit vector e_t: a batch mean shows exactly which records it averaged
            for k in range(1, T + 1):
                res, means = capture_batches(arr, k)
                if means is None or not 1 <= len(means) <= k:
                    return refuted("median_of_means does not take the median of (at most) k batch means", dict(T=T, k=k), None if means is None else len(means), k)
                if T % k == 0 and len(means) != k:
                    return refuted("k divides T but there are not k batches", dict(T=T, k=k), len(means), k)
                used = []
                for m in means:
                    if np.all(np.isnan(m)):
                        continue                  # an EMPTY batch (see the separate obligation)
                    idx = np.nonzero(m)[0]
                    if len(idx) == 0 or not np.allclose(m[idx], 1.0 / len(idx)) or list(idx) != list(range(idx[0], idx[0] + len(idx))):
                        return refuted("a batch mean is not the mean of consecutive records", dict(T=T, k=k), m.tolist(), "mean of a consecutive block")
                    used += list(idx)
                if used != list(range(T)):
                    return refuted("records are dropped, reused or reordered by the batching", dict(T=T, k=k), used, list(range(T)))
                if k == 1 and not np.array_equal(res, np.mean(arr, axis=0)):
                    return refuted("k = 1 is not the plain mean", dict(T=T), res.tolist(), np.mean(arr, axis=0).tolist())
        return Outcome(DISCHARGED, "real-kernel", "T <= 12, 1 <= k <= T: at most k consecutive batches of ceil(T/k) records (exactly k equal ones when k divides T), every record in exactly one; k = 1 is the mean")
    plan.add(ob("C60/classical_shadow:median_of_means/batches-partition-the-records[T<=12]", mom_structure, (SFILE, "median_of_means"),
                "batch means are means of consecutive blocks that partition the records (none dropped / reused); k = 1 is the mean", size_bounded=True))

    def mom_no_empty():
        for T in range(1, 13):
            for k in range(1, T + 1):
                res, means = capture_batches(np.eye(T), k)
                one = CS.median_of_means(np.arange(T, dtype=float), k) if True else None
                empty = means is None or any(np.any(np.isnan(m)) for m in means)
                covered = [] if means is None else [i for m in means if not np.any(np.isnan(m)) for i in np.nonzero(m)[0]]
                if empty or covered != list(range(T)) or not np.all(np.isfinite(res)) or not np.isfinite(one):
                    return refuted("median_of_means takes the mean of an EMPTY batch (nan): ceil(T/k)-sized batches leave trailing batches empty",
                                   dict(T=T, k=k, arr=list(range(T))), float(one), "a finite median of non-empty, consecutive, disjoint batches covering all T records")
        return Outcome(DISCHARGED, "real-kernel", "every batch whose mean is taken is non-empty; batches consecutive, disjoint, covering; result finite (1 <= k <= T <= 12)")
    plan.add(ob("C60/classical_shadow:median_of_means/no-empty-batch[k<=T<=12]", mom_no_empty, (SFILE, "median_of_means"),
                "every batch whose mean is taken is non-empty, the batches taken are consecutive, disjoint and cover all T records, result finite, for 1 <= k <= T",
                size_bounded=True))
    plan.fn_under_contract(SFILE, "median_of_means")

    # ------------------------------------------------------------------------------------------------ (4) device measurements (bounded stand-ins)
    def device_form():
        for n, T, wires in ((1, 5, [0]), (2, 9, [0, 1]), (2, 7, [2, 0]), (3, 4, [1, 2, 0])):
            dev = qp.device("default.qubit", wires=3, seed=seed + 3)

            def circ():
                qp.Hadamard(0)
                qp.CNOT([0, 1])
                qp.RX(0.4, 2)
                return qp.classical_shadow(wires=wires, seed=77)
            qn = qp.set_shots(T)(qp.QNode(circ, dev))
            r1, r2 = np.asarray(qn()), np.asarray(qn())
            if r1.shape != (2, T, n) or r1.dtype != np.int8 or not set(np.unique(r1[0])) <= {0, 1} or not set(np.unique(r1[1])) <= {0, 1, 2}:
                return refuted("device shadow measurement is not of the documented form", dict(wires=wires, shots=T), dict(shape=list(r1.shape), dtype=str(r1.dtype)),
                               f"shape (2, {T}, {n}), int8, bits in {{0,1}}, recipes in {{0,1,2}}")
            if not np.array_equal(r1[1], r2[1]) or not np.array_equal(r1[1], np.random.RandomState(77).randint(0, 3, size=(T, n))):
                return refuted("recipes are not the ones drawn from the measurement's seed", dict(wires=wires, shots=T, seed=77), r1[1].tolist(),
                               np.random.RandomState(77).randint(0, 3, size=(T, n)).tolist())
        return Outcome(DISCHARGED, "device-run", "shape / dtype / value ranges / seeded recipes on three wire selections")
    plan.add(ob("C60/classical_shadow:ClassicalShadowMP.process_state_with_shots/documented-form[sampled]", device_form, (MFILE, "ClassicalShadowMP.process_state_with_shots"),
                "bits and recipes: shape (2,T,n), int8, {0,1} / {0,1,2}, recipes reproducible from the seed", bounded=True))

    def device_statistics(ws):
        """ws: the wires handed to classical_shadow, in that order (column i of bits / recipes belongs to wire ws[i])"""
        T = 30000
        dev = qp.device("default.qubit", wires=2, seed=seed + 5)

        def prep():
            qp.RY(0.7, 0)
            qp.RX(1.1, 1)
            qp.CNOT([0, 1])
            qp.S(0)

        def circ():
            prep()
            return qp.classical_shadow(wires=list(ws), seed=seed + 9)
        bits, recipes = qp.set_shots(T)(qp.QNode(circ, dev))()

        def state_circ():
            prep()
            return qp.state()
        psi = np.asarray(qp.QNode(state_circ, qp.device("default.qubit", wires=2))())
        # the state with its tensor factors in the order of ws (factor i = wire ws[i])
        psi_w = np.transpose(psi.reshape(2, 2), axes=list(ws)).reshape(4)
        rho = np.outer(psi_w, psi_w.conj())

        def op_on(word):
            non_id = [{"X": qp.X, "Y": qp.Y, "Z": qp.Z}[ch](ws[i]) for i, ch in enumerate(word) if ch != "I"]
            return non_id[0] if len(non_id) == 1 else qp.prod(*non_id)
        # outcome frequencies per recipe against the Born probabilities (6 sigma), then the estimator against the exact expectation values
        for r in itertools.product((0, 1, 2), repeat=2):
            sel = np.all(recipes == np.array(r), axis=1)
            m = int(sel.sum())
            for b in itertools.product((0, 1), repeat=2):
                p = born_num(rho, r, b) * 9
                f = float(np.mean(np.all(bits[sel] == np.array(b), axis=1)))
                if abs(f - p) > 6 * np.sqrt(max(p * (1 - p), 1e-4) / m):
                    return refuted("device outcome frequencies deviate from the Born probabilities of the recipe's basis by more than 6 sigma",
                                   dict(wires=list(ws), recipe=list(r), outcome=list(b), shots_with_recipe=m), f, p)
        sh = qp.ClassicalShadow(bits, recipes, wire_map=list(ws))
        for word in ("XI", "IY", "ZZ", "YX", "XZ"):
            est = float(np.asarray(sh.expval(op_on(word), k=1)))
            ex = float(np.real(np.trace(rho @ np.asarray(qp.matrix(op_on(word), wire_order=list(ws))))))
            k_loc = sum(ch != "I" for ch in word)
            if abs(est - ex) > 6 * np.sqrt(3 ** k_loc / T):
                return refuted("shadow estimate deviates from the exact expectation value by more than 6 sigma", dict(wires=list(ws), observable=word, shots=T), est, ex)
        return Outcome(DISCHARGED, "device-run(statistical, 6 sigma)", f"{T} shots, 9 recipes x 4 outcomes, 5 observables, wires {list(ws)}")
    plan.add(ob("C60/sampling:_measure_classical_shadow/born-statistics+estimates[30000 shots, 6 sigma]", lambda: device_statistics((0, 1)), (DFILE, "_measure_classical_shadow"),
                "seeded device shadow: outcome frequencies per recipe match <b|U rho U^dagger|b>, estimates within 6 sigma of tr(rho P)", bounded=True, timeout=1200))
    # wires listed in non-ascending order: column i of bits / recipes must still belong to wires[i] (independent seed C60_3)
    plan.add(ob("C60/sampling:_measure_classical_shadow/born-statistics+estimates[wires=[1,0], 30000 shots, 6 sigma]", lambda: device_statistics((1, 0)),
                (DFILE, "_measure_classical_shadow"), "as above with classical_shadow(wires=[1, 0])", bounded=True, timeout=1200))
    plan.fn_under_contract(MFILE, "ClassicalShadowMP.process_state_with_shots")
    plan.fn_under_contract(DFILE, "_measure_classical_shadow")
    return plan
