"""C51 Pauli algebra agrees with matrix algebra.

Layers (each obligation says which):

 (a) TABLE lemmas, complete finite enumeration in exact arithmetic, tables read from the REAL module at run time:
     mul_map[a][b] == (phase, c)  =>  REF(a).REF(b) == phase.REF(c)  (16);  anticom_map[a][b] == 1 <=> REF(a), REF(b) anticommute,
     == 0 <=> they commute (16);  mat_map / _cached_sparse_data / op_map of each letter denote REF(letter) (REF = refs/gates.py).
 (b) E1 deductive contracts on the real bodies, words over ANY number of wires (a Pauli word is a finite map wire -> {X,Y,Z}
     with its duplicate-free key order; wires are an uninterpreted label sort):
       PauliWord._matmul      result[w] == letter of mul_map[self.get(w,I)][other.get(w,I)], identities dropped, for EVERY wire w, and
                              coeff == fold of the table phases (self letter, other letter) along the iterated word's key order --
                              in both orientations of the `swapped` optimisation (loop invariant over the iterated items);
       PauliWord.commutes_with  == parity of the number of common wires whose letters anticommute (anticom_map), for any enumeration;
       PauliWord._commutator    == (empty word, 0) when the words commute, (product word, 2.coeff) otherwise (callee contracts);
       PauliSentence.__add__ / __iadd__ (sentence operand): pointwise sum on the union of the key sets, operands not modified /
                              self updated in place -- sentences of ANY size, words abstracted to hashable labels.
     With (a) and the mixed-product property of the Kronecker product  (A(x)B).(C(x)D) = (AC)(x)(BD)  [a stated mathematical lemma]
     this gives  mat(self).mat(other) == coeff . mat(result)  for words on any wire set.
 (c) E2-style execution of the REAL PauliWord / PauliSentence arithmetic on GENERIC sentences (every coefficient a free symbol,
     all 16 words of a two-wire register; also operands on overlapping three-wire registers), compared as exact polynomial
     matrices with the reference denotation  den(S) = sum_w S[w] . (x)_wires REF(letter):  @, +, -, scalar *, /, commutator, trace,
     in-place +=, dense to_mat.   SIZE-BOUNDED in the number of wires, complete in the coefficients and words of that size.
 (d) end-to-end confirmation, size-bounded: for all words on <= 2 wires  qp.matrix(w1 @ w2) == qp.matrix(w1) @ qp.matrix(w2)  exactly
     (Gaussian-integer arithmetic on the float matrices, which are exact there); dense/csr to_mat of every word on <= 3 wires.
"""
import itertools
import random
from fractions import Fraction

import numpy as np
import z3

from vf.common import Plan, Obligation, Outcome, DISCHARGED, REFUTED, UNDECIDED
from vf.pyvc.engine import T, Int, Float, Label, LabelSort, SeqT, SeqV, FloatV
from vf.pyvc.contract import FnContract, Case, LoopSpec, obligations_for
from vf.pyvc.ext import XWorld, XInterp, Enum, EnumV, GaussV, DictV, fresh_dict, gparts, gauss_type, with_standin
from vf.symx.ring import Poly, Cyc, I_
from vf.symx.scalar import Sym, sym, poly_matrix, to_poly, pm_matmul, pm_kron, pm_eye
from refs import gates as G

FILE = "pennylane/pauli/pauli_arithmetic.py"
LETTERS = "IXYZ"
LET = Enum("Letter", list(LETTERS))


def real():
    import pennylane as qp
    from pennylane.pauli import pauli_arithmetic as PA
    return qp, PA


# ---------------------------------------------------------------------------------------------------- exact reference semantics
def ref_letter(ch):
    return poly_matrix({"I": G.I2, "X": G.X, "Y": G.Y, "Z": G.Z}[ch])


def exact(m):
    """numpy / list matrix of python numbers -> Poly matrix (floats must be exactly representable constants)"""
    return poly_matrix(np.asarray(m))


def pm_eq(a, b):
    return a.shape == b.shape and all((x - y).is_zero() for x, y in zip(a.flat, b.flat))


def pm_add(a, b):
    out = np.empty(a.shape, dtype=object)
    for idx, x in np.ndenumerate(a):
        out[idx] = x + b[idx]
    return out


def pm_scale(a, c):
    out = np.empty(a.shape, dtype=object)
    for idx, x in np.ndenumerate(a):
        out[idx] = x * c
    return out


def pm_zero(n):
    out = np.empty((n, n), dtype=object)
    for idx in np.ndindex(n, n):
        out[idx] = Poly()
    return out


_WORD_CACHE = {}


def den_word(word, order):
    """(x)_{w in order} REF(word.get(w, I)) : the matrix a Pauli word DENOTES (reference semantics, independent of to_mat)"""
    key = (tuple(sorted((str(k), v) for k, v in dict(word).items())), tuple(map(str, order)))
    if key not in _WORD_CACHE:
        m = pm_eye(1)
        for wire in order:
            m = pm_kron(m, ref_letter(dict(word).get(wire, "I")))
        _WORD_CACHE[key] = m
    return _WORD_CACHE[key]


def den_sentence(ps, order):
    """sum_w ps[w] . den_word(w): reads the sentence as a plain map word -> coefficient"""
    out = pm_zero(2 ** len(order))
    for w, c in dict.items(ps):
        if any(k not in order for k in dict(w)):
            raise ValueError(f"word {dict(w)} outside the wire order {order}")
        out = pm_add(out, pm_scale(den_word(w, order), to_poly(c)))
    return out


def coeff_map(ps):
    """sentence -> {frozenset(word items): Poly} with zero coefficients dropped (the map-level meaning, missing == 0)"""
    out = {}
    for w, c in dict.items(ps):
        p = to_poly(c)
        k = frozenset(dict(w).items())
        if k in out:
            raise ValueError("two equal words stored under different keys")
        if any(v == "I" for v in dict(w).values()):
            raise ValueError(f"identity letter stored in a word: {dict(w)}")
        if not p.is_zero():
            out[k] = p
    return out


def gaussian(m):
    """float/complex matrix whose entries are exactly Gaussian integers -> (re, im) int arrays, else None"""
    a = np.asarray(m.toarray() if hasattr(m, "toarray") else m, dtype=complex)
    re, im = a.real, a.imag
    if not (np.all(re == np.round(re)) and np.all(im == np.round(im))):
        return None
    return re.astype(np.int64), im.astype(np.int64)


def g_matmul(a, b):
    return a[0] @ b[0] - a[1] @ b[1], a[0] @ b[1] + a[1] @ b[0]


def g_eq(a, b):
    return a[0].shape == b[0].shape and bool(np.all(a[0] == b[0]) and np.all(a[1] == b[1]))


def den_word_gauss(word, order):
    m = den_word(word, order)
    re = np.zeros(m.shape, dtype=np.int64)
    im = np.zeros(m.shape, dtype=np.int64)
    for idx, x in np.ndenumerate(m):
        c = x.const_value()
        r = c.d.get(0, Fraction(0))
        i = c.d.get(24, Fraction(0))
        assert set(c.d) <= {0, 24} and r.denominator == 1 and i.denominator == 1
        re[idx], im[idx] = int(r), int(i)
    return re, im


def native(name, fn, desc, func, **kw):
    """fn() -> None (holds) or dict(inputs=..., observed=..., expected=...): the REAL code was run on that input"""
    def run():
        bad = fn()
        if bad:
            return Outcome(REFUTED, "real-code-run+exact-arithmetic", str(bad)[:1500], witness=dict(inputs=bad.get("inputs")),
                           replay=dict(confirmed=True, observed=bad.get("observed"), expected=bad.get("expected", desc), inputs=bad.get("inputs")))
        return Outcome(DISCHARGED, "real-code-run+exact-arithmetic", desc)
    return Obligation(name, "post", run, func=(FILE, func), sample=desc, timeout=kw.pop("timeout", 600), **kw)


def words_on(PA, wires):
    return [PA.PauliWord({w: ch for w, ch in zip(wires, letters)}) for letters in itertools.product(LETTERS, repeat=len(wires))]


def show_word(w):
    return {str(k): v for k, v in dict(w).items()}


def show_ps(ps):
    return {str(show_word(w)): repr(c) for w, c in dict.items(ps)}


# ---------------------------------------------------------------------------------------------------------------- the plan
def build(tier, seed):
    plan = Plan("C51", level="proof")
    plan.explanation = ("(a) the real multiplication / anticommutation / matrix / sparse-data tables are checked against independent reference "
                        "matrices in exact arithmetic (complete: 4 letters, 16 pairs); (b) the real PauliWord._matmul, commutes_with, _commutator "
                        "and PauliSentence.__add__/__iadd__ bodies are executed symbolically on finite maps of SYMBOLIC size over an uninterpreted "
                        "wire-label sort (z3: arrays + axiomatic key sequences, loop invariants) against per-wire table contracts; (c) the real "
                        "sentence arithmetic is run on generic sentences with free symbolic coefficients and compared, as exact polynomial "
                        "matrices, with the reference denotation (size-bounded in the wires); (d) qp.matrix end-to-end on all words of <= 2 wires.")
    plan.trusted_base = ["vf/pyvc encoder + vf/pyvc/ext.py (dicts of symbolic size with key order, enumeration values, Gaussian integers)",
                         "vf/pyvc/aseq.py sequence axioms (self-checked by C45)", "vf/symx exact ring", "refs/gates.py I, X, Y, Z",
                         "mathematical lemmas stated, not machine-checked: mixed-product property of the Kronecker product; a tensor product of "
                         "Pauli letters commutes with another iff the number of anticommuting positions is even; commutativity of the product of "
                         "the per-wire phases (the fold over the key order does not depend on the order)"]
    plan.assumptions = ["A-labels: wire labels (and, for the sentence contracts, Pauli words as dict keys) are used only through ==/hash: uninterpreted sort",
                        "class invariant of PauliWord: no identity letter is stored (established by __init__, assumed for the operands, proved for results)",
                        "(c): a polynomial identity that holds for all real values of the coefficient symbols holds for all complex values",
                        "(d): float matrices with Gaussian-integer entries are exact (|entries| < 2^53)"]
    plan.assumed_contracts = ["PauliWord.__init__(mapping) == dict(mapping) without the items whose letter is I (dict / filter of the standard library)",
                              "copy(PauliSentence) (= PauliSentence.__copy__) returns a new sentence with equal items; checked natively in (c) on generic sentences",
                              "iteration over a dict / len(dict) follow one duplicate-free enumeration of its key set"]
    plan.unverified = ["sparse (csr) sentence matrices with buffering (_to_sparse_mat, _sum_same_structure_pws, _sum_different_structure_pws): only "
                       "the bounded stand-in of (d)", "PauliSentence.dot, _get_same_structure_csr", "pauli_decompose, pauli_sentence round trips (conversion.py)",
                       "operation() / operator forms", "PauliSentence.__matmul__ / commutator for sentences with unboundedly many words on unboundedly many "
                       "wires (covered: generic sentences on <= 3 wires + the per-word-pair contract of _matmul)", "ML-interface coefficients (torch/jax/autograd), "
                       "batched coefficients", "prune / simplify (tolerance-based dropping)"]
    plan.dropped = ["docstrings, annotations", "exception messages"]
    qp, PA = real()

    # =================================================================================================== (a) table lemmas
    REFM = {ch: ref_letter(ch) for ch in LETTERS}

    def mul_entry(a, b):
        def fn():
            e = PA.mul_map[a][b]
            ok = isinstance(e, tuple) and len(e) == 2 and e[1] in LETTERS and isinstance(e[0], (int, float, complex))
            if ok:
                ok = pm_eq(pm_matmul(REFM[a], REFM[b]), pm_scale(REFM[e[1]], to_poly(e[0])))
            if not ok:
                return dict(inputs=dict(a=a, b=b), observed=repr(e), expected="(phase, c) with REF(a).REF(b) == phase.REF(c)")
            return None
        return native(f"C51/pauli_arithmetic:mul_map/{a}*{b}", fn, "REF(a).REF(b) == phase.REF(c) for mul_map[a][b] == (phase, c), exact", "PauliWord._matmul")

    def anti_entry(a, b):
        def fn():
            v = PA.anticom_map[a][b]
            ab, ba = pm_matmul(REFM[a], REFM[b]), pm_matmul(REFM[b], REFM[a])
            anti = all((x + y).is_zero() for x, y in zip(ab.flat, ba.flat))
            comm = pm_eq(ab, ba)
            if not ((v == 1 and anti and type(v) is int) or (v == 0 and comm and type(v) is int)):
                return dict(inputs=dict(a=a, b=b), observed=repr(v), expected=f"1 iff the matrices anticommute (they {'anti' if anti else ''}commute)")
            return None
        return native(f"C51/pauli_arithmetic:anticom_map/{a},{b}", fn, "anticom_map[a][b] == 1 <=> REF(a).REF(b) == -REF(b).REF(a); == 0 <=> they commute",
                      "PauliWord.commutes_with")
    for a, b in itertools.product(LETTERS, repeat=2):
        plan.add(mul_entry(a, b))
    for a, b in itertools.product(LETTERS, repeat=2):
        plan.add(anti_entry(a, b))

    def letter_tables(ch):
        def fn():
            if not pm_eq(exact(PA.mat_map[ch]), REFM[ch]):
                return dict(inputs=ch, observed=str(PA.mat_map[ch]), expected="mat_map[letter] == reference matrix")
            data, idx = PA._cached_sparse_data(ch)
            dense = np.zeros((2, 2), dtype=complex)
            for r in range(2):
                dense[r, int(idx[r])] = data[r]
            if len(data) != 2 or len(idx) != 2 or not pm_eq(exact(dense), REFM[ch]):
                return dict(inputs=ch, observed=dict(data=str(data), indices=str(idx)), expected="csr row data/indices of the reference matrix")
            diag = [int(i) for i in idx] == [0, 1]
            if PA.pauli_to_sparse_int[ch] != (0 if diag else 1):
                return dict(inputs=ch, observed=PA.pauli_to_sparse_int[ch], expected="0 for the diagonal letters, 1 for the anti-diagonal ones")
            cls = PA.op_map[ch]
            if not pm_eq(poly_matrix(cls.compute_matrix()), REFM[ch]) or PA.op_to_str_map[cls] != ch:
                return dict(inputs=ch, observed=cls.__name__, expected="op_map[letter] has the reference matrix and op_to_str_map inverts op_map")
            return None
        return native(f"C51/pauli_arithmetic:letter-tables/{ch}", fn, "mat_map, _cached_sparse_data, pauli_to_sparse_int, op_map of the letter denote REF(letter)",
                      "_cached_sparse_data")
    for ch in LETTERS:
        plan.add(letter_tables(ch))

    def table_shape():
        for name in ("mul_map", "anticom_map"):
            t = getattr(PA, name)
            if sorted(t) != sorted(LETTERS) or any(sorted(t[a]) != sorted(LETTERS) for a in t):
                return dict(inputs=name, observed=str({a: sorted(t[a]) for a in t}), expected="a total 4x4 table over I, X, Y, Z")
        if (PA.I, PA.X, PA.Y, PA.Z) != tuple(LETTERS):
            return dict(inputs="I, X, Y, Z", observed=repr((PA.I, PA.X, PA.Y, PA.Z)), expected="the letter constants are 'I','X','Y','Z'")
        return None
    plan.add(native("C51/pauli_arithmetic:tables/total-over-IXYZ", table_shape, "the tables are total over the four letters", "PauliWord._matmul"))

    # =================================================================================================== (b) E1 contracts
    TABLE, ANTI, table_ok = {}, {}, True
    for a in LETTERS:
        for b in LETTERS:
            try:
                ph, c = PA.mul_map[a][b]
                ph = complex(ph)
                if ph.real != int(ph.real) or ph.imag != int(ph.imag):
                    table_ok = False
                TABLE[(LET.code[a], LET.code[b])] = (int(ph.real), int(ph.imag), LET.code[c])
                ANTI[(LET.code[a], LET.code[b])] = int(PA.anticom_map[a][b])
            except Exception:  # pylint: disable=broad-except
                table_ok = False
    LT = LET.T()

    def mk_world(int_seqs=False):
        w = XWorld(FILE)
        w.aseq(Label)
        if int_seqs:
            w.aseq(Int)
        return w
    w = mk_world()
    TH = w.aseq(Label)
    LETF = z3.Function("table_letter", z3.IntSort(), z3.IntSort(), z3.IntSort())
    FRE = z3.Function("phase_fold_re", TH.sort, z3.IntSort(), z3.IntSort())
    FIM = z3.Function("phase_fold_im", TH.sort, z3.IntSort(), z3.IntSort())
    CNT = z3.Function("anticommuting_count", TH.sort, z3.IntSort(), z3.IntSort())

    def strip_identities(it, m):
        """PauliWord(mapping): assumed contract of __init__ -- the items whose letter is not I"""
        x = z3.Const("pw_x", LabelSort)
        dom = z3.Const(it.ctx.fresh_name("pw.dom"), m.dom.sort())
        it.ctx.assume(z3.ForAll([x], z3.Select(dom, x) == z3.And(z3.Select(m.dom, x), z3.Select(m.val, x) != 0), patterns=[z3.Select(dom, x)]))
        return DictV(dom, m.val, Label, LT, None, "PauliWord", "I")

    def pauliword_ctor(it, args, kw):
        m = args[0]
        if isinstance(m, dict):
            if m:
                raise ValueError("only PauliWord({}) with a literal")
            return DictV(z3.K(LabelSort, z3.BoolVal(False)), z3.K(LabelSort, z3.IntVal(0)), Label, LT, TH.EMPTY, "PauliWord", "I")
        return strip_identities(it, m)
    w.extra_builtins["PauliWord"] = pauliword_ctor

    def gen_word(rng):
        k = rng.choice([0, 1, 1, 2, 2, 3, 3, 4])
        return {"__map__": [[lab, rng.randint(1, 3)] for lab in rng.sample(["L0", "L1", "L2", "L3", "L4"], k)]}

    def word_t():
        return T("build", lambda ctx, nm: fresh_dict(ctx, nm, Label, LT, cls="PauliWord", missing="I",
                                                     val_ok=lambda v: z3.Or(v == 1, v == 2, v == 3)), gen=gen_word)

    def letter_at(d, x):
        return z3.If(z3.Select(d.dom, x), z3.Select(d.val, x), z3.IntVal(0))

    def table_ghost(ctx, a):
        for (p, q), (re, im, c) in TABLE.items():
            ctx.assume(LETF(p, q) == c)

    def fold_step(ks, k, S, O):
        """instances of  F(ks,0) = 1,  F(ks,k+1) = F(ks,k) . phase(self[ks[k]], other[ks[k]])  by cases of the real table"""
        x = TH.AT(ks, k)
        a, b = letter_at(S, x), letter_at(O, x)
        out = [FRE(ks, 0) == 1, FIM(ks, 0) == 0]
        for (p, q), (re, im, c) in TABLE.items():
            out.append(z3.Implies(z3.And(a == p, b == q), z3.And(FRE(ks, k + 1) == FRE(ks, k) * re - FIM(ks, k) * im,
                                                                 FIM(ks, k + 1) == FRE(ks, k) * im + FIM(ks, k) * re)))
        return out

    def is_sym(*xs):
        return any(isinstance(x, (DictV, z3.ExprRef, GaussV, SeqV, FloatV)) for x in xs)

    def native_word(d):
        return PA.PauliWord({k: LETTERS[c] for k, c in d.items()})

    def product_spec(S, O):
        """python: per-wire table product of two letter maps (codes) read from the REAL table: (word dict, coefficient)"""
        word, coeff = {}, 1
        for k in list(S) + [k for k in O if k not in S]:
            ph, c = PA.mul_map[LETTERS[S.get(k, 0)]][LETTERS[O.get(k, 0)]]
            coeff = coeff * ph
            if c != "I":
                word[k] = c
        return word, coeff

    def matmul_post_sym(S, O, F, c, factor=1):
        """(word clause, coefficient clause): F is the per-wire table product, c == factor . fold of the table phases"""
        x = z3.Const("w_post", LabelSort)
        L = LETF(letter_at(S, x), letter_at(O, x))
        q = z3.ForAll([x], z3.And(z3.Select(F.dom, x) == (L != 0), z3.Implies(L != 0, z3.Select(F.val, x) == L)),
                      patterns=[z3.Select(F.dom, x), z3.Select(F.val, x)])
        ks = z3.If(TH.LEN(S.order) >= TH.LEN(O.order), O.order, S.order)
        cre, cim = gparts(c)
        return q, z3.And(cre == factor * FRE(ks, TH.LEN(ks)), cim == factor * FIM(ks, TH.LEN(ks)))

    def matmul_post(o, r, n):
        if is_sym(o.self):
            F, c = r
            q, cf = matmul_post_sym(o.self, o.other, F, c)
            return z3.And(q, cf)
        word, coeff = product_spec(o.self, o.other)
        return isinstance(r, tuple) and len(r) == 2 and isinstance(r[0], PA.PauliWord) and dict(r[0]) == word and complex(r[1]) == complex(coeff)

    def matmul_inv(v):
        it, base, R, i = v.iterator, v.base, v.result, v._i0
        ks = it.order
        x = z3.Const("w_inv", LabelSort)
        done = TH.MEM(TH.TAKE(ks, i), x)
        L = LETF(letter_at(v.self, x), letter_at(v.other, x))
        # stated on the EFFECTIVE letter of `result` (absent == I): the constructor strips stored identities anyway
        body = z3.And(z3.Implies(done, letter_at(R, x) == L), z3.Implies(z3.Not(done), letter_at(R, x) == letter_at(base, x)))
        q = z3.ForAll([x], body, patterns=[z3.Select(R.dom, x), z3.Select(R.val, x)])
        cre, cim = gparts(v.coeff)
        return z3.And(q, cre == FRE(ks, i), cim == FIM(ks, i))

    def call_matmul(mod, a):
        return native_word(a["self"])._matmul(native_word(a["other"]))

    contracts = []
    matmul_case = Case("words-on-any-number-of-wires", {"self": word_t(), "other": word_t()}, ghost=table_ghost,
                       loops={0: LoopSpec(inv=matmul_inv, types={"coeff": gauss_type()},
                                          axioms=lambda v: fold_step(v.iterator.order, v._i0, v.self, v.other))},
                       ensures=matmul_post, max_paths=2000, native_call=call_matmul)
    contracts.append(FnContract(w, "PauliWord._matmul", [matmul_case]))

    # ---- commutes_with: parity of the anticommuting common wires (any enumeration of the common wires)
    w2 = mk_world(int_seqs=True)
    TI = w2.aseq(Int)
    SUMF = z3.Function("sum_of_int_seq", TI.sort, z3.IntSort())
    E_COMMON = z3.Const("enumeration_of_common_wires", TH.sort)

    class CInterp(XInterp):
        """the generator over the SET of common wires iterates over SOME duplicate-free enumeration of it (recorded as ghost)"""

        def sym_comp(self, n, env):
            if len(n.generators) == 1 and not n.generators[0].ifs:
                it = self.eval(n.generators[0].iter, env)
                from vf.pyvc.engine import SetV
                if isinstance(it, SetV) and it.term is not None:
                    import ast as _ast
                    seq = self.enumerate_set(it, False)
                    self.ctx.ghost["set_enum"] = seq.term
                    env["__comp_src__"] = seq
                    g = n.generators[0]
                    n2 = type(n)(elt=n.elt, generators=[_ast.comprehension(target=g.target, iter=_ast.Name(id="__comp_src__", ctx=_ast.Load()),
                                                                           ifs=[], is_async=0)])
                    _ast.copy_location(n2, n)
                    _ast.fix_missing_locations(n2)
                    n2.lineno = n.lineno
                    return super().sym_comp(n2, env)
            return super().sym_comp(n, env)

    def b_sum(it, args, kw):
        v = args[0]
        if isinstance(v, SeqV):
            return SUMF(v.term)
        raise NotImplementedError
    w2.extra_builtins["sum"] = b_sum

    def sum_axioms():
        s, x = z3.Const("sm_s", TI.sort), z3.Int("sm_x")
        return [SUMF(TI.EMPTY) == 0, z3.ForAll([s, x], SUMF(TI.SNOC(s, x)) == SUMF(s) + x, patterns=[SUMF(TI.SNOC(s, x))])]

    def count_step(E, k, S, O):
        x = TH.AT(E, k)
        a, b = letter_at(S, x), letter_at(O, x)
        out = [CNT(E, 0) == 0]
        for (p, q), v in ANTI.items():
            out.append(z3.Implies(z3.And(a == p, b == q), CNT(E, k + 1) == CNT(E, k) + v))
        return out

    def comm_ghost(ctx, a):
        for ax in sum_axioms():
            ctx.assume(ax)

    def seq_term(v):
        from vf.pyvc.engine import PyList
        if isinstance(v, PyList):
            assert not v.items
            return TI.EMPTY
        return v.term

    def comm_inv(v):
        E = v.comp_it.term
        return z3.And(SUMF(seq_term(v.comp_r)) == CNT(E, v.comp_i))

    def comm_axioms(o, r, n, extra):
        S, O = o.self, o.other
        common = z3.SetIntersect(S.dom, O.dom)
        enum = getattr(extra.ghost, "set_enum", None)
        out = [CNT(E_COMMON, 0) == 0]
        if enum is not None:
            out.append(E_COMMON == enum)
        else:
            # no enumeration was made on this path: E_COMMON is SOME duplicate-free enumeration of the (finite) common key set
            out += [TH.NODUP(E_COMMON), TH.SETOF(E_COMMON) == common]
        return out

    def native_anti_count(S, O):
        return sum(PA.anticom_map[LETTERS[S[k]]][LETTERS[O[k]]] for k in S if k in O)

    def comm_post(o, r, n):
        if is_sym(o.self):
            par = CNT(E_COMMON, TH.LEN(E_COMMON)) % 2 == 0
            return (r == par) if isinstance(r, z3.ExprRef) else (par if r else z3.Not(par))
        return isinstance(r, (bool, np.bool_)) and bool(r) == (native_anti_count(o.self, o.other) % 2 == 0)

    comm_case = Case("words-on-any-number-of-wires", {"self": word_t(), "other": word_t()}, ghost=comm_ghost,
                     loops={"comp0": LoopSpec(inv=comm_inv, types={"comp_r": SeqT(Int, ax=True)},
                                              axioms=lambda v: count_step(v.comp_it.term, v.comp_i, v.self, v.other))},
                     axioms=comm_axioms, ensures=comm_post, max_paths=2000,
                     native_call=lambda mod, a: native_word(a["self"]).commutes_with(native_word(a["other"])))
    comm_case.interp_cls = CInterp
    contracts.append(FnContract(w2, "PauliWord.commutes_with", [comm_case]))

    # ---- _commutator: modular over the two contracts above
    w3 = mk_world()
    COMMUTE = z3.Function("words_commute", z3.ArraySort(LabelSort, z3.BoolSort()), z3.ArraySort(LabelSort, z3.IntSort()),
                          z3.ArraySort(LabelSort, z3.BoolSort()), z3.ArraySort(LabelSort, z3.IntSort()), z3.BoolSort())

    def callee_commutes(it, args, kw):
        S, O = args[0], args[1]
        return COMMUTE(S.dom, S.val, O.dom, O.val)        # contract of commutes_with: a boolean function of the two words

    def callee_matmul(it, args, kw):
        S, O = args[0], args[1]
        F = fresh_dict(it.ctx, "prod", Label, LT, cls="PauliWord", missing="I", ordered=False)
        c = GaussV(z3.Int(it.ctx.fresh_name("prod.re")), z3.Int(it.ctx.fresh_name("prod.im")))
        q, cf = matmul_post_sym(S, O, F, c)
        it.ctx.assume(q)
        it.ctx.assume(cf)
        it.ctx.havocked = True
        return (F, c)
    w3.extra_builtins.update({"PauliWord": pauliword_ctor, "method:commutes_with": callee_commutes, "method:_matmul": callee_matmul})

    def commutator_post(o, r, n):
        if is_sym(o.self):
            S, O = o.self, o.other
            F, c = r
            cre, cim = gparts(c)
            x = z3.Const("w_cpost", LabelSort)
            empty = z3.ForAll([x], z3.Not(z3.Select(F.dom, x)), patterns=[z3.Select(F.dom, x)])
            q, cf = matmul_post_sym(S, O, F, c, factor=2)
            prod = z3.And(q, cf)
            com = COMMUTE(S.dom, S.val, O.dom, O.val)
            return z3.And(z3.Implies(com, z3.And(empty, cre == 0, cim == 0)), z3.Implies(z3.Not(com), prod))
        S, O = native_word(o.self), native_word(o.other)
        if S.commutes_with(O):
            return dict(r[0]) == {} and complex(r[1]) == 0
        word, coeff = product_spec(o.self, o.other)
        return dict(r[0]) == word and complex(r[1]) == 2 * complex(coeff)
    contracts.append(FnContract(w3, "PauliWord._commutator", [
        Case("words-on-any-number-of-wires", {"self": word_t(), "other": word_t()}, ghost=table_ghost, ensures=commutator_post,
             native_call=lambda mod, a: native_word(a["self"])._commutator(native_word(a["other"])))]))

    # ---- PauliSentence.__add__ / __iadd__ with a sentence operand: sentences of any size, words as abstract hashable keys
    w4 = mk_world()
    ZERO = FloatV(z3.RealVal(0))
    KEYWORDS = None

    def keyword(label):
        """native replay: abstract key label -> a fixed real Pauli word"""
        nonlocal KEYWORDS
        if KEYWORDS is None:
            ws = words_on(PA, [0, "a"])
            KEYWORDS = {f"L{i}": ws[i] for i in range(len(ws))}
        return KEYWORDS[label] if label in KEYWORDS else PA.PauliWord({label: "Z"})

    def native_sentence(d):
        return PA.PauliSentence({keyword(k): (float(Fraction(v)) if isinstance(v, str) else v) for k, v in d.items()})

    def gen_sentence(rng):
        k = rng.choice([0, 1, 2, 2, 3, 4])
        return {"__map__": [[lab, float(rng.randint(-3, 3)) + rng.choice([0.0, 0.5])] for lab in rng.sample(["L0", "L1", "L2", "L3", "L4", "L5"], k)]}

    def sent_t():
        return T("build", lambda ctx, nm: fresh_dict(ctx, nm, Label, Float, cls="PauliSentence", missing=ZERO), gen=gen_sentence)

    def copy_sentence(it, args, kw):
        v = args[0]
        if not isinstance(v, DictV):
            raise NotImplementedError("copy of a non-dict")
        return DictV(v.dom, v.val, v.key_t, v.val_t, v.order, v.cls, v.missing)
    w4.extra_builtins["copy"] = copy_sentence

    def get0(d, x):
        return z3.If(z3.Select(d.dom, x), z3.Select(d.val, x), z3.RealVal(0))

    def same_map(a, b):
        x = z3.Const("w_same", LabelSort)
        return z3.ForAll([x], z3.And(z3.Select(a.dom, x) == z3.Select(b.dom, x), z3.Implies(z3.Select(a.dom, x), z3.Select(a.val, x) == z3.Select(b.val, x))),
                         patterns=[z3.Select(a.dom, x), z3.Select(a.val, x)])

    def sum_map(R, A, B):
        x = z3.Const("w_sum", LabelSort)
        return z3.ForAll([x], z3.And(z3.Select(R.dom, x) == z3.Or(z3.Select(A.dom, x), z3.Select(B.dom, x)),
                                     z3.Implies(z3.Select(R.dom, x), z3.Select(R.val, x) == get0(A, x) + get0(B, x))),
                         patterns=[z3.Select(R.dom, x), z3.Select(R.val, x)])

    def partial_sum(R, base, small, ks, i):
        """keys of `small` processed so far (the first i of its order) have been added to `base`; the others are as in `base`"""
        x = z3.Const("w_ps", LabelSort)
        done = TH.MEM(TH.TAKE(ks, i), x)
        return z3.ForAll([x], z3.And(
            z3.Implies(done, z3.And(z3.Select(R.dom, x), z3.Select(R.val, x) == get0(base, x) + z3.Select(small.val, x))),
            z3.Implies(z3.Not(done), z3.And(z3.Select(R.dom, x) == z3.Select(base.dom, x),
                                            z3.Implies(z3.Select(base.dom, x), z3.Select(R.val, x) == z3.Select(base.val, x))))),
            patterns=[z3.Select(R.dom, x), z3.Select(R.val, x)])

    def native_sum(A, B):
        out = dict(A)
        for k, v in B.items():
            out[k] = out.get(k, 0.0) + v
        return out

    def as_label_map(ps):
        inv = {frozenset(dict(v).items()): k for k, v in KEYWORDS.items()}
        return {inv.get(frozenset(dict(wd).items()), str(dict(wd))): c for wd, c in dict.items(ps)}

    def add_inv(v):
        small, big0 = v.smaller_ps, v.at_entry.larger_ps
        return partial_sum(v.larger_ps, big0, small, small.order, v._i0)

    def add_post(o, r, n):
        if is_sym(o.self):
            return z3.And(sum_map(r, o.self, o.other), same_map(n.self, o.self), same_map(n.other, o.other))
        return (isinstance(r, PA.PauliSentence) and as_label_map(r) == native_sum(o.self, o.other)
                and as_label_map(n.self) == dict(o.self) and as_label_map(n.other) == dict(o.other) and r is not n.self and r is not n.other)

    def call_add(mod, a):
        a["self"], a["other"] = native_sentence(a["self"]), native_sentence(a["other"])
        return a["self"] + a["other"]
    contracts.append(FnContract(w4, "PauliSentence.__add__", [
        Case("sentence+sentence-of-any-size", {"self": sent_t(), "other": sent_t()}, loops={0: LoopSpec(inv=add_inv)},
             ensures=add_post, native_call=call_add)]))

    def iadd_inv(v):
        return partial_sum(v.self, v.at_entry.self, v.other, v.other.order, v._i0)

    def iadd_post(o, r, n):
        if is_sym(o.self):
            return z3.And(r is n.self, sum_map(n.self, o.self, o.other), same_map(n.other, o.other))
        return r is n.self and as_label_map(n.self) == native_sum(o.self, o.other) and as_label_map(n.other) == dict(o.other)

    def call_iadd(mod, a):
        a["self"], a["other"] = native_sentence(a["self"]), native_sentence(a["other"])
        return a["self"].__iadd__(a["other"])
    contracts.append(FnContract(w4, "PauliSentence.__iadd__", [
        Case("sentence+=sentence-of-any-size", {"self": sent_t(), "other": sent_t()}, loops={0: LoopSpec(inv=iadd_inv)},
             ensures=iadd_post, native_call=call_iadd)]))

    keyword("L0")
    for fc in contracts:
        for case in fc.cases:
            if getattr(case, "interp_cls", None) is None:
                case.interp_cls = XInterp
        if not table_ok:
            plan.add(Obligation(f"C51/pauli_arithmetic:{fc.qualname}/tables-outside-the-contract-language", "post",
                                lambda: Outcome(UNDECIDED, "pyvc", "mul_map / anticom_map entries are not (Gaussian-integer phase, letter): see the table lemmas"),
                                func=(FILE, fc.qualname)))
            continue
        for ob, case in zip(obligations_for("C51", fc, tier, timeout=900), fc.cases):
            plan.add(with_standin(ob, fc, case))
        plan.fn_under_contract(FILE, fc.qualname)

    # =================================================================================================== (c) generic sentences, real code
    def generic(words, prefix):
        return PA.PauliSentence({wd: sym(f"{prefix}{i}") for i, wd in enumerate(words)})

    def scalar(name):
        """a free scalar passed the way numpy users pass scalars: a 0-d array"""
        return np.array(sym(name), dtype=object)

    W2 = words_on(PA, [0, 1])

    def shapes():
        """(label, words of A, words of B, wire order): full two-wire register; overlapping registers on three wires"""
        yield "wires(0,1)x(0,1)", W2, W2, [0, 1]
        yield "wires(a)x(b,a)", words_on(PA, ["a"]), words_on(PA, ["b", "a"]), ["a", "b"]
        if tier != "quick":
            yield "wires(0,1)x(1,2)", W2, words_on(PA, [1, 2]), [0, 1, 2]
            yield "wires(0,1,2)x(0,1,2)", words_on(PA, [0, 1, 2])[::3], words_on(PA, [0, 1, 2])[1::3], [0, 1, 2]

    def snapshot(ps):
        return {frozenset(dict(k).items()): to_poly(c) for k, c in dict.items(ps)}

    def bilinear(label, wa, wb, order):
        def fn():
            A, B = generic(wa, "a"), generic(wb, "b")
            sa, sb = snapshot(A), snapshot(B)
            dA, dB = den_sentence(A, order), den_sentence(B, order)
            C = A @ B
            if not isinstance(C, PA.PauliSentence) or not pm_eq(den_sentence(C, order), pm_matmul(dA, dB)):
                return dict(inputs=dict(A=show_ps(A), B=show_ps(B)), observed=show_ps(C), expected="den(A @ B) == den(A).den(B)")
            coeff_map(C)
            if snapshot(A) != sa or snapshot(B) != sb:
                return dict(inputs=label, observed="an operand of @ was modified", expected="operands unchanged")
            # word @ sentence, sentence @ word
            for wd in wa[:4]:
                for X, Y, dX, dY in ((wd, B, den_word(wd, order), dB), (B, wd, dB, den_word(wd, order))):
                    r = X @ Y
                    if not pm_eq(den_sentence(r, order), pm_matmul(dX, dY)):
                        return dict(inputs=dict(word=show_word(wd), B=show_ps(B)), observed=show_ps(r), expected="den(x @ y) == den(x).den(y)")
            # commutator == A@B - B@A at the map level (missing coefficient == 0)
            K = A.commutator(B)
            D = coeff_map(C)
            for k, p in coeff_map(B @ A).items():
                q = D.get(k, Poly()) - p
                if q.is_zero():
                    D.pop(k, None)
                else:
                    D[k] = q
            if coeff_map(K) != D:
                return dict(inputs=dict(A=show_ps(A), B=show_ps(B)), observed=show_ps(K), expected="commutator(A, B) == A@B - B@A as maps word -> coefficient")
            for wd in wa[:6]:
                k1 = A.commutator(wd)
                k2 = wd.commutator(A)
                e1 = pm_add(pm_matmul(dA, den_word(wd, order)), pm_scale(pm_matmul(den_word(wd, order), dA), Poly.const(-1)))
                if not pm_eq(den_sentence(k1, order), e1) or not pm_eq(den_sentence(k2, order), pm_scale(e1, Poly.const(-1))):
                    return dict(inputs=dict(A=show_ps(A), word=show_word(wd)), observed=dict(sentence_word=show_ps(k1), word_sentence=show_ps(k2)),
                                expected="den(commutator) == den(A).den(w) - den(w).den(A)")
            return None
        return native(f"C51/pauli_arithmetic:PauliSentence.__matmul__+commutator/generic[{label}]", fn,
                      "generic sentences (free coefficients, all words of the register): den(A@B) == den(A).den(B); commutator == A@B - B@A", "PauliSentence.__matmul__",
                      size_bounded=True)
    for label, wa, wb, order in shapes():
        plan.add(bilinear(label, wa, wb, order))
    plan.fn_under_contract(FILE, "PauliSentence.__matmul__")
    plan.fn_under_contract(FILE, "PauliSentence.commutator")
    plan.size_bounds.append("generic-sentence obligations: registers of 2 wires (all 16 words, both operands; overlapping 3-wire registers in the thorough tier); "
                            "every coefficient a free symbol")

    SUPPORTS = [[], [0], [1, 15], [0, 1, 6], list(range(16))]

    def linear():
        order = [0, 1]
        for ia, ib in itertools.product(SUPPORTS, repeat=2):
            A = PA.PauliSentence({W2[i]: sym(f"a{i}") for i in ia})
            B = PA.PauliSentence({W2[i]: sym(f"b{i}") for i in ib})
            sa, sb = snapshot(A), snapshot(B)
            dA, dB = den_sentence(A, order), den_sentence(B, order)
            neg = Poly.const(-1)
            c = scalar("c")
            cp = to_poly(c[()])
            checks = [("A + B", lambda: A + B, pm_add(dA, dB)), ("A - B", lambda: A - B, pm_add(dA, pm_scale(dB, neg))),
                      ("c * A", lambda: c * A, pm_scale(dA, cp)), ("A * c", lambda: A * c, pm_scale(dA, cp)),
                      ("A * 2j", lambda: A * 2j, pm_scale(dA, to_poly(2j))), ("A / 2", lambda: A / 2, pm_scale(dA, to_poly(Fraction(1, 2)))),
                      ("A + c", lambda: A + c, pm_add(dA, pm_scale(pm_eye(4), cp))), ("c + A", lambda: c + A, pm_add(dA, pm_scale(pm_eye(4), cp))),
                      ("3 - A", lambda: 3 - A, pm_add(pm_scale(pm_eye(4), to_poly(3)), pm_scale(dA, neg)))]
            for wd in (W2[0], W2[6], W2[15]):
                dw = den_word(wd, order)
                checks += [(f"A + word{show_word(wd)}", lambda wd=wd: A + wd, pm_add(dA, dw)), (f"word{show_word(wd)} + A", lambda wd=wd: wd + A, pm_add(dA, dw)),
                           (f"A - word{show_word(wd)}", lambda wd=wd: A - wd, pm_add(dA, pm_scale(dw, neg))),
                           (f"word{show_word(wd)} - A", lambda wd=wd: wd - A, pm_add(dw, pm_scale(dA, neg)))]
            for nm, f, exp in checks:
                r = f()
                if not isinstance(r, PA.PauliSentence) or not pm_eq(den_sentence(r, order), exp):
                    return dict(inputs=dict(op=nm, A=show_ps(A), B=show_ps(B)), observed=show_ps(r), expected=f"den({nm}) is the same operation on the matrices")
                coeff_map(r)
                if snapshot(A) != sa or snapshot(B) != sb or r is A or r is B:
                    return dict(inputs=dict(op=nm, A=show_ps(A)), observed="operand modified / returned", expected="operands unchanged, result is a new sentence")
            # + keeps every key of both operands (no dropping), pointwise
            r = A + B
            keys = {frozenset(dict(k).items()) for k in dict.keys(r)}
            if keys != set(sa) | set(sb) or any(not (to_poly(cf) - (sa.get(frozenset(dict(k).items()), Poly()) + sb.get(frozenset(dict(k).items()), Poly()))).is_zero()
                                                 for k, cf in dict.items(r)):
                return dict(inputs=dict(A=show_ps(A), B=show_ps(B)), observed=show_ps(r), expected="(A+B)[w] == A[w] + B[w] on keys(A) | keys(B)")
            # in-place addition
            A2 = PA.PauliSentence(dict(A))
            r = A2.__iadd__(B)
            if r is not A2 or not pm_eq(den_sentence(A2, order), pm_add(dA, dB)) or snapshot(B) != sb:
                return dict(inputs=dict(A=show_ps(A), B=show_ps(B)), observed=show_ps(A2), expected="A += B updates A in place to A + B and leaves B alone")
            for extra, exp in ((W2[6], den_word(W2[6], order)), (c, pm_scale(pm_eye(4), cp))):
                A3 = PA.PauliSentence(dict(A))
                r = A3.__iadd__(extra)
                if r is not A3 or not pm_eq(den_sentence(A3, order), pm_add(dA, exp)):
                    return dict(inputs=dict(A=show_ps(A), added=repr(extra)), observed=show_ps(A3), expected="A += word / scalar")
            # trace: coefficient of the identity == tr(den)/2^n
            tr = Poly()
            for i in range(4):
                tr = tr + dA[i, i]
            if not (to_poly(A.trace()) - tr * Poly.const(Fraction(1, 4))).is_zero():
                return dict(inputs=dict(A=show_ps(A)), observed=repr(A.trace()), expected="trace() == tr(den(A)) / 2^n")
            # copy
            import copy as _copy
            Ac = _copy.copy(A)
            if Ac is A or snapshot(Ac) != sa or not isinstance(Ac, PA.PauliSentence):
                return dict(inputs=dict(A=show_ps(A)), observed=show_ps(Ac), expected="copy(A) is a new sentence with equal items")
            # dense matrix of the real code == reference denotation (free coefficients)
            for wo in ([0, 1], [1, 0], [1, 2, 0]):
                if len(A) == 0:
                    continue
                m = A.to_mat(wire_order=wo)
                if not pm_eq(poly_matrix(m), den_sentence(A, wo)):
                    return dict(inputs=dict(A=show_ps(A), wire_order=wo), observed=str(m)[:600], expected="to_mat(wire_order) == den(A) in that wire order")
        return None
    plan.add(native("C51/pauli_arithmetic:PauliSentence.linear-operations/generic[wires(0,1)]", linear,
                    "+, -, scalar *, /, + scalar, + word, +=, trace, copy, dense to_mat on generic two-wire sentences of several supports: same operation on den()",
                    "PauliSentence.__add__", size_bounded=True))
    for q in ("PauliSentence.__mul__", "PauliSentence.__iadd__", "PauliSentence.trace", "PauliSentence.__copy__", "PauliSentence.__sub__",
              "PauliSentence.__truediv__", "PauliSentence._to_dense_mat"):
        plan.fn_under_contract(FILE, q)
    plan.size_bounds.append(f"linear sentence operations: two-wire register, supports {SUPPORTS} (indices into the 16 words), free coefficients")

    # ---- words: every pair on the registers, all word-level operators
    def word_ops():
        regs = [([0, 1], [0, 1], [0, 1]), ([0, 1], [1, 2], [0, 1, 2]), (["a"], ["b"], ["a", "b"])]
        for ra, rb, order in regs:
            for w1 in words_on(PA, ra):
                for w2 in words_on(PA, rb):
                    d1, d2 = den_word_gauss(w1, order), den_word_gauss(w2, order)
                    word, coeff = w1._matmul(w2)
                    ph = complex(coeff)
                    P = g_matmul(d1, d2)
                    dw = den_word_gauss(word, order)
                    scaled = (dw[0] * int(ph.real) - dw[1] * int(ph.imag), dw[0] * int(ph.imag) + dw[1] * int(ph.real))
                    if ph.real != int(ph.real) or ph.imag != int(ph.imag) or not g_eq(P, scaled) or any(v == "I" for v in dict(word).values()):
                        return dict(inputs=dict(w1=show_word(w1), w2=show_word(w2)), observed=dict(word=show_word(word), coeff=repr(coeff)),
                                    expected="den(w1).den(w2) == coeff . den(word)")
                    ps = w1 @ w2
                    if not isinstance(ps, PA.PauliSentence) or len(ps) != 1 or dict(list(dict.keys(ps))[0]) != dict(word) or complex(list(dict.values(ps))[0]) != ph:
                        return dict(inputs=dict(w1=show_word(w1), w2=show_word(w2)), observed=show_ps(ps), expected="w1 @ w2 == {product word: coeff}")
                    Q = g_matmul(d2, d1)
                    commute = g_eq(P, Q)
                    if bool(w1.commutes_with(w2)) != commute:
                        return dict(inputs=dict(w1=show_word(w1), w2=show_word(w2)), observed=bool(w1.commutes_with(w2)), expected=f"commutes_with == {commute} (matrices)")
                    cw, cc = w1._commutator(w2)
                    K = (P[0] - Q[0], P[1] - Q[1])
                    dcw = den_word_gauss(cw, order)
                    cc = complex(cc)
                    got = (dcw[0] * int(cc.real) - dcw[1] * int(cc.imag), dcw[0] * int(cc.imag) + dcw[1] * int(cc.real))
                    if not g_eq(K, got):
                        return dict(inputs=dict(w1=show_word(w1), w2=show_word(w2)), observed=dict(word=show_word(cw), coeff=repr(cc)),
                                    expected="coeff . den(word) == den(w1).den(w2) - den(w2).den(w1)")
                    kk = w1.commutator(w2)
                    if not pm_eq(den_sentence(kk, order), exact(K[0] + 1j * K[1])):
                        return dict(inputs=dict(w1=show_word(w1), w2=show_word(w2)), observed=show_ps(kk), expected="den(commutator) == [den(w1), den(w2)]")
                    s = w1 + w2
                    if not pm_eq(den_sentence(s, order), exact((d1[0] + d2[0]) + 1j * (d1[1] + d2[1]))):
                        return dict(inputs=dict(w1=show_word(w1), w2=show_word(w2)), observed=show_ps(s), expected="den(w1 + w2) == den(w1) + den(w2)")
                    s = w1 - w2
                    if not pm_eq(den_sentence(s, order), exact((d1[0] - d2[0]) + 1j * (d1[1] - d2[1]))):
                        return dict(inputs=dict(w1=show_word(w1), w2=show_word(w2)), observed=show_ps(s), expected="den(w1 - w2) == den(w1) - den(w2)")
                    if (hash(w1) == hash(w2)) < (w1 == w2) or (w1 == w2) != (dict(w1) == dict(w2)):
                        return dict(inputs=dict(w1=show_word(w1), w2=show_word(w2)), observed="hash / == inconsistent", expected="equal words have equal hashes")
        # insertion order does not matter for == / hash; scalar operations
        c = scalar("c")
        for w1 in words_on(PA, [0, 1, 2]):
            rev = PA.PauliWord(dict(reversed(list(dict(w1).items()))))
            if rev != w1 or hash(rev) != hash(w1) or hash(w1) != hash(frozenset(dict(w1).items())):
                return dict(inputs=show_word(w1), observed="hash depends on insertion order", expected="hash(frozenset(items))")
            order = [0, 1, 2]
            dw = den_word(w1, order)
            for nm, f, exp in (("c * w", lambda: c * w1, pm_scale(dw, to_poly(c[()]))), ("w * 3j", lambda: w1 * 3j, pm_scale(dw, to_poly(3j))),
                               ("w / 4", lambda: w1 / 4, pm_scale(dw, to_poly(Fraction(1, 4)))), ("w + c", lambda: w1 + c, pm_add(dw, pm_scale(pm_eye(8), to_poly(c[()])))),
                               ("2 - w", lambda: 2 - w1, pm_add(pm_scale(pm_eye(8), to_poly(2)), pm_scale(dw, Poly.const(-1))))):
                r = f()
                if not isinstance(r, PA.PauliSentence) or not pm_eq(den_sentence(r, order), exp):
                    return dict(inputs=dict(op=nm, w=show_word(w1)), observed=show_ps(r), expected=f"den({nm})")
        return None
    plan.add(native("C51/pauli_arithmetic:PauliWord.operators/all-pairs[<=2-wire registers]", word_ops,
                    "every pair of words on (0,1)x(0,1), (0,1)x(1,2), (a)x(b): _matmul, @, commutes_with, _commutator, commutator, +, -, ==, hash agree with the matrices",
                    "PauliWord.__matmul__", size_bounded=True))
    for q in ("PauliWord.__matmul__", "PauliWord.__mul__", "PauliWord.__add__", "PauliWord.__sub__", "PauliWord.__truediv__", "PauliWord.commutator",
              "PauliWord.__hash__"):
        plan.fn_under_contract(FILE, q)
    plan.size_bounds.append("word-operator obligations: all pairs of words on registers of <= 2 wires each (up to 3 wires together)")

    def ctor():
        """assumed contract of PauliWord.__init__ used by the E1 contracts: identities are stripped, other items kept"""
        for n in range(0, 4):
            for letters in itertools.product(LETTERS, repeat=n):
                m = {f"w{i}": ch for i, ch in enumerate(letters)}
                got = dict(PA.PauliWord(m))
                if got != {k: v for k, v in m.items() if v != "I"}:
                    return dict(inputs=m, observed=got, expected="the items whose letter is not I")
        return None
    plan.add(native("C51/pauli_arithmetic:PauliWord.__init__/strips-identities[<=3 wires]", ctor,
                    "PauliWord(mapping) keeps exactly the non-identity items (the contract assumed for the constructor in (b))", "PauliWord.__init__", size_bounded=True))

    # =================================================================================================== (d) end to end through qp.matrix / to_mat
    def end_to_end():
        for ra, rb, order in (([0, 1], [0, 1], [0, 1]), ([0, 1], [0, 1], [1, 0]), ([0], [1], [0, 1]), (["a", "b"], ["b"], ["b", "a"])):
            for w1 in words_on(PA, ra):
                for w2 in words_on(PA, rb):
                    m1, m2, m12 = (gaussian(qp.matrix(x, wire_order=order)) for x in (w1, w2, w1 @ w2))
                    if m1 is None or m2 is None or m12 is None or not g_eq(g_matmul(m1, m2), m12):
                        return dict(inputs=dict(w1=show_word(w1), w2=show_word(w2), wire_order=order), observed=str(qp.matrix(w1 @ w2, wire_order=order)),
                                    expected="qp.matrix(w1 @ w2) == qp.matrix(w1) @ qp.matrix(w2) exactly")
                    if not g_eq(m1, den_word_gauss(w1, order)):
                        return dict(inputs=dict(w1=show_word(w1), wire_order=order), observed=str(qp.matrix(w1, wire_order=order)), expected="reference denotation")
        return None
    plan.add(native("C51/pauli_arithmetic:qp.matrix(w1@w2)==qp.matrix(w1)@qp.matrix(w2)/all-words[<=2 wires]", end_to_end,
                    "end to end, exact Gaussian-integer comparison, every pair of words on <= 2 wires, several wire orders", "PauliWord.to_mat", size_bounded=True))
    plan.size_bounds.append("end-to-end qp.matrix confirmation: all pairs of words on <= 2 wires")

    def word_matrices():
        for n in (1, 2, 3):
            wires = list(range(n))
            for wd in words_on(PA, wires):
                for order in (wires, wires[::-1], wires + ["extra"]):
                    ref = den_word_gauss(wd, order)
                    for fmt in ("dense", "csr"):
                        g = gaussian(wd.to_mat(wire_order=order, format=fmt))
                        if g is None or not g_eq(g, ref):
                            return dict(inputs=dict(word=show_word(wd), wire_order=order, format=fmt), observed=str(wd.to_mat(wire_order=order, format=fmt)),
                                        expected="the reference denotation of the word")
        return None
    plan.add(native("C51/pauli_arithmetic:PauliWord.to_mat/dense+csr/all-words[<=3 wires]", word_matrices,
                    "dense and csr matrices of every word on <= 3 wires, three wire orders, equal the reference denotation exactly", "PauliWord.to_mat",
                    size_bounded=True))
    plan.fn_under_contract(FILE, "PauliWord.to_mat")
    plan.fn_under_contract(FILE, "PauliWord._to_sparse_mat")

    def sparse_sentences():
        rng = random.Random(seed)
        W3 = words_on(PA, [0, 1, 2])
        for trial in range(40 if tier == "quick" else 200):
            k = rng.randint(1, 9)
            ps = PA.PauliSentence({wd: complex(rng.randint(-3, 3), rng.randint(-3, 3)) for wd in rng.sample(W3, k)})
            order = rng.choice([[0, 1, 2], [2, 0, 1], [1, 2, 0, "x"]])
            ref = den_sentence(ps, order)
            for fmt, buf in (("dense", None), ("csr", None), ("csr", 1), ("csr", 24 * 2 ** len(order) * 2), ("csr", 24 * 2 ** len(order) * 3)):
                m = ps.to_mat(wire_order=order, format=fmt, buffer_size=buf)
                m = m.toarray() if hasattr(m, "toarray") else m
                if gaussian(m) is None or not pm_eq(exact(m), ref):
                    return dict(inputs=dict(sentence=show_ps(ps), wire_order=order, format=fmt, buffer_size=buf), observed=str(m)[:800],
                                expected="the reference denotation of the sentence")
        return None
    plan.add(native("C51/pauli_arithmetic:PauliSentence.to_mat/dense+csr+buffer/sampled[3 wires]", sparse_sentences,
                    "sampled Gaussian-integer sentences on 3 wires: dense, csr and buffered csr matrices equal the reference denotation exactly",
                    "PauliSentence.to_mat", bounded=True))
    return plan
