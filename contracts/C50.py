"""C50 GF(2) linear algebra is exact  (size-bounded: complete per matrix shape).

E2b (DESIGN 2.3): the REAL functions of pennylane/math/binary_linalg.py are executed on numpy object arrays whose entries are
symbolic bits (vf/symx/bits.py); every `bool()` the code asks of a bit forks the path (re-execution with a decision prefix), so
one exploration covers ALL 2^(m.n) matrices of a shape.  Per path, z3 proves over the symbolic input bits, against specifications
that are written here as exhaustive GF(2) facts (never by elimination):

  binary_finite_reduced_row_echelon   result is in reduced row-echelon form; every result row is a GF(2) combination of input rows and
                                      every input row a combination of result rows (same row space: all 2^m combinations expanded);
                                      number of non-zero result rows == rank(input) (rank(A) >= k <=> some k rows are independent);
                                      inplace=False leaves the input array untouched, inplace=True returns the input object
  binary_solve_linear_system          returns x  =>  A regular and A.x == b;   raises LinAlgError  =>  A singular;  nothing else
  int_to_binary                       for ALL integers x (negative included) and each width w <= W: bits in {0,1},
                                      sum_j bit_j 2^(w-1-j) == x mod 2^w   (int and array branch)

Functions whose control flow inspects every bit (binary_matrix_rank via np.where: 2^(m.n) paths, measured) are covered by COMPLETE
FINITE ENUMERATION of all matrices of each shape on the real integer-dtype code path against brute-force references (span by
enumerating all combinations): binary_matrix_rank, binary_is_independent, binary_select_basis -- and, as an independent
confirmation that object arrays of bits behave like integer arrays, the row-echelon form and the solver as well.
"""
import itertools
import random

import numpy as np
import z3

from vf.common import Plan, Obligation, Outcome, DISCHARGED, REFUTED, UNDECIDED, FAULT
from vf.symx import bits as B

FILE = "pennylane/math/binary_linalg.py"


def real():
    from pennylane.math import binary_linalg as BL
    return BL


# ------------------------------------------------------------------------------------------------ brute-force references (python)
def span(rows):
    """set of all GF(2) combinations of the given bit tuples (exhaustive)"""
    rows = [tuple(int(x) for x in r) for r in rows]
    n = len(rows[0]) if rows else 0
    out = set()
    for mask in itertools.product((0, 1), repeat=len(rows)):
        v = [0] * n
        for take, r in zip(mask, rows):
            if take:
                v = [a ^ b for a, b in zip(v, r)]
        out.add(tuple(v))
    return out


def ref_rank(M):
    M = np.asarray(M)
    if M.shape[0] == 0 or M.shape[1] == 0:
        return 0
    return len(span(M.tolist())).bit_length() - 1


def ref_is_rref(R):
    R = np.asarray(R)
    m, n = R.shape
    leads = []
    for i in range(m):
        nz = [j for j in range(n) if R[i, j]]
        leads.append(nz[0] if nz else None)
    seen_zero = False
    last = -1
    for i, l in enumerate(leads):
        if l is None:
            seen_zero = True
            continue
        if seen_zero or l <= last:
            return False
        last = l
        if any(R[k, l] for k in range(m) if k != i):
            return False
    return all(int(x) in (0, 1) for x in R.flat)


def all_matrices(m, n):
    for bits in itertools.product((0, 1), repeat=m * n):
        yield np.array(bits, dtype=int).reshape(m, n)


# ------------------------------------------------------------------------------------------------ the same facts as z3 formulas
def f_any(xs):
    xs = list(xs)
    return z3.Or(*xs) if xs else z3.BoolVal(False)


def f_all(xs):
    xs = list(xs)
    return z3.And(*xs) if xs else z3.BoolVal(True)


def f_xor(xs):
    r = z3.BoolVal(False)
    for x in xs:
        r = z3.Xor(r, x)
    return r


def f_is_rref(R):
    m, n = R.shape
    lead = lambda i, j: z3.And(R[i, j], *[z3.Not(R[i, jj]) for jj in range(j)])
    nz = lambda i: f_any(R[i, j] for j in range(n))
    cs = []
    for i in range(m - 1):
        cs.append(z3.Implies(z3.Not(nz(i)), z3.Not(nz(i + 1))))                                   # zero rows at the bottom
        for j in range(n):
            cs.append(z3.Implies(lead(i + 1, j), f_any(lead(i, jj) for jj in range(j))))          # leading ones move right
    for i in range(m):
        for j in range(n):
            cs.append(z3.Implies(lead(i, j), f_all(z3.Not(R[k, j]) for k in range(m) if k != i)))  # pivot columns are unit columns
    return f_all(cs)


def f_in_span(v, rows):
    """v (list of terms) is one of the 2^k combinations of the rows"""
    k = len(rows)
    n = len(v)
    alts = []
    for mask in itertools.product((0, 1), repeat=k):
        alts.append(f_all(v[j] == f_xor(rows[i][j] for i in range(k) if mask[i]) for j in range(n)))
    return f_any(alts)


def f_same_rowspace(A, R):
    rowsA, rowsR = [list(A[i]) for i in range(A.shape[0])], [list(R[i]) for i in range(R.shape[0])]
    return z3.And(f_all(f_in_span(r, rowsA) for r in rowsR), f_all(f_in_span(a, rowsR) for a in rowsA))


def f_independent(rows):
    """no non-trivial combination of the rows vanishes"""
    k = len(rows)
    n = len(rows[0]) if rows else 0
    cs = []
    for mask in itertools.product((0, 1), repeat=k):
        if any(mask):
            cs.append(f_any(f_xor(rows[i][j] for i in range(k) if mask[i]) for j in range(n)))
    return f_all(cs)


def f_rank_ge(A, k):
    m = A.shape[0]
    if k == 0:
        return z3.BoolVal(True)
    if k > min(A.shape):
        return z3.BoolVal(False)
    return f_any(f_independent([list(A[i]) for i in sub]) for sub in itertools.combinations(range(m), k))


def f_count(bools):
    return z3.Sum(*[z3.If(b, 1, 0) for b in bools]) if bools else z3.IntVal(0)


def model_matrix(model, consts):
    out = np.zeros(consts.shape, dtype=int)
    for idx, c in np.ndenumerate(consts):
        out[idx] = 1 if z3.is_true(model.eval(c, model_completion=True)) else 0
    return out


def call(f, *a, **k):
    """run the real function under a step budget (a run that does not finish is reported as ('raise', 'StepBudget'))"""
    try:
        return ("ok", B.with_step_budget(lambda: f(*a, **k), "binary_linalg", 20000))
    except Exception as ex:  # pylint: disable=broad-except
        return ("raise", type(ex).__name__)


# ------------------------------------------------------------------------------------------------ native (python) contracts = replay
def native_rref_ok(BL, A):
    A0 = A.copy()
    st, R = call(BL.binary_finite_reduced_row_echelon, A)
    if st != "ok":
        return f"raised {R}"
    if not np.array_equal(A, A0):
        return "input modified although inplace=False"
    if R.shape != A.shape or not ref_is_rref(R):
        return f"not in reduced row-echelon form: {R.tolist()}"
    if A.size and span(R.tolist()) != span(A.tolist()):
        return f"row space changed: {R.tolist()}"
    if sum(1 for r in R.tolist() if any(r)) != ref_rank(A):
        return f"number of pivots != rank: {R.tolist()}"
    A2 = A.copy()
    st2, R2 = call(BL.binary_finite_reduced_row_echelon, A2, inplace=True)
    if st2 != "ok" or R2 is not A2 or not np.array_equal(R2, R):
        return "inplace=True does not return the (modified) input object with the same result"
    return None


def native_solve_ok(BL, A, b):
    A0, b0 = A.copy(), b.copy()
    st, x = call(BL.binary_solve_linear_system, A, b)
    regular = ref_rank(A) == A.shape[0]
    if not (np.array_equal(A, A0) and np.array_equal(b, b0)):
        return "input modified"
    if st == "raise":
        return None if (x == "LinAlgError" and not regular) else f"raised {x} on a {'regular' if regular else 'singular'} matrix"
    if not regular:
        return f"returned {np.asarray(x).tolist()} for a singular matrix (documented: LinAlgError)"
    x = np.asarray(x)
    if x.shape != b.shape or not all(int(v) in (0, 1) for v in x) or not np.array_equal((A @ x) % 2, b):
        return f"A.x != b for x = {x.tolist()}"
    return None


def build(tier, seed):
    plan = Plan("C50", level="other")
    plan.explanation = ("The real binary_linalg functions are run on numpy object arrays of symbolic bits with path forking on every bool(): one "
                        "exploration per matrix shape covers all 2^(mn) matrices; z3 proves RREF-ness, row-space equality, pivot count == rank, "
                        "solve correctness / LinAlgError <=> singular per path against exhaustively expanded GF(2) specifications.  Functions that "
                        "inspect every bit (rank, independence, basis selection) are covered by complete enumeration of all matrices per shape on "
                        "the integer-dtype code path against brute-force span references.  int_to_binary: all integers, each width up to the bound.")
    plan.trusted_base = ["vf/symx/bits.py (Bit / SInt scalars, path forking by re-execution; path conditions are checked to cover the whole input space)",
                         "z3 propositional + linear integer arithmetic with div/mod by constants", "numpy executes its structural operations itself "
                         "(slicing, copy, nonzero, outer, hstack, ^=) on object arrays"]
    plan.assumptions = ["A-object-arrays: numpy slicing / copy / ^= / outer / nonzero / sum / any treat object arrays of bit scalars as they treat integer "
                        "arrays (re-checked here by complete enumeration on integer arrays for the same shapes)",
                        "inputs are 0/1 arrays of an integer dtype (numpy interface); JAX is documented as unsupported"]
    plan.unverified = ["shapes beyond the bound (no proof for all sizes)", "binary_decimals (float rounding)", "behaviour of binary_is_independent when the basis "
                       "is rank deficient (outside its documented precondition)", "callers in qchem/tapering.py and transforms/intermediate_reps"]
    plan.dropped = []
    BL = real()
    quick = tier == "quick"
    MAXM, MAXN = (3, 4) if quick else (4, 5)
    shapes = [(m, n) for m in range(1, MAXM + 1) for n in range(1, MAXN + 1)]
    plan.size_bounds = [f"row-echelon form (symbolic bits): every shape m x n with 1 <= m <= {MAXM}, 1 <= n <= {MAXN}",
                        f"solver (symbolic bits): n x n systems, n <= {3 if quick else 4}",
                        "complete enumeration on integer arrays: rank / rref / independence / basis selection for all shapes with m.n <= "
                        f"{12 if quick else 16}, solver for n <= 3; zero-sized shapes (0 x n, m x 0) run concretely",
                        f"int_to_binary: every integer, widths 0..{8 if quick else 16}; array branch: shapes (2,) and (2,2)"]

    # ============================================================================ symbolic: reduced row-echelon form, per shape
    def rref_shape(m, n):
        name = f"C50/binary_linalg:binary_finite_reduced_row_echelon/all-matrices[{m}x{n}]"

        def fn():
            consts = {}

            def run():
                A, c = B.bit_array((m, n), "a")
                consts["c"], consts["A"] = c, A
                before = [A[idx] for idx in np.ndindex(m, n)]
                R = BL.binary_finite_reduced_row_echelon(A)
                untouched = all(A[idx] is x for idx, x in zip(np.ndindex(m, n), before)) and R is not A
                A2, _ = B.bit_array((m, n), "a")
                R2 = BL.binary_finite_reduced_row_echelon(A2, inplace=True)
                return R, untouched, (R2 is A2), R2
            try:
                res = B.explore(lambda: B.with_step_budget(run, "binary_linalg", 20000), max_paths=200000, budget_s=1500,
                                allowed_exc=(np.linalg.LinAlgError, ValueError, IndexError, ZeroDivisionError, B.StepBudget))
            except Exception as ex:  # pylint: disable=broad-except
                # the symbolic run left the fragment (an operation the bit scalars do not model): complete enumeration of the shape instead
                return enumerate_instead(lambda: next(({"inputs": M.tolist(), "observed": bad} for M in all_matrices(m, n)
                                                       for bad in [native_rref_ok(BL, M.copy())] if bad), None), 2 ** (m * n), ex)
            if not B.covers_everything(res):
                return Outcome(FAULT, "bits", "path conditions do not cover the input space")
            A = consts["c"]
            n_vc = 0
            for r in res:
                if r.exc is not None:
                    goal, what = z3.BoolVal(False), f"raised {type(r.exc).__name__}: {r.exc}"
                else:
                    R, untouched, same_obj, R2 = r.value
                    if not untouched or not same_obj or R.shape != (m, n):
                        return Outcome(REFUTED, "bits", "copy / inplace protocol violated", witness=dict(shape=[m, n]),
                                       replay=dict(confirmed=True, observed=dict(input_untouched=untouched, inplace_returns_input=same_obj)))
                    try:
                        Rt, R2t = B.terms(R), B.terms(R2)
                    except TypeError as ex:
                        return Outcome(REFUTED, "bits", f"result entry is not a bit: {ex}", witness=dict(shape=[m, n]), replay=dict(confirmed=None))
                    rank_rows = f_count([f_any(Rt[i, j] for j in range(n)) for i in range(m)])
                    rank_ok = f_all(z3.Implies(rank_rows == k, z3.And(f_rank_ge(A, k), z3.Not(f_rank_ge(A, k + 1)))) for k in range(0, m + 1))
                    goal = z3.And(f_is_rref(Rt), f_same_rowspace(A, Rt), rank_ok, f_all(Rt[idx] == R2t[idx] for idx in np.ndindex(m, n)))
                    what = "post"
                ok, model = B.prove(r.pc, goal)
                n_vc += 1
                if ok is None:
                    return Outcome(UNDECIDED, "z3", "solver unknown")
                if not ok:
                    M = model_matrix(model, A)
                    bad = native_rref_ok(BL, M)
                    return Outcome(REFUTED, "bits+z3", f"{what} fails on a path", witness=dict(matrix=M.tolist()),
                                   replay=dict(confirmed=bool(bad), observed=bad, inputs=M.tolist(),
                                               expected="reduced row-echelon form with the row space and rank of the input"))
            return Outcome(DISCHARGED, "bits+z3", f"{len(res)} paths cover all {2 ** (m * n)} matrices", extra=dict(sub_obligations=n_vc, paths=len(res)))
        return Obligation(name, "post", fn, func=(FILE, "binary_finite_reduced_row_echelon"), size_bounded=True, timeout=(600 if quick else 3000),
                          sample="all matrices of the shape at once: RREF, same row space, #pivots == rank, copy/inplace protocol")
    for m, n in shapes:
        plan.add(rref_shape(m, n))
    plan.fn_under_contract(FILE, "binary_finite_reduced_row_echelon")

    # ============================================================================ symbolic: solver, per size
    def solve_size(n):
        name = f"C50/binary_linalg:binary_solve_linear_system/all-systems[{n}x{n}]"

        def fn():
            consts = {}

            def run():
                A, ca = B.bit_array((n, n), "a")
                b, cb = B.bit_array((n,), "b")
                consts["A"], consts["b"] = ca, cb
                return BL.binary_solve_linear_system(A, b)
            try:
                res = B.explore(lambda: B.with_step_budget(run, "binary_linalg", 20000), max_paths=200000, budget_s=1500,
                                allowed_exc=(np.linalg.LinAlgError, ValueError, IndexError, ZeroDivisionError, B.StepBudget))
            except Exception as ex:  # pylint: disable=broad-except
                return enumerate_instead(lambda: next(({"inputs": dict(A=M.tolist(), b=list(bb)), "observed": bad} for M in all_matrices(n, n)
                                                       for bb in itertools.product((0, 1), repeat=n)
                                                       for bad in [native_solve_ok(BL, M.copy(), np.array(bb, dtype=int))] if bad), None), 2 ** (n * n + n), ex)
            if not B.covers_everything(res):
                return Outcome(FAULT, "bits", "path conditions do not cover the input space")
            A, b = consts["A"], consts["b"]
            regular = f_independent([list(A[i]) for i in range(n)])
            for r in res:
                if r.exc is not None:
                    goal = z3.Not(regular) if type(r.exc).__name__ == "LinAlgError" else z3.BoolVal(False)
                else:
                    x = np.asarray(r.value, dtype=object)
                    if x.shape != (n,):
                        goal = z3.BoolVal(False)
                    else:
                        xt = B.terms(x)
                        goal = z3.And(regular, f_all(f_xor(z3.And(A[i, j], xt[j]) for j in range(n)) == b[i] for i in range(n)))
                ok, model = B.prove(r.pc, goal)
                if ok is None:
                    return Outcome(UNDECIDED, "z3", "solver unknown")
                if not ok:
                    MA, mb = model_matrix(model, A), model_matrix(model, b)
                    bad = native_solve_ok(BL, MA, mb)
                    return Outcome(REFUTED, "bits+z3", "solver contract fails on a path", witness=dict(A=MA.tolist(), b=mb.tolist()),
                                   replay=dict(confirmed=bool(bad), observed=bad, inputs=dict(A=MA.tolist(), b=mb.tolist()),
                                               expected="x with A.x == b for regular A, LinAlgError for singular A"))
            return Outcome(DISCHARGED, "bits+z3", f"{len(res)} paths cover all {2 ** (n * n + n)} systems", extra=dict(sub_obligations=len(res), paths=len(res)))
        return Obligation(name, "post", fn, func=(FILE, "binary_solve_linear_system"), size_bounded=True, timeout=(600 if quick else 3000),
                          sample="all systems of the size at once: A.x == b and A regular, or LinAlgError and A singular")
    for n in range(1, (3 if quick else 4) + 1):
        plan.add(solve_size(n))
    plan.fn_under_contract(FILE, "binary_solve_linear_system")

    # ============================================================================ int_to_binary: all integers, per width
    def i2b_native():
        for x, wd in itertools.product([0, 1, 2, 5, 13, 255, 256, -1, -6, 2 ** 40 + 3], [0, 1, 4, 8, 12]):
            for val in (x, np.int64(x), np.array(x)):
                got = call(BL.int_to_binary, val, wd)
                exp = [(x >> (wd - 1 - j)) & 1 for j in range(wd)]
                if got[0] != "ok" or np.asarray(got[1]).tolist() != exp:
                    return dict(inputs=dict(integer=repr(val), width=wd), observed=repr(got), expected=exp)
        a = np.array([[7, 3], [17, 9], [2, -8]])
        got = BL.int_to_binary(a, 5)
        if got.shape != (3, 2, 5) or any(got[idx].tolist() != [(int(a[idx]) >> (4 - j)) & 1 for j in range(5)] for idx in np.ndindex(3, 2)):
            return dict(inputs=a.tolist(), observed=got.tolist(), expected="digit strings along a new last axis")
        return None
    def i2b(width, arr_shape=None):
        tag = "int" if arr_shape is None else f"array{list(arr_shape)}"
        name = f"C50/binary_linalg:int_to_binary/all-integers[width={width},{tag}]"

        def spec_ok(x, bits):
            return len(bits) == width and all(int(bv) in (0, 1) for bv in bits) and sum(int(bv) << (width - 1 - j) for j, bv in enumerate(bits)) == x % (2 ** width)

        def fn():
            try:
                return fn_symbolic()
            except Exception as ex:  # pylint: disable=broad-except
                bad = i2b_native()
                if bad:
                    return Outcome(REFUTED, "bounded-standin", f"symbolic run left the fragment ({type(ex).__name__}: {ex}); stand-in found a mismatch",
                                   witness=dict(inputs=bad.get("inputs")), replay=dict(confirmed=True, observed=bad.get("observed"), expected=bad.get("expected")))
                return Outcome(UNDECIDED, "bits", f"symbolic run left the fragment: {type(ex).__name__}: {ex}", extra=dict(standin="passed", standin_points=150))

        def fn_symbolic():
            if arr_shape is None:
                xs = [z3.Int("x")]
                out = BL.int_to_binary(B.SymInt(xs[0]), width)
                outs = [out]
            else:
                xs, arr = [], np.empty(arr_shape, dtype=object)
                for idx in np.ndindex(*arr_shape):
                    c = z3.Int(f"x{list(idx)}")
                    xs.append(c)
                    arr[idx] = B.SInt(c)
                out = BL.int_to_binary(arr, width)
                if out.shape != tuple(arr_shape) + (width,):
                    return Outcome(REFUTED, "bits", f"result shape {out.shape}", witness=dict(width=width), replay=dict(confirmed=True, observed=str(out.shape)))
                outs = [out[idx] for idx in np.ndindex(*arr_shape)]
            # (1) position j of the result is the digit of weight 2^(width-1-j):  digit_k(x) := (x div 2^k) mod 2   [z3, per entry]
            # (2) digits reassemble x mod 2^width: step lemma  x mod 2^(k+1) == x mod 2^k + 2^k.digit_k(x)  for k = 0..width-1
            #     [z3, one instance per k]; with x mod 2^0 == 0 the sum identity follows by induction on k (telescoping, stated).
            goals = []
            for x, o in zip(xs, outs):
                o = np.asarray(o, dtype=object)
                if o.shape != (width,):
                    return Outcome(REFUTED, "bits", f"result shape {o.shape}", witness=dict(width=width), replay=dict(confirmed=True, observed=str(o.shape)))
                ts = [B._int_term(v) for v in o]
                goals.append(z3.And(*[t == (x / (2 ** (width - 1 - j))) % 2 for j, t in enumerate(ts)], z3.BoolVal(True)))
            y = z3.Int("y")
            for k in range(width):
                okl, _ = B.prove([], y % (2 ** (k + 1)) == (y % (2 ** k)) + (2 ** k) * ((y / (2 ** k)) % 2))
                if not okl:
                    return Outcome(UNDECIDED, "z3", f"digit step lemma k={k} not proved")
            ok, model = B.prove([], z3.And(*goals))
            if ok is None:
                return Outcome(UNDECIDED, "z3", "solver unknown")
            if not ok:
                vals = [model.eval(x, model_completion=True).as_long() for x in xs]
                if arr_shape is None:
                    got = call(BL.int_to_binary, vals[0], width)
                    bad = not (got[0] == "ok" and spec_ok(vals[0], list(got[1])))
                else:
                    a = np.array(vals, dtype=object).reshape(arr_shape)
                    got = call(BL.int_to_binary, a, width)
                    bad = not (got[0] == "ok" and all(spec_ok(int(a[idx]), list(got[1][idx])) for idx in np.ndindex(*arr_shape)))
                return Outcome(REFUTED, "bits+z3", "bits are not the binary digits of x mod 2^width", witness=dict(x=[str(v) for v in vals], width=width),
                               replay=dict(confirmed=bad, observed=repr(got), inputs=dict(x=[str(v) for v in vals], width=width),
                                           expected="the width least significant binary digits of x (most significant first)"))
            return Outcome(DISCHARGED, "bits+z3", "for every integer x")
        return Obligation(name, "post", fn, func=(FILE, "int_to_binary"), size_bounded=True, timeout=600,
                          sample="for all integers x: result is the big-endian digit string of x mod 2^width")
    for wd in range(0, (8 if quick else 16) + 1):
        plan.add(i2b(wd))
    for wd in (1, 3, 5):
        plan.add(i2b(wd, (2,)))
    plan.add(i2b(4, (2, 2)))
    plan.fn_under_contract(FILE, "int_to_binary")

    plan.add(native_ob("C50/binary_linalg:int_to_binary/integer-dtypes[sampled]", i2b_native, "python int, numpy scalar, 0-d and 2-d integer arrays on the real dtype path",
                       "int_to_binary", bounded=True))

    # ============================================================================ complete enumeration on the integer-dtype path
    cap = 12 if quick else 16
    enum_shapes = [(m, n) for m in range(1, MAXM + 1) for n in range(1, MAXN + 1) if m * n <= cap]

    def enum_rank(m, n):
        def fn():
            for A in all_matrices(m, n):
                A0 = A.copy()
                got = call(BL.binary_matrix_rank, A)
                if got != ("ok", ref_rank(A)) or not np.array_equal(A, A0) or not isinstance(got[1], (int, np.integer)):
                    return dict(inputs=A0.tolist(), observed=repr(got) + ("" if np.array_equal(A, A0) else " (input modified)"),
                                expected=f"rank {ref_rank(A0)} (log2 of the size of the row span), input untouched")
            return None
        return native_ob(f"C50/binary_linalg:binary_matrix_rank/all-matrices[{m}x{n}]", fn, "rank == log2 |row span| for every matrix of the shape; input not modified",
                         "binary_matrix_rank", size_bounded=True)

    def enum_rref(m, n):
        def fn():
            for A in all_matrices(m, n):
                bad = native_rref_ok(BL, A.copy())
                if bad:
                    return dict(inputs=A.tolist(), observed=bad, expected="reduced row-echelon form with the row space and rank of the input")
                R = BL.binary_finite_reduced_row_echelon(A)
                if sum(1 for r in R.tolist() if any(r)) != call(BL.binary_matrix_rank, A)[1]:
                    return dict(inputs=A.tolist(), observed=R.tolist(), expected="binary_matrix_rank == number of pivots of the row-echelon form")
            return None
        return native_ob(f"C50/binary_linalg:binary_finite_reduced_row_echelon/enumeration[{m}x{n}]", fn,
                         "integer-dtype path, every matrix of the shape: RREF, row space, pivots == rank == binary_matrix_rank", "binary_finite_reduced_row_echelon",
                         size_bounded=True)
    for m, n in enum_shapes:
        plan.add(enum_rank(m, n))
        plan.add(enum_rref(m, n))
    plan.fn_under_contract(FILE, "binary_matrix_rank")

    def enum_solve(n):
        def fn():
            for A in all_matrices(n, n):
                for bb in itertools.product((0, 1), repeat=n):
                    bad = native_solve_ok(BL, A.copy(), np.array(bb, dtype=int))
                    if bad:
                        return dict(inputs=dict(A=A.tolist(), b=list(bb)), observed=bad, expected="x with A.x == b for regular A, LinAlgError for singular A")
            return None
        return native_ob(f"C50/binary_linalg:binary_solve_linear_system/enumeration[{n}x{n}]", fn, "integer-dtype path, every system of the size", "binary_solve_linear_system",
                         size_bounded=True)
    for n in (1, 2, 3):
        plan.add(enum_solve(n))

    def enum_indep(r, mcols):
        def fn():
            for Bm in all_matrices(r, mcols):
                if ref_rank(Bm) != min(r, mcols):
                    continue                                  # documented precondition: the basis has full rank
                cols = span(Bm.T.tolist()) if mcols else {tuple([0] * r)}
                for v in itertools.product((0, 1), repeat=r):
                    vec = np.array(v, dtype=int)
                    B0, v0 = Bm.copy(), vec.copy()
                    got = call(BL.binary_is_independent, vec, Bm)
                    exp = tuple(v) not in cols
                    if got[0] != "ok" or bool(got[1]) != exp or not np.array_equal(Bm, B0) or not np.array_equal(vec, v0):
                        return dict(inputs=dict(vector=list(v), basis=B0.tolist()), observed=repr(got), expected=f"{exp}: vector outside the column span")
            return None
        return native_ob(f"C50/binary_linalg:binary_is_independent/all-full-rank-bases[{r}x{mcols}]", fn,
                         "independent <=> the vector is not in the column span (<=> the rank increases), every full-rank basis and vector", "binary_is_independent",
                         size_bounded=True)
    for r in range(1, 4):
        for mc in range(0, 4):
            plan.add(enum_indep(r, mc))
    plan.fn_under_contract(FILE, "binary_is_independent")

    def indep_errors():
        for vs, bs in (((2,), (3, 2)), ((3,), (2, 2)), ((1,), (0, 4))):
            got = call(BL.binary_is_independent, np.zeros(vs, dtype=int), np.zeros(bs, dtype=int))
            if got != ("raise", "ValueError"):
                return dict(inputs=dict(vector_shape=vs, basis_shape=bs), observed=repr(got), expected="ValueError (column length mismatch)")
        return None
    plan.add(native_ob("C50/binary_linalg:binary_is_independent/shape-mismatch-raises", indep_errors, "documented ValueError when the lengths differ", "binary_is_independent",
                       bounded=True))

    def enum_basis(r, c):
        def fn():
            for M in all_matrices(r, c):
                M0 = M.copy()
                got = call(BL.binary_select_basis, M)
                if got[0] != "ok":
                    return dict(inputs=M0.tolist(), observed=repr(got), expected="(basis columns, other columns)")
                basis, other = got[1]
                bc, oc = [tuple(x) for x in np.asarray(basis).T.tolist()], [tuple(x) for x in np.asarray(other).T.tolist()]
                ok = (np.asarray(basis).shape[0] == r and np.asarray(other).shape[0] == r and sorted(bc + oc) == sorted(tuple(x) for x in M0.T.tolist())
                      and len(bc) == ref_rank(M0) and (not bc or len(span(bc)) == 2 ** len(bc)) and (span(bc) if bc else {tuple([0] * r)}) == span(M0.T.tolist())
                      and np.array_equal(M, M0))
                if not ok:
                    return dict(inputs=M0.tolist(), observed=dict(basis=np.asarray(basis).tolist(), other=np.asarray(other).tolist()),
                                expected="independent columns of the input spanning its column space + the remaining columns")
            return None
        return native_ob(f"C50/binary_linalg:binary_select_basis/all-matrices[{r}x{c}]", fn, "selected columns form a basis of the column space; the rest is returned separately",
                         "binary_select_basis", size_bounded=True)
    for r in range(1, 4):
        for c in range(1, 4 if quick else 5):
            plan.add(enum_basis(r, c))
    plan.fn_under_contract(FILE, "binary_select_basis")

    def degenerate():
        for shp in ((0, 3), (2, 0), (0, 0)):
            A = np.zeros(shp, dtype=int)
            if call(BL.binary_matrix_rank, A) != ("ok", 0):
                return dict(inputs=list(shp), observed=repr(call(BL.binary_matrix_rank, A)), expected="rank 0")
            got = call(BL.binary_finite_reduced_row_echelon, A)
            if got[0] != "ok" or got[1].shape != shp:
                return dict(inputs=list(shp), observed=repr(got), expected="an empty matrix of the same shape")
        return None
    plan.add(native_ob("C50/binary_linalg:zero-sized-shapes", degenerate, "0 x n, m x 0 matrices: rank 0, RREF of the same shape", "binary_matrix_rank", bounded=True))

    def larger_random():
        rng = random.Random(seed)
        for _ in range(60 if quick else 400):
            m, n = rng.randint(4, 7), rng.randint(4, 8)
            A = np.array([[rng.randint(0, 1) for _ in range(n)] for _ in range(m)], dtype=int)
            bad = native_rref_ok(BL, A.copy()) if m <= 7 else None
            if bad:
                return dict(inputs=A.tolist(), observed=bad, expected="reduced row-echelon form with the row space and rank of the input")
            if call(BL.binary_matrix_rank, A) != ("ok", ref_rank(A)):
                return dict(inputs=A.tolist(), observed=repr(call(BL.binary_matrix_rank, A)), expected=ref_rank(A))
            k = min(m, n)
            S = A[:k, :k]
            bb = np.array([rng.randint(0, 1) for _ in range(k)], dtype=int)
            bad = native_solve_ok(BL, S.copy(), bb)
            if bad:
                return dict(inputs=dict(A=S.tolist(), b=bb.tolist()), observed=bad, expected="solver contract")
        return None
    plan.add(native_ob("C50/binary_linalg:random-larger-matrices[4..7 x 4..8]", larger_random, "seeded random matrices beyond the enumerated shapes", "binary_matrix_rank",
                       bounded=True))
    return plan


def native_ob(name, fn, desc, func, **kw):
    def run():
        bad = fn()
        if bad:
            return Outcome(REFUTED, "real-code-run+brute-force-reference", str(bad)[:1500], witness=dict(inputs=bad.get("inputs")),
                           replay=dict(confirmed=True, observed=bad.get("observed"), expected=bad.get("expected", desc), inputs=bad.get("inputs")))
        return Outcome(DISCHARGED, "real-code-run+brute-force-reference", desc)
    return Obligation(name, "post", run, func=(FILE, func), sample=desc, timeout=kw.pop("timeout", 900), **kw)


def enumerate_instead(first_failure, count, why):
    """fallback of a symbolic obligation: run the native contract on EVERY input of the shape (complete finite enumeration)"""
    bad = first_failure()
    if bad:
        return Outcome(REFUTED, "enumeration(fallback)", f"symbolic run left the fragment ({type(why).__name__}: {why}); enumeration found a failing input: {bad}",
                       witness=dict(inputs=bad.get("inputs")), replay=dict(confirmed=True, observed=bad.get("observed"), inputs=bad.get("inputs")))
    return Outcome(DISCHARGED, "enumeration(fallback: symbolic run left the fragment)", f"all {count} inputs of the shape run natively ({type(why).__name__}: {str(why)[:120]})")
