"""C08 Commutation checks are sound.

Contract on `qp.is_commuting` (ops/functions/is_commuting.py), taken from the property statement:
    is_commuting(A, B) == True   ==>   [M(A), M(B)] == 0 on the joint wire set          (soundness of a positive answer)
    for two Pauli words:  is_commuting(A, B) == (the matrices commute)                  (exactness)

(a) Table / control-target logic.  The REAL function is called on real operator instances (float twins at generic parameter
    values: away from the special angles `qp.simplify` reduces, the decision depends only on names and on the overlap pattern
    of control / target wires).  For every pair of instances and every overlapping relative wire placement on which it
    answers True, the commutator of the two REAL matrix kernels with SYMBOLIC parameters is proved to vanish identically
    (Laurent normal form) -- i.e. for all parameter values.  Size-bounded in the wire placements (joint register <= 4 wires).
(b) Pauli words: all pairs of words on <= 2 wires each inside a 3-wire register (as Prod / SProd / single Paulis):
    answer == exact matrix commutation (complete finite enumeration; symbolic-size exactness of PauliWord.commutes_with is C51).
(c) Value-dependent branches (U2, U3, Rot, CRot compare matrices numerically, `qp.simplify` rewrites rotations at special
    angles): bounded stand-in -- seeded parameter points incl. the special angles, float commutators.
"""
import itertools
import math
import random
import zlib

import numpy as np

from vf.common import Plan, Obligation, Outcome, DISCHARGED, REFUTED, UNDECIDED, FAULT

IC = "pennylane/ops/functions/is_commuting.py"
VALUE_DEPENDENT = {"U2", "U3", "Rot", "CRot"}
SKIP = {"PauliRot", "PCPhase", "DiagonalQubitUnitary", "QubitUnitary", "ControlledQubitUnitary", "BlockEncode", "SpecialUnitary"}


def placements(nA, nB, max_total):
    """wire tuples for B (A sits on 0..nA-1): injective, overlapping A, fresh wires numbered nA, nA+1, ... in order of appearance"""
    out = []
    if nB == 0 or nA == 0:
        return out
    for k_new in range(0, nB):
        if nA + k_new > max_total:
            break
        labels = list(range(nA)) + list(range(nA, nA + k_new))
        for tup in itertools.permutations(labels, nB):
            used_new = [w for w in tup if w >= nA]
            if sorted(used_new) != list(range(nA, nA + k_new)) or used_new != sorted(used_new):
                continue
            if not any(w < nA for w in tup):
                continue
            out.append(tuple(tup))
    return out


def instances(tier):
    """(label, npar, mk(P, wires) -> operator, number of wires)"""
    import pennylane as qp
    from vf.symx.rules import base_configs, _controlled
    out = []
    for name, cfgs in base_configs(tier).items():
        if name in SKIP:
            continue
        for label, npar, mk, nw in cfgs:
            if nw == 0 or nw > 3:
                continue
            if name == "MultiControlledX" and nw > 3:
                continue
            out.append((f"{name}{label}", npar, mk, nw))
    # generic controlled operators (name C(...), control_wires attribute): one control on wires[0]
    for bname, npar, nb in (("RX", 1, 1), ("RZ", 1, 1), ("RY", 1, 1), ("PhaseShift", 1, 1), ("Hadamard", 0, 1), ("S", 0, 1), ("SWAP", 0, 2),
                            ("ISWAP", 0, 2), ("IsingXX", 1, 2), ("IsingZZ", 1, 2), ("PauliY", 0, 1), ("SX", 0, 1)):
        cls = getattr(qp, bname)

        def mk(P, wires, cls=cls, npar=npar):
            base = cls(*[P(i) for i in range(npar)], wires=wires[1:])
            return _controlled(base, [wires[0]], [1])
        out.append((f"ctrl({bname})", npar, mk, nb + 1))
    # a controlled global phase is a phase shift on its control wire
    out.append(("ctrl(GlobalPhase)", 1, (lambda P, wires: _controlled(qp.GlobalPhase(P(0)), [wires[0]], [1])), 1))
    # permutations (SWAP group, arbitrary arity): the three kinds of non-trivial permutations of 3 wires and the transposition
    for perm in ((1, 0), (1, 2, 0), (0, 2, 1), (2, 1, 0)):
        out.append((f"Permute{list(perm)}".replace(" ", ""), 0, (lambda P, wires, perm=perm: qp.Permute([wires[j] for j in perm], wires=wires)), len(perm)))
    out.append(("ctrl(Permute[1,2,0])", 0, (lambda P, wires: _controlled(qp.Permute([wires[2], wires[3], wires[1]], wires=wires[1:]), [wires[0]], [1])), 4))
    return out


def build(tier, seed):
    plan = Plan("C08", level="other")        # every obligation is size-bounded (all values, enumerated shapes): not a proof of the unbounded statement
    plan.explanation = ("is_commuting is CALLED on real operator instances; every positive answer is proved by showing that the "
                        "commutator of the two real matrix kernels, executed on exact symbolic parameters and embedded in the joint "
                        "register, vanishes identically (Laurent normal form); Pauli-word exactness by complete enumeration on small "
                        "registers; value-dependent branches only by a bounded float stand-in.")
    plan.trusted_base = ["vf/symx exact ring + Sym scalar", "textbook tensor embedding of gate matrices (vf/symx/rules.circuit_matrix)",
                         "is_commuting's answer at generic parameter values depends on names and wire overlap only (checked at two "
                         "different generic points per pair)"]
    plan.assumptions = ["A-float-as-real, A-float-constants for the traced kernels", "numpy interface, non-batched parameters"]
    max_total = 4 if tier == "quick" else 5
    plan.size_bounds.append(f"wire placements: first operator on wires 0..n-1, second on every overlapping placement with the joint "
                            f"register <= {max_total} wires; operators with <= 3 wires; one control wire for the generic controlled operators")
    insts = instances(tier)
    plan.notes["operator_instances"] = len(insts)
    plan.fn_under_contract(IC, "is_commuting")
    plan.fn_under_contract(IC, "_create_commute_function.<locals>.commutes_inner")
    plan.fn_under_contract(IC, "_pword_is_commuting")

    def twin(mk, npar, wires, shift):
        return mk(lambda i: 0.37 + 0.211 * i + shift, list(wires))

    def symop(mk, npar, wires, prefix):
        from vf.symx.scalar import sym
        return mk(lambda i: sym(f"{prefix}{i}"), list(wires))

    def pair_obligation(ia):
        la, npa, mka, nwa = insts[ia]

        def fn():
            import pennylane as qp
            from vf.symx.rules import circuit_matrix
            from vf.symx.scalar import pm_diff_entries
            from vf.symx.ring import Unsupported
            proved = answered = skipped = 0
            wa = list(range(nwa))
            for lb, npb, mkb, nwb in insts:
                vd = (la.split("[")[0] in VALUE_DEPENDENT) or (lb.split("[")[0] in VALUE_DEPENDENT)
                for wb in placements(nwa, nwb, max_total):
                    try:
                        a1, b1 = twin(mka, npa, wa, 0.0), twin(mkb, npb, wb, 0.13)
                        ans = qp.is_commuting(a1, b1)
                        ans2 = qp.is_commuting(twin(mka, npa, wa, 0.41), twin(mkb, npb, wb, 0.59))
                    except qp.exceptions.QuantumFunctionError:
                        skipped += 1
                        continue
                    except Exception as ex:  # pylint: disable=broad-except
                        return Outcome(UNDECIDED, "native", f"is_commuting({la}, {lb}@{wb}) raised {type(ex).__name__}: {str(ex)[:150]}")
                    if vd:
                        continue                    # numeric matrix comparison inside is_commuting: bounded stand-in below
                    if bool(ans) != bool(ans2):
                        return Outcome(UNDECIDED, "native", f"answer for {la}, {lb}@{wb} depends on the (generic) parameter values")
                    if not ans:
                        continue
                    answered += 1
                    wo = sorted(set(wa) | set(wb))
                    try:
                        A, B = symop(mka, npa, wa, "p"), symop(mkb, npb, wb, "q")
                        AB = circuit_matrix([B, A], wo)         # circuit order: B first then A  ==  M(A) M(B)
                        BA = circuit_matrix([A, B], wo)
                        diff = pm_diff_entries(AB, BA)
                    except Unsupported as ex:
                        return Outcome(UNDECIDED, "symx", f"trace of {la} / {lb} left the fragment: {str(ex)[:150]}")
                    if diff:
                        # replay natively with floats at the twin's point
                        Am = np.asarray(qp.matrix(a1, wire_order=wo), dtype=complex)
                        Bm = np.asarray(qp.matrix(b1, wire_order=wo), dtype=complex)
                        err = float(np.max(np.abs(Am @ Bm - Bm @ Am)))
                        return Outcome(REFUTED, "laurent-normal-form",
                                       f"is_commuting({a1}, {b1}) is True but the commutator does not vanish (entry {diff[0]})",
                                       witness=dict(op1=repr(a1), op2=repr(b1), wire_order=wo),
                                       replay=dict(confirmed=bool(err > 1e-9), max_abs_commutator=err, observed="is_commuting returned True",
                                                   expected="matrices commute on the joint register"),
                                       extra=dict(sub_obligations=answered))
                    proved += 1
            if answered == 0:
                return Outcome(DISCHARGED, "laurent-normal-form", f"no positive answer for {la} on overlapping wires ({skipped} unsupported pairs)",
                               extra=dict(sub_obligations=1))
            return Outcome(DISCHARGED, "laurent-normal-form", f"{proved} positive answers proved for all parameter values",
                           extra=dict(sub_obligations=proved))
        return Obligation(f"C08/is_commuting/{la}/post:True=>commutator==0", "post", fn, func=(IC, "is_commuting"), size_bounded=True, timeout=900,
                          sample="every overlapping placement of every other instance: positive answer => symbolic commutator vanishes identically")
    for ia in range(len(insts)):
        plan.add(pair_obligation(ia))

    # ---- (b) Pauli words ---------------------------------------------------------------------------------------------------------
    def pauli_exact():
        import pennylane as qp
        letters = {"I": qp.Identity, "X": qp.X, "Y": qp.Y, "Z": qp.Z}
        mats = {"I": np.eye(2), "X": np.array([[0, 1], [1, 0]]), "Y": np.array([[0, -1j], [1j, 0]]), "Z": np.diag([1, -1])}

        def word_ops(word, wires):
            ops = [letters[c](w) for c, w in zip(word, wires)]
            return ops[0] if len(ops) == 1 else qp.prod(*ops)

        def word_mat(word, wires, n):
            full = ["I"] * n
            for c, w in zip(word, wires):
                full[w] = c
            m = np.array([[1.0 + 0j]])
            for c in full:
                m = np.kron(m, mats[c])
            return m
        n, count = 3, 0
        regs = [(0,), (1,), (0, 1), (1, 2), (2, 0), (1, 0)]
        for wa in regs:
            for wb in regs:
                for A in itertools.product("IXYZ", repeat=len(wa)):
                    for B in itertools.product("IXYZ", repeat=len(wb)):
                        a, b = word_ops(A, wa), word_ops(B, wb)
                        if count % 7 == 3:
                            a = qp.s_prod(-0.5, a)                 # scalar multiples keep a Pauli representation
                        ans = qp.is_commuting(a, b)
                        Ma, Mb = word_mat(A, wa, n), word_mat(B, wb, n)
                        truth = bool(np.array_equal(Ma @ Mb, Mb @ Ma))        # entries in {0, +-1, +-i}: exact in binary64
                        count += 1
                        if bool(ans) != truth:
                            return Outcome(REFUTED, "exact-enumeration", f"is_commuting({a}, {b}) == {ans}, matrices commute: {truth}",
                                           witness=dict(op1=repr(a), op2=repr(b)), replay=dict(confirmed=True, observed=bool(ans), expected=truth),
                                           extra=dict(sub_obligations=count))
        return Outcome(DISCHARGED, "exact-enumeration", f"{count} word pairs", extra=dict(sub_obligations=count))
    plan.add(Obligation("C08/is_commuting/pauli-words/post:answer==matrix-commutation", "post", pauli_exact, func=(IC, "_pword_is_commuting"),
                        size_bounded=True, timeout=600, sample="all pairs of Pauli words on <= 2 wires inside a 3-wire register, both directions"))
    plan.size_bounds.append("Pauli-word exactness: words on <= 2 wires each inside a 3-wire register (complete enumeration)")

    # ---- (c) value-dependent branches: bounded stand-in ------------------------------------------------------------------------------
    def standin():
        import pennylane as qp
        rng = random.Random(zlib.crc32(f"{seed}:C08-standin".encode()))
        special = [0.0, math.pi / 2, math.pi, -math.pi / 2, 2 * math.pi, 0.3]
        vd = [t for t in insts if t[0].split("[")[0] in VALUE_DEPENDENT]
        others = [t for t in insts if t[3] <= 2]
        n_checked = 0
        for (la, npa, mka, nwa) in vd:
            for (lb, npb, mkb, nwb) in others:
                for wb in placements(nwa, nwb, 3):
                    for _ in range(3):
                        pa = [rng.choice(special) if rng.random() < 0.6 else rng.uniform(-3, 3) for _ in range(max(npa, 1))]
                        pb = [rng.choice(special) if rng.random() < 0.6 else rng.uniform(-3, 3) for _ in range(max(npb, 1))]
                        a, b = mka(lambda i: pa[i], list(range(nwa))), mkb(lambda i: pb[i], list(wb))
                        for x, y in ((a, b), (b, a)):
                            try:
                                ans = qp.is_commuting(x, y)
                            except Exception:  # pylint: disable=broad-except
                                continue
                            n_checked += 1
                            if ans:
                                wo = sorted(set(x.wires) | set(y.wires))
                                X, Y = np.asarray(qp.matrix(x, wire_order=wo), dtype=complex), np.asarray(qp.matrix(y, wire_order=wo), dtype=complex)
                                err = float(np.max(np.abs(X @ Y - Y @ X)))
                                if err > 1e-7:
                                    return Outcome(REFUTED, "float-standin", f"is_commuting({x}, {y}) is True, commutator norm {err:.2e}",
                                                   witness=dict(op1=repr(x), op2=repr(y)), replay=dict(confirmed=True, max_abs_commutator=err))
        return Outcome(DISCHARGED, "float-standin", f"{n_checked} calls at seeded points incl. special angles: no unsound positive answer",
                       extra=dict(bounded=True))
    plan.add(Obligation("C08/is_commuting/value-dependent-rotations/standin", "post", standin, func=(IC, "check_commutation_two_non_simplified_rotations"),
                        bounded=True, timeout=900))
    plan.unverified = ["positive answers at the special angles where qp.simplify rewrites a rotation (covered only by the bounded stand-in)",
                       "U2/U3/Rot/CRot pairs (numeric matrix comparison inside is_commuting): bounded stand-in only",
                       "operators of unbounded arity beyond 3 wires (Permute, BasisState, MultiRZ > 3 wires), templates, Sum/Prod without Pauli representation",
                       "completeness (a False answer for commuting operators is allowed by the property)"]
    return plan
