"""C18 Transforms never modify their input circuit  (E3 frame checker + bounded native stand-in).

Static part (vf/frame): every function decorated with @transform / @partial(transform, ...) under transforms/**, noise/, gradients/,
qcut/cutcircuit*, devices/preprocess.py is enumerated from the AST on every run and analysed by the flow-sensitive may-alias analysis;
each WRITE SITE is one obligation `the written object is not (reachable from) the input tape`.  Helper functions the transforms call
are summarised from their own bodies (which arguments they write, what their result may alias); callees without a body in reach are
assumed pure (counted).  The QuantumScript accessors the analysis relies on (`operations` / `measurements` return the internal lists,
`circuit` / `observables` are new lists, `copy` / `bind_new_parameters` return new scripts) are re-derived from core/qscript.py.
Write sites whose target cannot be classified are counted as `unclassified` -- never a violation.

Bounded part: every transform that can be called with a tape alone is run on three representative tapes and a deep fingerprint of
the INPUT tape (operator / measurement identities, types, wires, parameter values, hyperparameters, trainable_params, shots, identity of
the internal lists) is compared before and after.
"""
import importlib
import os

from vf.common import Plan, Obligation, Outcome, DISCHARGED, REFUTED, UNDECIDED, FAULT, REPO
from vf.frame import enumerate_transforms, analyse_function

PID = "C18"
QS = "pennylane/core/qscript.py"
EXTRA = [("pennylane/core/transforms/compile_pipeline.py", "CompilePipeline.__call_tapes", 1),
         ("pennylane/devices/qubit/sampling.py", "_group_measurements", 0)]
# genuine writes found on the pinned tree (each reproduced natively); all four were repaired by fix: commits in /repo
# (known_findings.json F30, F31, F7, F6 = status fixed, which suppresses nothing: the obligations are ordinary ones again)
FINDINGS = {("pennylane/transforms/optimization/merge_rotations.py", "merge_rotations"): "F30",
            ("pennylane/transforms/optimization/commute_controlled.py", "commute_controlled"): "F31",
            ("pennylane/core/transforms/compile_pipeline.py", "CompilePipeline.__call_tapes"): "F7",
            ("pennylane/devices/qubit/sampling.py", "_group_measurements"): "F6"}


# ---------------------------------------------------------------------------------------------- native stand-in
def sample_tapes():
    import pennylane as qp
    t1 = qp.tape.QuantumScript([qp.RX(0.1, 0), qp.RX(0.2, 0), qp.H(1), qp.H(1), qp.X(1), qp.CNOT([0, 1]), qp.RZ(0.3, 0), qp.SWAP([0, 1])],
                               [qp.expval(qp.Z(0)), qp.probs(wires=[1])])
    t2 = qp.tape.QuantumScript([qp.RY(0.4, 0), qp.CNOT([0, 1]), qp.RZ(0.2, 1), qp.Rot(0.1, 0.2, 0.3, wires=0)],
                               [qp.expval(2.0 * qp.X(0) + 3.0 * (qp.Y(1) @ qp.Z(0))), qp.var(qp.Z(1))], shots=50)
    t3 = qp.tape.QuantumScript([qp.adjoint(qp.S(0)), qp.S(0), qp.CZ([0, 1]), qp.T(1), qp.RZ(0.5, 1), qp.RZ(-0.2, 1)], [qp.expval(qp.Z(0) @ qp.Z(1))])
    return [t1, t2, t3]


def fingerprint(tape):
    import numpy as np

    def data(x):
        try:
            return [np.asarray(d).tolist() for d in x.data]
        except Exception:  # pylint: disable=broad-except
            return repr(x)

    def one(x):
        obs = getattr(x, "obs", None)
        return (id(x), type(x).__name__, list(getattr(x, "wires", [])), data(x), repr(getattr(x, "hyperparameters", None)),
                None if obs is None else (id(obs), repr(obs), data(obs)))
    return dict(ops=[one(o) for o in tape._ops], mps=[one(m) for m in tape._measurements], ops_list=id(tape._ops), mps_list=id(tape._measurements),
                trainable=list(tape.trainable_params), shots=repr(tape.shots), n_ops=len(tape.operations))


def native_run(rel, fname):
    """-> (status, detail): 'changed' with a description, 'unchanged', or 'skipped'"""
    mod = importlib.import_module(rel[:-3].replace("/", "."))
    tf = getattr(mod, fname)
    ran = 0
    notes = []
    for i, tape in enumerate(sample_tapes()):
        before = fingerprint(tape)
        try:
            tf(tape)
        except Exception as ex:  # pylint: disable=broad-except
            notes.append(f"tape{i + 1}: {type(ex).__name__}")
            after = fingerprint(tape)
            if after != before:
                return "changed", dict(tape=i + 1, raised=type(ex).__name__, changed=[k for k in before if before[k] != after[k]], before=summarise(before),
                                       after=summarise(after))
            continue
        ran += 1
        after = fingerprint(tape)
        if after != before:
            return "changed", dict(tape=i + 1, changed=[k for k in before if before[k] != after[k]], before=summarise(before), after=summarise(after))
    return ("unchanged" if ran else "skipped"), dict(ran=ran, notes=notes)


def summarise(fp):
    return dict(ops=[f"{t}{w}{d}" for _, t, w, d, _, _ in fp["ops"]], mps=[f"{t}{w}:{o[1] if o else None}" for _, t, w, _, _, o in fp["mps"]],
                trainable=fp["trainable"], shots=fp["shots"])


def standin_obligation(rel, fname):
    stem = os.path.basename(rel)[:-3]

    def fn():
        try:
            st, detail = native_run(rel, fname)
        except Exception as ex:  # pylint: disable=broad-except
            return Outcome(DISCHARGED, "native-standin", f"skipped: cannot run ({type(ex).__name__}: {str(ex)[:120]})", extra=dict(bounded=True))
        if st == "changed":
            return Outcome(REFUTED, "native-standin", f"the input tape changed: {detail['changed']}", witness=detail,
                           replay=dict(confirmed=True, observed=detail["after"], expected=detail["before"], inputs=f"representative tape {detail['tape']}"))
        return Outcome(DISCHARGED, "native-standin", f"{st}: {detail}", extra=dict(bounded=True))
    return Obligation(f"{PID}/{stem}:{fname}/native: input tape fingerprint unchanged on 3 representative tapes", "bounded", fn, bounded=True,
                      func=(rel, fname), timeout=180, sample="deep fingerprint of the input tape before / after the real transform")


# ---------------------------------------------------------------------------------------------- static obligations
def build(tier, seed):
    plan = Plan(PID, level="other")
    plan.explanation = (
        "E3 frame checker: flow-sensitive intraprocedural may-alias analysis of the real ASTs (vf/frame), one obligation per write site "
        "(`target is not reachable from the input tape`), helper effects from summaries derived from their bodies, QuantumScript accessor "
        "contracts re-derived from core/qscript.py; plus a bounded native stand-in (input-tape fingerprint before/after on representative tapes).")
    plan.trusted_base = ["vf/frame/analysis.py (abstract domain: may-be / may-contain tokens per parameter, classified vs unclassifiable; "
                         "syntactic write sites; loop fixpoint)", "python's data model for lists / attribute assignment"]
    summaries = {}
    transforms = enumerate_transforms(REPO)
    targets = [(rel, fn, 0) for rel, fn in transforms] + EXTRA
    n_sites = n_uncl = n_assumed = n_unsupported = 0
    uncl_list, assumed_names = [], {}
    for rel, qual, pidx in targets:
        stem = os.path.basename(rel)[:-3]
        tok = f"P{pidx}"
        fid = FINDINGS.get((rel, qual))
        try:
            summ, _ = analyse_function(REPO, rel, qual, summaries)
        except Exception as ex:  # pylint: disable=broad-except
            plan.add(Obligation(f"{PID}/{stem}:{qual}/frame-analysis", "frame",
                                (lambda ex=ex: Outcome(UNDECIDED, "frame", f"analysis failed: {type(ex).__name__}: {ex}")), func=(rel, qual)))
            continue
        plan.fn_under_contract(rel, qual)
        n_assumed += len(summ.assumed)
        n_unsupported += len(summ.unsupported)
        for nm, _ in summ.assumed:
            assumed_names[nm] = assumed_names.get(nm, 0) + 1
        bad = []
        for st in summ.sites:
            v = st.verdict(tok)
            n_sites += 1
            if v == "unclassified":
                n_uncl += 1
                uncl_list.append(f"{rel}:{st.func} L{st.lineno} {st.kind} {st.target}")
                continue
            name = f"{PID}/{stem}:{st.func}/write#{st.ordinal} {st.kind} on `{st.target}`"

            def fn(st=st, v=v, rel=rel, qual=qual, pidx=pidx):
                if v == "ok":
                    return Outcome(DISCHARGED, "frame", f"target may be {sorted(st.value.ids) or 'a new object'}: not the input (L{st.lineno})")
                detail = (f"line {st.lineno}: {st.kind} writes `{st.target}`, which may be {sorted(st.value.hits(pidx))} "
                          f"(state reachable from parameter {pidx})")
                rp = dict(confirmed=None, note="static frame violation; no native run available")
                if pidx == 0 and "." not in qual:
                    try:
                        s_, d_ = native_run(rel, qual)
                        if s_ == "changed":
                            rp = dict(confirmed=True, observed=d_["after"], expected=d_["before"], inputs=f"representative tape {d_['tape']}",
                                      changed=d_["changed"])
                        else:
                            rp = dict(confirmed=None, note=f"static frame violation; the representative tapes did not expose it ({s_})")
                    except Exception as ex:  # pylint: disable=broad-except
                        rp = dict(confirmed=None, note=f"static frame violation; native run failed: {type(ex).__name__}")
                return Outcome(REFUTED, "frame", detail, witness=dict(line=st.lineno, target=st.target, kind=st.kind), replay=rp)
            if v != "ok":
                bad.append(st)
            plan.add(Obligation(name, "frame", fn, func=(rel, qual), finding=fid if v != "ok" else None, timeout=240,
                                sample=f"write site L{st.lineno}: {st.kind} on {st.target}"))
        # one obligation per function: the enumeration itself (also present when the function has no write site at all)
        plan.add(Obligation(f"{PID}/{stem}:{qual}/frame: analysed ({len(summ.sites)} write sites)", "frame",
                            (lambda summ=summ: Outcome(DISCHARGED, "frame", f"{len(summ.sites)} write sites, {len(summ.assumed)} assumed callees, "
                                                       f"{len(summ.unsupported)} unsupported nodes")), func=(rel, qual)))
    # ---- accessor contracts the analysis uses, re-derived from the bodies
    def accessor(qual, want):
        def fn():
            try:
                s_, _ = analyse_function(REPO, QS, qual, {})
            except Exception as ex:  # pylint: disable=broad-except
                return Outcome(UNDECIDED, "frame", f"analysis failed: {type(ex).__name__}: {ex}")
            r = s_.returns
            if want == "fresh" and r.ids:
                return Outcome(REFUTED, "frame", f"{qual} is used as returning a NEW object but its body may return {sorted(r.ids)}",
                               replay=dict(confirmed=None, note="contract of the analysis no longer matches core/qscript.py"))
            writes = [st for st in s_.sites if st.verdict("P0") == "violation" and not st.target.startswith("new_qscript")]
            if want == "fresh" and writes:
                return Outcome(REFUTED, "frame", f"{qual} writes its receiver: {[(st.lineno, st.target) for st in writes]}",
                               replay=dict(confirmed=None, note="accessor mutates the script it is called on"))
            return Outcome(DISCHARGED, "frame", f"returns ids={sorted(r.ids)} elems={sorted(r.elems)} fresh={r.fresh} (contract: {want})")
        return Obligation(f"{PID}/qscript:QuantumScript.{qual.split('.')[-1]}/accessor contract: {want}", "frame", fn, func=(QS, qual))
    for qual, want in (("QuantumScript.operations", "alias (conservative)"), ("QuantumScript.measurements", "alias (conservative)"),
                       ("QuantumScript.circuit", "fresh"), ("QuantumScript.observables", "fresh"), ("QuantumScript.copy", "fresh"),
                       ("QuantumScript.bind_new_parameters", "fresh")):
        plan.add(accessor(qual, "fresh" if want == "fresh" else want))
        plan.fn_under_contract(QS, qual)
    # ---- bounded native stand-ins
    for rel, fn in transforms:
        plan.add(standin_obligation(rel, fn))

    top = sorted(assumed_names.items(), key=lambda kv: -kv[1])[:25]
    plan.notes["enumerated_transforms"] = len(transforms)
    plan.notes["write_sites"] = n_sites
    plan.notes["unclassified_write_sites"] = n_uncl
    plan.notes["unclassified_list"] = uncl_list
    plan.notes["assumed_pure_callees"] = dict(total_call_sites=n_assumed, distinct=len(assumed_names), most_frequent=top)
    plan.assumptions = ["operators and measurement processes are treated as immutable values unless a write site says otherwise",
                        "attributes in SCALAR_ATTRS (shots, wires, data, num_params, ...) yield immutable values"]
    plan.assumed_contracts = [f"{n_assumed} call sites of {len(assumed_names)} distinct callees without a body in reach are assumed pure with an "
                              f"unclassifiable result (most frequent: {', '.join(f'{k} x{v}' for k, v in top[:8])})",
                              "QuantumScript methods expand / map_wires / map_to_standard_wires (may return self) / simplify and Operator methods by "
                              "name (METHOD_CONTRACTS in vf/frame/analysis.py)"]
    plan.size_bounds = ["native stand-in: 3 representative tapes per transform, default arguments only (bounded, never counted as proof)"]
    plan.unverified = [f"{n_uncl} write sites whose target cannot be classified (listed in notes.unclassified_list): counted, not violations",
                       "writes hidden in callees assumed pure; aliasing through operator internals; C extensions",
                       "transforms registered outside the enumerated roots; QNode-level transform application",
                       "re-execution of the original tape giving the same results (follows from the frame property only for deterministic devices)"]
    plan.dropped = ["nothing: the analysis reads the full function bodies; nested functions are analysed in the environment of their definition"]
    return plan
