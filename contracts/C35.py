"""C35 Generated shift rules are exact for their frequency spectra.

Exactness of a rule {(c_i, s_i)} at derivative order n for a spectrum W is the finite linear system
        sum_i c_i e^{i w s_i} == (i w)^n      for all w in W u {0} u (-W)
(f(x) = sum_w a_w e^{i w x}: the rule applied to e^{i w x} must give (i w)^n e^{i w x}).

DEDUCTIVE part (exact, sympy; size-bounded in the number of frequencies / terms):
  (a) the REAL body of _get_shift_rule (taken from the AST of the working tree, decorators stripped) is executed with numpy / qp.math
      replaced by an exact shim: np.pi = pi, sin(k pi / 4R) = (z^k - z^-k) / 2i with z = e^{i pi / 4R}, symbolic f_min > 0; the system above is
      checked as a polynomial identity modulo the cyclotomic polynomial Phi_8R(z), R = 1..5 (multiples spectra, default shifts).
  (b) the real _iterate_shift_rule / _iterate_shift_rule_with_multipliers run on numpy object arrays of sympy symbols: the iterated rule
      applied to e^{i w x} is (sum_i c_i x_i)^n, incl. the reduction of shifts modulo the period (needs w * period in 2 pi Z, checked for
      frequencies_to_period on enumerated integer / decimal spectra).
  (c) the real _combine_shift_rules on symbolic rules: the combined rule is the tensor product (product of the per-axis sums).
BOUNDED part (labelled): process_shifts on exactly representable inputs, and a stratified float sweep of generate_shift_rule /
generate_multi_shift_rule (tolerance 1e-8, every refutation carries its input).
"""
import ast
import itertools
import warnings

from vf.common import Plan, Obligation, Outcome, DISCHARGED, REFUTED, UNDECIDED, FAULT, find_def

GSR = "pennylane/gradients/general_shift_rules.py"
TOL = 1e-8


def mod_():
    import importlib
    return importlib.import_module("pennylane.gradients.general_shift_rules")


def defect(rule, freqs, order):
    """max_w | sum_i c_i e^{i w s_i} - (i w)^order |  over  w in W u {0} u -W   (float)"""
    import numpy as np
    rule = np.asarray(rule, dtype=float)
    worst = 0.0
    for w in list(freqs) + [0.0] + [-f for f in freqs]:
        val = np.sum(rule[:, 0] * np.exp(1j * w * rule[:, -1]))
        worst = max(worst, abs(val - (1j * w) ** order))
    return float(worst)


def defect_multi(rule, freq_sets, orders):
    import numpy as np
    rule = np.asarray(rule, dtype=float)
    worst = 0.0
    grids = [list(f) + [0.0] + [-x for x in f] for f in freq_sets]
    for ws in itertools.product(*grids):
        phase = sum(w * rule[:, 1 + k] for k, w in enumerate(ws))
        target = 1.0
        for w, o in zip(ws, orders):
            target = target * (1j * w) ** o
        worst = max(worst, abs(np.sum(rule[:, 0] * np.exp(1j * phase)) - target))
    return float(worst)


# ======================================================================================================================= (a)
def exact_get_shift_rule(R):
    """run the real body of _get_shift_rule on the spectrum (f, 2f, ..., Rf), f > 0 symbolic, default shifts, with an exact numpy shim.
    Returns (rule as object array, f, z): coefficients are rational functions of z = e^{i pi / 4R} times f, shifts are q*pi/f."""
    import numpy as np
    import sympy as sp
    f = sp.Symbol("f", positive=True)
    z = sp.Symbol("z")
    I_ = z ** (2 * R)                       # i == z^(2R)

    def as_obj(xs):
        a = np.empty(len(xs), dtype=object)
        for i, x in enumerate(xs):
            a[i] = x
        return a

    def sin_exact(arr):
        out = []
        for x in np.atleast_1d(arr):
            q = sp.nsimplify(sp.simplify(sp.sympify(x) / sp.pi) * 4 * R)
            if not q.is_Integer:
                raise ValueError(f"sine of an angle that is not a multiple of pi/{4 * R}: {x}")
            k = int(q)
            out.append((z ** k - z ** (-k)) / (2 * I_))
        return as_obj(out)

    def allclose_exact(a, b):
        a, b = np.atleast_1d(a), np.atleast_1d(b)
        return len(a) == len(b) and all(sp.simplify(sp.sympify(x) - sp.sympify(y)) == 0 for x, y in zip(a, b))

    class NP:
        pi = sp.pi
        arange = staticmethod(np.arange)
        concatenate = staticmethod(np.concatenate)
        stack = staticmethod(np.stack)
        sin = staticmethod(sin_exact)
        allclose = staticmethod(allclose_exact)

    class QMath:
        stack = staticmethod(lambda xs: as_obj(list(xs)))
        sort = staticmethod(lambda arr: as_obj(sorted(arr, key=lambda e: float(sp.sympify(e).subs(f, 1)))))
    node = find_def(GSR, "_get_shift_rule")[1]
    fn_node = ast.FunctionDef(name=node.name, args=node.args, body=node.body, decorator_list=[], returns=None, type_comment=None, type_params=[])
    module = ast.fix_missing_locations(ast.Module(body=[fn_node], type_ignores=[]))
    ns = {"np": NP, "math": QMath, "warnings": warnings, "linalg_solve": None, "_SINGULAR_MATRIX_THRESHOLD": 1e-6}
    exec(compile(module, GSR, "exec"), ns)      # pylint: disable=exec-used
    rule = ns["_get_shift_rule"](tuple(f * m for m in range(1, R + 1)))
    return rule, f, z


def closed_form_obligation(R):
    name = f"C35/general_shift_rules:_get_shift_rule/equidistant-closed-form-exact[R={R}]"

    def fn():
        import sympy as sp
        try:
            rule, f, z = exact_get_shift_rule(R)
        except (AttributeError, TypeError, ValueError) as ex:
            # the body left the numpy subset of the exact shim: no verdict from this obligation (the float sweep still runs the function)
            return Outcome(UNDECIDED, "sympy-shim", f"the real body could not be executed on exact scalars: {type(ex).__name__}: {ex}")
        phi = sp.cyclotomic_poly(8 * R, z)
        I_ = z ** (2 * R)
        bad = []
        for m in list(range(-R, R + 1)):
            w = m * f
            total = 0
            for c, s in rule:
                q = sp.nsimplify(sp.simplify(w * s / sp.pi) * 4 * R)          # w*s == q * pi/(4R), q an integer
                if not q.is_Integer:
                    return Outcome(FAULT, "sympy", f"phase {w * s} is not a multiple of pi/{4 * R}")
                total = total + c * z ** int(q)
            expr = sp.together(total - I_ * w)
            num, den = sp.fraction(expr)
            num, den = sp.Poly(sp.expand(num * z ** (40 * R)), z), sp.Poly(sp.expand(den * z ** (40 * R)), z)
            if sp.gcd(den, sp.Poly(phi, z)).degree() > 0:
                return Outcome(FAULT, "sympy", "denominator vanishes at the root of unity")
            if not sp.rem(num, sp.Poly(phi, z)).is_zero:
                bad.append(m)
        if not bad:
            return Outcome(DISCHARGED, "sympy", f"{2 * R + 1} equations hold modulo the cyclotomic polynomial Phi_{8 * R}(z) for symbolic f > 0")
        m_ = mod_()
        freqs = tuple(float(k) for k in range(1, R + 1))
        get = getattr(m_._get_shift_rule, "__wrapped__", m_._get_shift_rule)
        err = defect(get(freqs), freqs, 1)
        return Outcome(REFUTED, "sympy", f"equations for w = m*f fail for m in {bad}", witness=dict(R=R, failing_multiples=bad),
                       replay=dict(confirmed=err > TOL, observed=err, inputs=dict(frequencies=list(freqs), shifts=None, order=1)))
    return Obligation(name, "post", fn, func=(GSR, "_get_shift_rule"), size_bounded=True, timeout=600,
                      sample="real body on exact scalars (numpy shim), identity modulo a cyclotomic polynomial")


# ======================================================================================================================= (b), (c)
def sym_rule(prefix, n_terms, with_mult=False):
    import numpy as np
    import sympy as sp
    rows = []
    for i in range(n_terms):
        row = [sp.Symbol(f"{prefix}c{i}")] + ([sp.Symbol(f"{prefix}m{i}")] if with_mult else []) + [sp.Symbol(f"{prefix}s{i}")]
        rows.append(row)
    arr = np.empty((n_terms, len(rows[0])), dtype=object)
    for i, row in enumerate(rows):
        for j, x in enumerate(row):
            arr[i, j] = x
    return arr


def monomial(shift_expr, shift_syms, xs, period):
    """e^{i w S} for S = (linear combination of the s_i, reduced modulo the period): product of x_i = e^{i w s_i}.
    Uses  w * period in 2 pi Z  =>  e^{i w (u mod T)} == e^{i w u}  and  e^{i w T/2} e^{-i w T/2} == 1"""
    import sympy as sp
    e = sp.sympify(shift_expr)
    if period is not None:
        e = e.replace(lambda t: isinstance(t, sp.Mod), lambda t: t.args[0])
    e = sp.expand(sp.nsimplify(e, rational=True))
    out = 1
    rest = e
    for s_, x_ in zip(shift_syms, xs):
        k = e.coeff(s_)
        if not sp.nsimplify(k).is_Integer:
            raise ValueError(f"non-integer multiplicity {k} of {s_}")
        out = out * x_ ** int(sp.nsimplify(k))
        rest = sp.expand(rest - k * s_)
    if sp.simplify(rest) != 0:
        raise ValueError(f"shift {shift_expr} is not a combination of the rule's shifts (rest {rest})")
    return out


def numeric_replay_iterate(n_terms, order, with_period):
    import numpy as np
    m_ = mod_()
    rng = np.random.default_rng(5)
    rule = np.stack([rng.normal(size=n_terms), rng.uniform(-2, 2, size=n_terms)]).T
    w = 3.0
    period = 2 * np.pi if with_period else None
    out = m_._iterate_shift_rule(rule.copy(), order, period=period)
    lhs = np.sum(out[:, 0] * np.exp(1j * w * out[:, 1]))
    rhs = np.sum(rule[:, 0] * np.exp(1j * w * rule[:, 1])) ** order
    return dict(confirmed=bool(abs(lhs - rhs) > TOL), observed=float(abs(lhs - rhs)), inputs=dict(rule=rule.tolist(), order=order, period=period, w=w))


def iterate_obligation(n_terms, order, with_period):
    name = f"C35/general_shift_rules:_iterate_shift_rule/{n_terms}-terms-order-{order}-{'period' if with_period else 'no-period'}"

    def fn():
        import sympy as sp
        rule = sym_rule("", n_terms)
        T = sp.Symbol("T", positive=True)
        out = mod_()._iterate_shift_rule(rule.copy(), order, period=T if with_period else None)
        cs, ss = list(rule[:, 0]), list(rule[:, 1])
        xs = [sp.Symbol(f"x{i}") for i in range(n_terms)]
        if out.shape != (n_terms ** order, 2):
            return Outcome(REFUTED, "sympy", f"shape {out.shape}", witness=dict(shape=list(out.shape)), replay=numeric_replay_iterate(n_terms, order, with_period))
        try:
            total = sum(c * monomial(s, ss, xs, T if with_period else None) for c, s in out)
        except ValueError as ex:
            return Outcome(REFUTED, "sympy", str(ex), witness=dict(detail=str(ex)), replay=numeric_replay_iterate(n_terms, order, with_period))
        diff = sp.expand(total - sum(c * x for c, x in zip(cs, xs)) ** order)
        if diff == 0:
            return Outcome(DISCHARGED, "sympy", f"sum_j C_j e^(i w S_j) == (sum_i c_i e^(i w s_i))^{order} as a polynomial identity ({n_terms ** order} terms)")
        return Outcome(REFUTED, "sympy", f"difference {str(diff)[:200]}", witness=dict(difference=str(diff)[:400]),
                       replay=numeric_replay_iterate(n_terms, order, with_period))
    return Obligation(name, "post", fn, func=(GSR, "_iterate_shift_rule"), size_bounded=True, timeout=600,
                      sample="real function on symbolic rules: iterated rule == n-th power of the first-order rule")


def iterate_mult_obligation(n_terms, order):
    name = f"C35/general_shift_rules:_iterate_shift_rule_with_multipliers/{n_terms}-terms-order-{order}"

    def fn():
        import sympy as sp
        rule = sym_rule("", n_terms, with_mult=True)
        out = mod_()._iterate_shift_rule(rule.copy(), order, period=None)
        # the operator D f(x) = sum_i c_i f(m_i x + s_i) applied `order` times: terms (prod c, prod m, affine shift)
        expected = []
        for combo in itertools.product(range(n_terms), repeat=order):
            c, m, s = 1, 1, 0
            for i in combo:                     # next application: x -> m_i * x + s_i composed after the previous ones
                c, m, s = c * rule[i, 0], m * rule[i, 1], s * rule[i, 1] + rule[i, 2]
            expected.append((sp.expand(c), sp.expand(m), sp.expand(s)))
        got = [tuple(sp.expand(sp.nsimplify(x, rational=True)) for x in row) for row in out]
        if sorted(map(str, got)) == sorted(map(str, expected)):
            return Outcome(DISCHARGED, "sympy", f"{len(got)} (coefficient, multiplier, shift) triples equal the {order}-fold composition")
        return Outcome(REFUTED, "sympy", "triples differ from the composition", witness=dict(got=[str(g) for g in got][:8]),
                       replay=dict(confirmed=None, note="symbolic mismatch of the term list"))
    return Obligation(name, "post", fn, func=(GSR, "_iterate_shift_rule_with_multipliers"), size_bounded=True, timeout=600,
                      sample="real function on symbolic rules with multipliers")


def combine_obligation(shape):
    name = f"C35/general_shift_rules:_combine_shift_rules/{'x'.join(map(str, shape))}-terms"

    def fn():
        import numpy as np
        import sympy as sp
        rules = [sym_rule(f"r{k}_", n) for k, n in enumerate(shape)]
        out = mod_()._combine_shift_rules([r.copy() for r in rules])
        xs = [[sp.Symbol(f"x{k}_{i}") for i in range(n)] for k, n in enumerate(shape)]
        if out.shape != (int(np.prod(shape)), 1 + len(shape)):
            return Outcome(REFUTED, "sympy", f"shape {out.shape}", witness=dict(shape=list(out.shape)), replay=dict(confirmed=None, note="shape"))
        total = 0
        try:
            for row in out:
                term = row[0]
                for k in range(len(shape)):
                    term = term * monomial(row[1 + k], list(rules[k][:, 1]), xs[k], None)
                total = total + term
        except ValueError as ex:
            return Outcome(REFUTED, "sympy", str(ex), witness=dict(detail=str(ex)), replay=numeric_replay_combine(shape))
        prod = 1
        for k in range(len(shape)):
            prod = prod * sum(c * x for c, x in zip(rules[k][:, 0], xs[k]))
        diff = sp.expand(total - prod)
        if diff == 0:
            return Outcome(DISCHARGED, "sympy", "combined rule == product of the per-axis sums (tensor product), polynomial identity")
        return Outcome(REFUTED, "sympy", f"difference {str(diff)[:200]}", witness=dict(difference=str(diff)[:400]), replay=numeric_replay_combine(shape))
    return Obligation(name, "post", fn, func=(GSR, "_combine_shift_rules"), size_bounded=True, timeout=600,
                      sample="real function on symbolic rules: mixed-partial rule == tensor product of the per-axis rules")


def numeric_replay_combine(shape):
    import numpy as np
    rng = np.random.default_rng(3)
    rules = [np.stack([rng.normal(size=n), rng.uniform(-2, 2, size=n)]).T for n in shape]
    out = mod_()._combine_shift_rules([r.copy() for r in rules])
    ws = [1.0 + k for k in range(len(shape))]
    lhs = np.sum(out[:, 0] * np.exp(1j * sum(w * out[:, 1 + k] for k, w in enumerate(ws))))
    rhs = 1.0
    for r, w in zip(rules, ws):
        rhs = rhs * np.sum(r[:, 0] * np.exp(1j * w * r[:, 1]))
    return dict(confirmed=bool(abs(lhs - rhs) > TOL), observed=float(abs(lhs - rhs)), inputs=dict(rules=[r.tolist() for r in rules], w=ws))


def period_obligation(tier):
    """frequencies_to_period: w * period is an integer multiple of 2 pi for every frequency (precondition of the modular shift merging)"""
    name = "C35/general_shift_rules:frequencies_to_period/w*period-in-2piZ[integer-and-decimal-spectra]"

    def fn():
        import math
        from fractions import Fraction
        m_ = mod_()
        per = getattr(m_.frequencies_to_period, "__wrapped__", m_.frequencies_to_period)
        spectra = [c for n in (1, 2, 3) for c in itertools.combinations(range(1, 10 if tier == "quick" else 14), n)]
        decs = [Fraction(k, d) for d in (2, 4, 5, 8, 10, 20, 100, 1000, 100000) for k in (1, 3, 7, 9, 11)]
        spectra += [tuple(float(x) for x in c) for n in (1, 2, 3) for c in itertools.combinations(sorted(set(decs))[:: 3 if tier == "quick" else 1], n)][:400]
        n_ok = 0
        for sp_ in spectra:
            fr = [Fraction(x).limit_denominator(10 ** 6) for x in sp_]
            g = fr[0]
            for x in fr[1:]:
                g = Fraction(math.gcd(g.numerator * x.denominator, x.numerator * g.denominator), g.denominator * x.denominator)
            T = float(per(tuple(sp_)))
            if abs(T * float(g) / (2 * math.pi) - 1) > 1e-12 or any((x / g).denominator != 1 for x in fr):
                return Outcome(REFUTED, "native+fractions", f"period {T} of {sp_}: exact gcd {g}", witness=dict(frequencies=list(map(float, sp_))),
                               replay=dict(confirmed=True, observed=T, expected=2 * math.pi / float(g), inputs=dict(frequencies=list(map(float, sp_)))))
            n_ok += 1
        return Outcome(DISCHARGED, "native+fractions", f"{n_ok} integer / decimal spectra: period == 2 pi / gcd exactly (so every w * period is in 2 pi Z)")
    return Obligation(name, "post", fn, func=(GSR, "frequencies_to_period"), size_bounded=True, timeout=600,
                      sample="enumerated integer spectra (<= 3 frequencies) and decimal spectra with <= 5 decimals")


# ======================================================================================================================= (d) + (2): bounded
def process_shifts_obligation(tier, seed):
    name = "C35/general_shift_rules:process_shifts/merging-preserves-the-rule[bounded]"

    def fn():
        import numpy as np
        from fractions import Fraction
        rng = np.random.default_rng(77 + seed)
        m_ = mod_()
        n_cases = 0
        for _ in range(400 if tier == "quick" else 4000):
            n = int(rng.integers(1, 8))
            cols = int(rng.choice([2, 3]))
            shifts_pool = rng.integers(-6, 7, size=4) / 8.0                    # dyadic values: float sums are exact
            rule = np.zeros((n, cols))
            rule[:, 0] = rng.integers(-8, 9, size=n) / 16.0
            rule[:, -1] = rng.choice(shifts_pool, size=n)
            if cols == 3:
                rule[:, 1] = rng.choice([1.0, 2.0, -1.0], size=n)
            before = {}
            for row in rule:
                if row[0] != 0:
                    key = tuple(Fraction(float(x)) for x in row[1:])
                    before[key] = before.get(key, 0) + Fraction(float(row[0]))
            before = {k: v for k, v in before.items()}
            out = m_.process_shifts(rule.copy())
            after = {}
            for row in out:
                key = tuple(Fraction(float(x)) for x in row[1:])
                if key in after:
                    return bad(rule, out, "duplicate shift in the output")
                after[key] = Fraction(float(row[0]))
            # merged coefficients that cancel to 0 may be kept as an explicit 0 term: compare the non-zero content
            if {k: v for k, v in before.items() if v != 0} != {k: v for k, v in after.items() if v != 0}:
                return bad(rule, out, "content changed")
            keys = [(abs(float(r[-1])), -np.sign(float(r[-1]))) for r in out]
            if keys != sorted(keys):
                return bad(rule, out, "not sorted by |shift| (positive first)")
            n_cases += 1
        return Outcome(DISCHARGED, "native+fractions", f"{n_cases} random rules with exactly representable entries: per-shift coefficient sums "
                       "preserved exactly, no duplicate shifts, sorted", extra=dict(bounded=True))

    def bad(rule, out, why):
        return Outcome(REFUTED, "native+fractions", why, witness=dict(rule=rule.tolist()),
                       replay=dict(confirmed=True, observed=out.tolist(), inputs=dict(rule=rule.tolist()), note=why), extra=dict(bounded=True))
    return Obligation(name, "standin", fn, func=(GSR, "process_shifts"), bounded=True, timeout=600, sample="exact comparison on dyadic inputs")


def exact_period(freqs):
    import math
    from fractions import Fraction
    fr = [Fraction(x).limit_denominator(10 ** 6) for x in freqs]
    g = fr[0]
    for x in fr[1:]:
        g = Fraction(math.gcd(g.numerator * x.denominator, x.numerator * g.denominator), g.denominator * x.denominator)
    return 2 * math.pi / float(g)


def period_is_right(freqs):
    m_ = mod_()
    per = getattr(m_.frequencies_to_period, "__wrapped__", m_.frequencies_to_period)
    return abs(float(per(tuple(freqs))) / exact_period(freqs) - 1) < 1e-12


def well_conditioned_shifts(freqs, rng):
    import numpy as np
    n = len(freqs)
    for _ in range(200):
        sh = np.sort(rng.uniform(0.2, 2.9, size=n) / max(1.0, min(freqs)))
        if n > 1 and np.min(np.diff(sh)) < 0.15 / max(1.0, min(freqs)):
            continue
        mat = np.sin(np.outer(sh, freqs))
        if np.linalg.cond(mat) < 50:
            return tuple(float(x) for x in sh)
    return None


def strata(tier, seed):
    """(label, list of (frequencies, shifts, order))"""
    import numpy as np
    rng = np.random.default_rng(1000 + seed)
    big = tier != "quick"
    out = {}
    out["multiples-of-f_min,default-shifts"] = [(tuple(float(f0 * m) for m in range(1, R + 1)), None, o)
                                                for R in range(1, 7 if big else 6) for f0 in (1.0, 0.5, 2.0, 0.37, 3.0) for o in (1, 2, 3)]
    cd = [(2., 3.), (3., 5.), (0.5, 1.5, 2.5), (2., 3., 4.), (3., 5., 7.), (1.5, 2.0), (4., 7., 10.)]
    out["constant-difference-non-multiples,custom-shifts"] = []
    out["generic-non-equidistant,custom-shifts"] = []
    out["rational,custom-shifts"] = []
    for fs in cd:
        for o in (1, 2):
            sh = well_conditioned_shifts(fs, rng)
            if sh:
                out["constant-difference-non-multiples,custom-shifts"].append((fs, sh, o))
    for _ in range(40 if big else 16):
        n = int(rng.integers(1, 4))
        fs = tuple(sorted(float(x) for x in np.round(rng.uniform(0.3, 4.0, size=n), 3)))
        if len(set(fs)) < n or (n > 1 and min(np.diff(fs)) < 0.2):
            continue
        sh = well_conditioned_shifts(fs, rng)
        if sh:
            out["generic-non-equidistant,custom-shifts"].append((fs, sh, int(rng.integers(1, 4))))
    for fs in [(1 / 3, 2 / 3), (0.25, 0.75, 1.0), (2 / 3, 1.0), (1 / 3,), (0.2, 0.6), (1.25, 2.5), (1 / 7, 3 / 7)]:
        for o in (1, 2, 3):
            sh = well_conditioned_shifts(fs, rng)
            if sh:
                out["rational,custom-shifts"].append((fs, sh, o))
    # default shifts on spectra that are not multiples of f_min and whose default sine matrix is well conditioned
    out["non-multiples,default-shifts(well-conditioned)"] = []
    for fs in cd + [(1., 2.5), (1., 1.7, 2.9), (2., 3., 5.), (0.7, 1.9), (1., 2., 3.5)]:
        n = len(fs)
        sh = (2 * np.arange(1, n + 1) - 1) * np.pi / (2 * n * min(fs))
        if abs(np.linalg.det(-4 * np.sin(np.outer(sh, fs)))) > 1e-2:
            for o in (1, 2):
                out["non-multiples,default-shifts(well-conditioned)"].append((fs, None, o))
    return out


def sweep_obligation(label, cases):
    name = f"C35/general_shift_rules:generate_shift_rule/float-sweep[{label}][bounded]"

    def fn():
        m_ = mod_()
        gen = getattr(m_.generate_shift_rule, "__wrapped__", m_.generate_shift_rule)
        worst, n = 0.0, 0
        skipped = 0
        for fs, sh, o in cases:
            with warnings.catch_warnings():
                warnings.simplefilter("ignore")
                rule = gen(tuple(fs), shifts=sh, order=o)
            err = defect(rule, fs, o)
            scale = max(1.0, max(fs) ** o)
            if err > TOL * scale:
                return Outcome(REFUTED, "native", f"defect {err:.3e} for frequencies {fs}, shifts {sh}, order {o}", witness=dict(frequencies=list(fs), shifts=sh, order=o),
                               replay=dict(confirmed=True, observed=err, inputs=dict(frequencies=list(fs), shifts=None if sh is None else list(sh), order=o)),
                               extra=dict(bounded=True))
            worst, n = max(worst, err / scale), n + 1
        if n == 0:
            return Outcome(FAULT, "native", "empty stratum")
        return Outcome(DISCHARGED, "native", f"{n} rules, largest relative defect {worst:.2e} (tolerance {TOL})"
                       "", extra=dict(bounded=True))
    return Obligation(name, "standin", fn, func=(GSR, "generate_shift_rule"), bounded=True, timeout=900, sample=f"{len(cases)} float instances")


def multi_sweep_obligation(tier, seed):
    name = "C35/general_shift_rules:generate_multi_shift_rule/float-sweep[bounded]"

    def fn():
        import numpy as np
        m_ = mod_()
        rng = np.random.default_rng(2000 + seed)
        cases = [([(1.,), (1.,)], None, None), ([(1., 2.), (1.,)], None, [1, 2]), ([(0.5, 1.0), (1., 2., 3.)], None, None),
                 ([(1.,), (2.,), (1., 2.)], None, None), ([(1., 2.), (1., 2.)], None, [2, 1])]
        for fs in [((2., 3.), (1.,)), ((1., 2.5), (0.7, 1.9))]:
            cases.append(([tuple(x) for x in fs], [well_conditioned_shifts(x, rng) for x in fs], [1, 1]))
            cases.append(([tuple(x) for x in fs], [well_conditioned_shifts(x, rng) for x in fs], [2, 1]))
        worst = 0.0
        for fsets, shifts, orders in cases:
            with warnings.catch_warnings():
                warnings.simplefilter("ignore")
                rule = m_.generate_multi_shift_rule([tuple(f) for f in fsets], shifts=shifts, orders=orders)
            od = orders or [1] * len(fsets)
            err = defect_multi(rule, fsets, od)
            scale = max(1.0, float(np.prod([max(f) ** o for f, o in zip(fsets, od)])))
            if err > TOL * scale:
                return Outcome(REFUTED, "native", f"defect {err:.3e} for {fsets}, shifts {shifts}, orders {orders}", witness=dict(frequencies=[list(f) for f in fsets], orders=orders),
                               replay=dict(confirmed=True, observed=err, inputs=dict(frequencies=[list(f) for f in fsets], shifts=shifts, orders=orders)), extra=dict(bounded=True))
            worst = max(worst, err / scale)
        return Outcome(DISCHARGED, "native", f"{len(cases)} multi-parameter rules, largest relative defect {worst:.2e}", extra=dict(bounded=True))
    return Obligation(name, "standin", fn, func=(GSR, "generate_multi_shift_rule"), bounded=True, timeout=900, sample="mixed partial derivatives, 2-3 parameters")


F34_INPUTS = [(1.0, 3.0), (0.5, 1.5), (1.0, 2.0, 4.0)]


def f34_obligation(freqs):
    name = f"C35/general_shift_rules:generate_shift_rule/default-shifts-singular[freqs={','.join(map(str, freqs))}]"

    def fn():
        m_ = mod_()
        gen = getattr(m_.generate_shift_rule, "__wrapped__", m_.generate_shift_rule)
        caught = []
        with warnings.catch_warnings(record=True) as ws:
            warnings.simplefilter("always")
            try:
                rule = gen(tuple(freqs), shifts=None, order=1)
            except Exception as ex:  # pylint: disable=broad-except
                return Outcome(DISCHARGED, "native", f"rejected with {type(ex).__name__} (an input that cannot be served raises)", extra=dict(bounded=True))
            caught = [str(x.message)[:80] for x in ws]
        err = defect(rule, freqs, 1)
        if err <= TOL * max(1.0, max(freqs)):
            return Outcome(DISCHARGED, "native", f"defect {err:.2e}", extra=dict(bounded=True))
        return Outcome(REFUTED, "native", f"returns a rule with defect {err:.3f} (warnings: {caught})", witness=dict(frequencies=list(freqs), shifts=None, order=1),
                       replay=dict(confirmed=True, observed=err, inputs=dict(frequencies=list(freqs), shifts=None, order=1), warnings=caught), extra=dict(bounded=True))
    return Obligation(name, "standin", fn, func=(GSR, "generate_shift_rule"), bounded=True, finding="F34", timeout=300,
                      sample="default shifts make the sine matrix singular: the property demands an exact rule or an exception")


F36_INPUTS = [((1.015,), (2.748332987342298,), 3), ((2.3,), (1.1,), 3)]


def f35_period_obligation():
    name = "C35/general_shift_rules:frequencies_to_period/decimal-frequencies-truncated[1.015,0.29,2.3]"

    def fn():
        import math
        m_ = mod_()
        per = getattr(m_.frequencies_to_period, "__wrapped__", m_.frequencies_to_period)
        for f in (1.015, 0.29, 2.3, 1.1, 0.5, 0.125):
            T = float(per((f,)))
            if abs(T * f / (2 * math.pi) - 1) > 1e-12:
                return Outcome(REFUTED, "native", f"frequencies_to_period(({f},)) == {T}, 2*pi/{f} == {2 * math.pi / f}", witness=dict(frequencies=[f]),
                               replay=dict(confirmed=True, observed=T, expected=2 * math.pi / f, inputs=dict(frequencies=[f])), extra=dict(bounded=True))
        return Outcome(DISCHARGED, "native", "periods of the probed decimal frequencies are 2*pi/f", extra=dict(bounded=True))
    return Obligation(name, "standin", fn, func=(GSR, "frequencies_to_period"), bounded=True, timeout=300,
                      sample="np.int64(np.round(f, 5) * 10**5) truncates 101499.99999999999 to 101499")


def f35_rule_obligation(freqs, shifts, order):
    name = f"C35/general_shift_rules:generate_shift_rule/truncated-period[freqs={','.join(map(str, freqs))},order={order}]"

    def fn():
        m_ = mod_()
        gen = getattr(m_.generate_shift_rule, "__wrapped__", m_.generate_shift_rule)
        rule = gen(tuple(freqs), shifts=shifts, order=order)
        err = defect(rule, freqs, order)
        if err <= TOL * max(1.0, max(freqs) ** order):
            return Outcome(DISCHARGED, "native", f"defect {err:.2e}", extra=dict(bounded=True))
        return Outcome(REFUTED, "native", f"defect {err:.3e}", witness=dict(frequencies=list(freqs), shifts=list(shifts), order=order),
                       replay=dict(confirmed=True, observed=err, inputs=dict(frequencies=list(freqs), shifts=list(shifts), order=order)), extra=dict(bounded=True))
    return Obligation(name, "standin", fn, func=(GSR, "generate_shift_rule"), bounded=True, timeout=300,
                      sample="higher-order rule whose shifts are reduced modulo a truncated period")


def build(tier, seed):
    plan = Plan("C35", level="other")
    try:
        import pennylane  # noqa: F401
    except Exception:  # pylint: disable=broad-except
        pass
    plan.explanation = ("Exactness of a shift rule is the finite system sum_i c_i e^(i w s_i) == (i w)^n over the spectrum.  The real body of "
                        "_get_shift_rule (from the working tree's AST) is executed on exact scalars through a numpy shim and the system is "
                        "decided modulo a cyclotomic polynomial; the real _iterate_shift_rule / _combine_shift_rules run on sympy symbols and "
                        "the power / tensor-product identities are decided by polynomial expansion; float behaviour is a labelled bounded sweep.")
    plan.trusted_base = ["sympy (polynomial arithmetic, cyclotomic polynomials)", "numpy object-array semantics (elementwise python operators)",
                         "the numpy shim used for (a): pi, arange, concatenate, stack, exact sin at multiples of pi/4R, allclose as exact equality, "
                         "qp.math.sort/stack as exact sorting -- the rest of the function body is the repository's own code"]
    plan.assumptions = ["(a) the equidistant branch is selected by np.allclose on floats exactly when the spectrum is f_min*(1..R) (exact equality in the shim)",
                        "(b) e^(i w (u mod T)) == e^(i w u) requires w*T in 2 pi Z: checked for frequencies_to_period on enumerated integer spectra and "
                        "decimal spectra with <= 5 decimals; spectra with more decimals get a ROUNDED period (np.round(.., 5)) -- covered only by the sweep",
                        "exactness is stated on exponentials e^(i w x); trigonometric polynomials with the spectrum are their linear combinations"]
    plan.assumed_contracts = ["np.gcd.reduce is the greatest common divisor", "linalg_solve / np.linalg.det (non-equidistant branch): only exercised by the bounded sweep"]
    plan.dropped = ["docstrings, functools.cache / lru_cache decorators (the undecorated bodies are executed)"]
    plan.size_bounds = ["(a) R = 1..5 frequencies; (b) rules with 2 and 4 terms, orders 2 and 3 (4 terms: order 2 and 3), with multipliers 2 terms; "
                        "(c) 2x2, 2x4 and 2x2x2 terms; period check: integer spectra of <= 3 frequencies below 10 (14 thorough), decimal spectra"]
    for R in range(1, 6):
        plan.add(closed_form_obligation(R))
    for n_terms, order in ((2, 2), (2, 3), (4, 2), (4, 3)):
        for with_period in (False, True):
            plan.add(iterate_obligation(n_terms, order, with_period))
    plan.add(iterate_mult_obligation(2, 2))
    plan.add(iterate_mult_obligation(2, 3))
    for shape in ((2, 2), (2, 4), (2, 2, 2)):
        plan.add(combine_obligation(shape))
    plan.add(period_obligation(tier))
    plan.add(process_shifts_obligation(tier, seed))
    for label, cases in strata(tier, seed).items():
        plan.add(sweep_obligation(label, cases))
    plan.add(multi_sweep_obligation(tier, seed))
    for freqs in F34_INPUTS:
        plan.add(f34_obligation(freqs))
    plan.add(f35_period_obligation())
    for freqs, shifts, order in F36_INPUTS:
        plan.add(f35_rule_obligation(freqs, shifts, order))
    for q in ("_get_shift_rule", "_iterate_shift_rule", "_iterate_shift_rule_with_multipliers", "_combine_shift_rules", "frequencies_to_period",
              "process_shifts", "generate_shift_rule", "generate_multi_shift_rule"):
        plan.fn_under_contract(GSR, q)
    plan.unverified = ["the non-equidistant branch of _get_shift_rule (float linear solve) beyond the bounded sweep; conditioning of user-supplied shifts",
                       "default shifts that make the sine matrix singular (open finding F34: a warning and a wrong rule instead of an exception)",
                       "spectra with more than 5 decimals at order > 1 (rounded period)", "generate_shifted_tapes / param_shift use of the rules, eigvals_to_frequencies"]
    return plan
