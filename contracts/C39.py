"""C39 Jacobian-product utilities compute the contraction they claim.

Contract (from the property statement): compute_vjp_single / compute_vjp_multi / compute_jvp_single / compute_jvp_multi and the
tape-level vjp / jvp / batch_vjp / batch_jvp return the contraction of the explicit Jacobian with the cotangent / tangent:
        vjp[k]  = sum_m sum_i dy[m][i] * J[m][k][i]                jvp[m][i] = sum_k J[m][k][i] * t[k]
for every measurement-shape class, single / multiple parameters, single / multiple measurements, shot vectors (sum / tuple over
the copies), zero and partially zero cotangents, tapes without trainable parameters, and both reductions of the batch forms.

E2: the REAL functions are executed on numpy object arrays whose entries are independent symbolic scalars (one symbol per
Jacobian / cotangent / tangent entry); results are compared with the explicit contraction as polynomials (normal form) -- i.e.
for ALL values -- including the result's shape.  Size-bounded in the enumerated shape classes (dimensions <= 3).
The tape-level functions get a gradient_fn that returns placeholder tapes and a processing function yielding the symbolic
Jacobian; symbolic cotangents behave like abstract tracers: |x| comparisons raise TypeError, which is exactly the case the
code's own `except (AttributeError, TypeError, ...)` handles.
"""
import itertools

import numpy as np

from vf.common import Plan, Obligation, Outcome, DISCHARGED, REFUTED, UNDECIDED, FAULT

VJP = "pennylane/gradients/vjp.py"
JVP = "pennylane/gradients/jvp.py"


def build(tier, seed):
    from vf.symx.oblig import identity_obligation
    plan = Plan("C39", level="other")        # every obligation is size-bounded (all values, enumerated shapes): not a proof of the unbounded statement
    plan.explanation = ("the real vjp/jvp utilities are run on object arrays of independent symbolic scalars; every result entry and "
                        "the result shape are compared with the explicit contraction as polynomials (normal form), per shape class")
    plan.trusted_base = ["vf/symx exact ring + Sym scalar", "numpy / autoray structural operations on object arrays (reshape, stack, "
                         "matmul, tensordot, squeeze) executed as they are"]
    plan.assumptions = ["numpy interface; symbolic entries are real scalars", "abs()/allclose on a symbolic cotangent raises TypeError "
                        "(abstract value), which the code's own except clause turns into the general path"]
    dims = [(), (1,), (2,), (3,)] if tier == "thorough" else [(), (2,), (3,)]
    pars = [1, 2, 3]
    plan.size_bounds.append(f"measurement shapes {dims}, 1-3 trainable parameters, 1-3 measurements, shot vectors of 2 copies, batches of <= 3 tapes")

    def arr(env, name, shape, wrap=True):
        """array of the given shape whose entries are the symbols/floats env[name_i_j]"""
        if shape == ():
            v = env[name]
            return np.array(v) if isinstance(v, float) else v          # natively: a 0-d array, as the gradient transforms produce
        a = np.empty(shape, dtype=object)
        for idx in np.ndindex(*shape):
            a[idx] = env[name + "_" + "_".join(map(str, idx))]
        if all(isinstance(x, float) for x in a.flat):
            return a.astype(float)
        from vf.symx.scalar import symarray
        return symarray(a) if wrap else a

    def names_of(name, shape):
        return [name] if shape == () else [name + "_" + "_".join(map(str, idx)) for idx in np.ndindex(*shape)]

    def flat(x):
        """flatten a result (array / scalar / nested tuple / None) to a 1-D object list, prefixed by its shape signature"""
        if x is None:
            return [-1.0]
        if isinstance(x, (tuple, list)):
            out = [1000.0 + len(x)]
            for y in x:
                out += flat(y)
            return out
        a = np.asarray(x, dtype=object)
        return [float(a.ndim)] + [float(s) for s in a.shape] + list(a.reshape(-1))

    def entries(env, name, shape):
        return [env[n] for n in names_of(name, shape)]

    def dot(u, v):
        acc = 0
        for x, y in zip(u, v):
            acc = acc + x * y
        return acc

    def asarray(vals, shape):
        a = np.empty(len(vals), dtype=object)
        for i, v in enumerate(vals):
            a[i] = v
        return a.reshape(shape) if shape != () else a.reshape(())

    def add(name, func, names, traced, reference, finding=None):
        plan.add(identity_obligation(name, "post", names, lambda S: np.array(flat(traced(S)), dtype=object),
                                     lambda S: np.array(flat(reference(S)), dtype=object),
                                     native=lambda env: np.array([complex(z) for z in flat(traced({k: float(v) for k, v in env.items()}))]),
                                     func=func, size_bounded=True, seed=seed, timeout=240, finding=finding,
                                     sample="real function on symbolic arrays == explicit contraction (entries and shape)"))

    from pennylane.gradients.vjp import compute_vjp_single, compute_vjp_multi
    from pennylane.gradients.jvp import compute_jvp_single, compute_jvp_multi
    for q in ("compute_vjp_single", "compute_vjp_multi", "vjp", "batch_vjp", "_all_close_to_zero"):
        plan.fn_under_contract(VJP, q)
    for q in ("compute_jvp_single", "compute_jvp_multi", "jvp", "batch_jvp", "_single_measurement_zero"):
        plan.fn_under_contract(JVP, q)

    # ---- compute_vjp_single ---------------------------------------------------------------------------------------------------------
    for d in dims:
        nm = names_of("dy", d) + names_of("j", d)
        add(f"C39/vjp:compute_vjp_single/one-param/meas{list(d)}", (VJP, "compute_vjp_single"), nm,
            lambda S, d=d: compute_vjp_single(arr(S, "dy", d), arr(S, "j", d)),
            lambda S, d=d: asarray([dot(entries(S, "dy", d), entries(S, "j", d))], (1,)))
        for P in pars:
            nm = names_of("dy", d) + [n for k in range(P) for n in names_of(f"j{k}", d)]
            add(f"C39/vjp:compute_vjp_single/{P}-params-tuple/meas{list(d)}", (VJP, "compute_vjp_single"), nm,
                lambda S, d=d, P=P: compute_vjp_single(arr(S, "dy", d), tuple(arr(S, f"j{k}", d) for k in range(P))),
                lambda S, d=d, P=P: asarray([dot(entries(S, "dy", d), entries(S, f"j{k}", d)) for k in range(P)], (P,)))
    add("C39/vjp:compute_vjp_single/no-jacobian", (VJP, "compute_vjp_single"), ["dy"], lambda S: compute_vjp_single(S["dy"], None), lambda S: None)
    add("C39/vjp:compute_vjp_single/no-trainable-array", (VJP, "compute_vjp_single"), ["dy"],
        lambda S: compute_vjp_single(S["dy"], np.zeros((0,))), lambda S: np.zeros((1, 0)))
    add("C39/vjp:compute_vjp_single/no-trainable-tuple", (VJP, "compute_vjp_single"), ["dy"],
        lambda S: compute_vjp_single(S["dy"], ()), lambda S: np.zeros((1, 0)))

    # ---- compute_vjp_multi / compute_jvp_* : measurement lists of mixed shapes ---------------------------------------------------------
    meas_lists = [[(), (2,)], [(2,), ()], [(), ()], [(3,), (2,), ()], [(1,), (3,)], [(2,), (2,), (2,)]]
    if tier != "thorough":
        meas_lists = meas_lists[:4]
    for ml in meas_lists:
        tag = "+".join(str(list(d)) for d in ml).replace(" ", "")
        for P in pars:
            def jac_multi(S, ml=ml, P=P):
                if P == 1:
                    return tuple(arr(S, f"j{m}_p0", d) for m, d in enumerate(ml))
                return tuple(tuple(arr(S, f"j{m}_p{k}", d) for k in range(P)) for m, d in enumerate(ml))
            jn = [n for m, d in enumerate(ml) for k in range(P) for n in names_of(f"j{m}_p{k}", d)]
            dn = [n for m, d in enumerate(ml) for n in names_of(f"dy{m}", d)]
            add(f"C39/vjp:compute_vjp_multi/{P}-params/meas{tag}", (VJP, "compute_vjp_multi"), dn + jn,
                lambda S, ml=ml, P=P, jm=jac_multi: compute_vjp_multi(tuple(arr(S, f"dy{m}", d) for m, d in enumerate(ml)), jm(S)),
                lambda S, ml=ml, P=P: asarray([sum((dot(entries(S, f"dy{m}", d), entries(S, f"j{m}_p{k}", d)) for m, d in enumerate(ml)), 0)
                                               for k in range(P)], (P,)))
            tn = names_of("t", (P,))
            add(f"C39/jvp:compute_jvp_multi/{P}-params/meas{tag}", (JVP, "compute_jvp_multi"), tn + jn,
                lambda S, ml=ml, P=P, jm=jac_multi: compute_jvp_multi(arr(S, "t", (P,)), jm(S)),
                lambda S, ml=ml, P=P: tuple(asarray([dot([x[i] for x in [entries(S, f"j{m}_p{k}", d) for k in range(P)]], entries(S, "t", (P,)))
                                                     for i in range(int(np.prod(d)) if d else 1)], d) for m, d in enumerate(ml)))
    add("C39/vjp:compute_vjp_multi/no-jacobian", (VJP, "compute_vjp_multi"), ["dy"], lambda S: compute_vjp_multi((S["dy"],), None), lambda S: None)
    add("C39/jvp:compute_jvp_multi/no-jacobian", (JVP, "compute_jvp_multi"), ["t"], lambda S: compute_jvp_multi(S["t"], None), lambda S: None)

    # ---- compute_jvp_single ---------------------------------------------------------------------------------------------------------------
    for d in dims:
        add(f"C39/jvp:compute_jvp_single/one-param/meas{list(d)}", (JVP, "compute_jvp_single"), names_of("t", (1,)) + names_of("j", d),
            lambda S, d=d: compute_jvp_single(arr(S, "t", (1,)), arr(S, "j", d)),
            lambda S, d=d: asarray([x * S["t_0"] for x in entries(S, "j", d)], d))
        for P in pars:
            jn = [n for k in range(P) for n in names_of(f"j{k}", d)]
            add(f"C39/jvp:compute_jvp_single/{P}-params-tuple/meas{list(d)}", (JVP, "compute_jvp_single"), names_of("t", (P,)) + jn,
                lambda S, d=d, P=P: compute_jvp_single(arr(S, "t", (P,)), tuple(arr(S, f"j{k}", d) for k in range(P))),
                lambda S, d=d, P=P: asarray([dot([entries(S, f"j{k}", d)[i] for k in range(P)], entries(S, "t", (P,)))
                                             for i in range(int(np.prod(d)) if d else 1)], d))
    add("C39/jvp:compute_jvp_single/no-jacobian", (JVP, "compute_jvp_single"), ["t"], lambda S: compute_jvp_single(S["t"], None), lambda S: None)

    # ---- tape level: vjp / jvp / batch_vjp / batch_jvp with a symbolic gradient_fn ------------------------------------------------------------
    def tape_level():
        import pennylane as qp
        from pennylane.gradients.vjp import vjp, batch_vjp
        from pennylane.gradients.jvp import jvp, batch_jvp
        return qp, vjp, batch_vjp, jvp, batch_jvp

    class abstract_abs:
        """symbolic values are abstract: |x| (hence allclose) raises TypeError, as for tracers"""

        def __enter__(self):
            from vf.symx.scalar import Sym
            self.S, self.old = Sym, Sym.__abs__

            def _abs(s):
                raise TypeError("abs of an abstract (symbolic) value")
            Sym.__abs__ = _abs

        def __exit__(self, *a):
            self.S.__abs__ = self.old

    def mk_tape(qp, nparams, ml, shots=None):
        ops = [qp.RX(0.1 * (k + 1), 0) if k % 2 == 0 else qp.RY(0.1 * (k + 1), 1) for k in range(nparams)] or [qp.Hadamard(0)]
        ms = [qp.expval(qp.Z(0)) if d == () else qp.probs(wires=list(range({2: 1, 4: 2}[int(np.prod(d))]))) for d in ml]
        return qp.tape.QuantumScript(ops, ms, shots=shots)

    def jac_for(S, pref, ml, P, multi):
        if multi:
            return tuple((arr(S, f"{pref}j{m}_p0", d) if P == 1 else tuple(arr(S, f"{pref}j{m}_p{k}", d) for k in range(P))) for m, d in enumerate(ml))
        d = ml[0]
        return arr(S, f"{pref}j0_p0", d) if P == 1 else tuple(arr(S, f"{pref}j0_p{k}", d) for k in range(P))

    def jac_names(pref, ml, P):
        return [n for m, d in enumerate(ml) for k in range(P) for n in names_of(f"{pref}j{m}_p{k}", d)]

    def expected_vjp(S, pref, ml, P):
        return asarray([sum((dot(entries(S, f"{pref}dy{m}", d), entries(S, f"{pref}j{m}_p{k}", d)) for m, d in enumerate(ml)), 0) for k in range(P)], (P,))

    def dy_for(S, pref, ml, multi):
        return tuple(arr(S, f"{pref}dy{m}", d) for m, d in enumerate(ml)) if multi else arr(S, f"{pref}dy0", ml[0])

    def dy_names(pref, ml):
        return [n for m, d in enumerate(ml) for n in names_of(f"{pref}dy{m}", d)]

    tape_cfgs = [([()], 1), ([()], 2), ([(2,)], 2), ([(), (2,)], 2), ([(2,), ()], 1), ([(), (4,)], 3)]
    for ml, P in tape_cfgs:
        multi = len(ml) > 1
        tag = f"{P}-params/meas{'+'.join(str(list(d)) for d in ml)}".replace(" ", "")

        def run_vjp(S, ml=ml, P=P, multi=multi):
            qp, vjp, _, _, _ = tape_level()
            tape = mk_tape(qp, P, ml)
            with abstract_abs():
                g, fn = vjp(tape, dy_for(S, "", ml, multi), lambda t: ([t.copy(), t.copy()], lambda res: jac_for(S, "", ml, P, multi)))
                out = fn([0.0, 0.0])
            return (len(g), out)
        add(f"C39/vjp:vjp/{tag}", (VJP, "vjp"), dy_names("", ml) + jac_names("", ml, P), run_vjp,
            lambda S, ml=ml, P=P: (2, expected_vjp(S, "", ml, P)))

        def run_vjp_shots(S, ml=ml, P=P, multi=multi):
            qp, vjp, _, _, _ = tape_level()
            tape = mk_tape(qp, P, ml, shots=(10, 10))
            with abstract_abs():
                dy = tuple(dy_for(S, f"c{c}", ml, multi) for c in range(2))
                g, fn = vjp(tape, dy, lambda t: ([t.copy()], lambda res: tuple(jac_for(S, f"c{c}", ml, P, multi) for c in range(2))))
                out = fn([0.0])
            return (len(g), out)
        add(f"C39/vjp:vjp/shot-vector/{tag}", (VJP, "vjp"), [n for c in range(2) for n in dy_names(f"c{c}", ml) + jac_names(f"c{c}", ml, P)], run_vjp_shots,
            lambda S, ml=ml, P=P: (1, expected_vjp(S, "c0", ml, P) + expected_vjp(S, "c1", ml, P)))

        def run_vjp_zero(S, ml=ml, P=P, multi=multi):
            qp, vjp, _, _, _ = tape_level()
            tape = mk_tape(qp, P, ml)
            dy = tuple(np.zeros(d) for d in ml) if multi else np.zeros(ml[0])
            g, fn = vjp(tape, dy, lambda t: (_ for _ in ()).throw(AssertionError("gradient_fn must not be needed for a zero cotangent")))
            return (len(g), fn([]))
        add(f"C39/vjp:vjp/zero-cotangent/{tag}", (VJP, "vjp"), ["unused"], run_vjp_zero, lambda S, P=P: (0, np.zeros(P)))

        def run_jvp(S, ml=ml, P=P, multi=multi):
            qp, _, _, jvp, _ = tape_level()
            tape = mk_tape(qp, P, ml)
            with abstract_abs():
                g, fn = jvp(tape, arr(S, "t", (P,)), lambda t: ([t.copy()], lambda res: jac_for(S, "", ml, P, multi)))
                out = fn([0.0])
            return (len(g), out)

        def exp_jvp(S, ml=ml, P=P, multi=multi, pref=""):
            parts = tuple(asarray([dot([entries(S, f"{pref}j{m}_p{k}", d)[i] for k in range(P)], entries(S, "t", (P,)))
                                   for i in range(int(np.prod(d)) if d else 1)], d) for m, d in enumerate(ml))
            return parts if multi else parts[0]
        add(f"C39/jvp:jvp/{tag}", (JVP, "jvp"), names_of("t", (P,)) + jac_names("", ml, P), run_jvp, lambda S, e=exp_jvp: (1, e(S)))

        def run_jvp_shots(S, ml=ml, P=P, multi=multi):
            qp, _, _, jvp, _ = tape_level()
            tape = mk_tape(qp, P, ml, shots=(10, 10))
            with abstract_abs():
                g, fn = jvp(tape, arr(S, "t", (P,)), lambda t: ([t.copy()], lambda res: tuple(jac_for(S, f"c{c}", ml, P, multi) for c in range(2))))
                out = fn([0.0])
            return (len(g), out)
        add(f"C39/jvp:jvp/shot-vector/{tag}", (JVP, "jvp"), names_of("t", (P,)) + [n for c in range(2) for n in jac_names(f"c{c}", ml, P)], run_jvp_shots,
            lambda S, e=exp_jvp: (1, tuple(e(S, pref=f"c{c}") for c in range(2))))

        def run_jvp_zero(S, ml=ml, P=P, multi=multi):
            qp, _, _, jvp, _ = tape_level()
            tape = mk_tape(qp, P, ml)
            g, fn = jvp(tape, np.zeros(P), lambda t: (_ for _ in ()).throw(AssertionError("gradient_fn must not be needed for a zero tangent")))
            return (len(g), fn([]))
        add(f"C39/jvp:jvp/zero-tangent/{tag}", (JVP, "jvp"), ["unused"], run_jvp_zero,
            lambda S, ml=ml, multi=multi: (0, tuple(np.zeros(d) for d in ml) if multi else np.zeros(ml[0])))

    # partially zero cotangent: the zero part must not switch off the non-zero part
    def run_vjp_partial(S):
        qp, vjp, _, _, _ = tape_level()
        ml, P = [(), (2,)], 2
        tape = mk_tape(qp, P, ml)
        with abstract_abs():
            dy = (np.zeros(()), arr(S, "dy1", (2,)))
            g, fn = vjp(tape, dy, lambda t: ([t.copy()], lambda res: jac_for(S, "", ml, P, True)))
            out = fn([0.0])
        return (len(g), out)
    add("C39/vjp:vjp/partially-zero-cotangent", (VJP, "vjp"), names_of("dy1", (2,)) + jac_names("", [(), (2,)], 2), run_vjp_partial,
        lambda S: (1, asarray([dot(entries(S, "dy1", (2,)), entries(S, f"j1_p{k}", (2,))) for k in range(2)], (2,))))

    # tapes without trainable parameters
    def run_vjp_notrain(S):
        qp, vjp, _, _, _ = tape_level()
        tape = mk_tape(qp, 0, [()])
        g, fn = vjp(tape, S["dy"], lambda t: (_ for _ in ()).throw(AssertionError("no gradient needed")))
        return (len(g), fn([]))
    add("C39/vjp:vjp/no-trainable-parameters", (VJP, "vjp"), ["dy"], run_vjp_notrain, lambda S: (0, None))

    # batch forms: three tapes (one without trainable parameters), both reductions
    for reduction in ("append", "extend"):
        cfg = [([()], 2), None, ([(), (2,)], 1)]

        def run_bvjp(S, reduction=reduction, cfg=cfg):
            qp, _, batch_vjp, _, _ = tape_level()
            tapes, dys = [], []
            for b, c in enumerate(cfg):
                if c is None:
                    tapes.append(mk_tape(qp, 0, [()]))
                    dys.append(np.ones(()))
                else:
                    ml, P = c
                    tapes.append(mk_tape(qp, P, ml))
                    dys.append(dy_for(S, f"b{b}", ml, len(ml) > 1))
            counter = {"i": 0}
            order = [b for b, c in enumerate(cfg) if c is not None]

            def gfn(t):
                b = order[counter["i"]]
                counter["i"] += 1
                ml, P = cfg[b]
                return [t.copy()] * (b + 1), (lambda res, b=b, ml=ml, P=P: (res, jac_for(S, f"b{b}", ml, P, len(ml) > 1))[1])
            with abstract_abs():
                g, fn = batch_vjp(tapes, dys, gfn, reduction=reduction)
                out = fn([float(i) for i in range(len(g))])
            return (len(g), out)

        def exp_bvjp(S, reduction=reduction, cfg=cfg):
            parts = [None if c is None else expected_vjp(S, f"b{b}", c[0], c[1]) for b, c in enumerate(cfg)]
            if reduction == "append":
                return (4, parts)
            return (4, [x for p_ in parts if p_ is not None for x in p_])
        nm = [n for b, c in enumerate(cfg) if c is not None for n in dy_names(f"b{b}", c[0]) + jac_names(f"b{b}", c[0], c[1])]
        add(f"C39/vjp:batch_vjp/reduction-{reduction}", (VJP, "batch_vjp"), nm, run_bvjp, exp_bvjp)

        def run_bjvp(S, reduction=reduction):
            qp, _, _, _, batch_jvp = tape_level()
            cfgj = [([()], 2), ([(), (2,)], 1)]
            tapes = [mk_tape(qp, P, ml) for ml, P in cfgj]
            tangents = [arr(S, f"b{b}t", (P,)) for b, (ml, P) in enumerate(cfgj)]
            counter = {"i": 0}

            def gfn(t):
                b = counter["i"]
                counter["i"] += 1
                ml, P = cfgj[b]
                return [t.copy()] * (b + 1), (lambda res, b=b, ml=ml, P=P: jac_for(S, f"b{b}", ml, P, len(ml) > 1))
            with abstract_abs():
                g, fn = batch_jvp(tapes, tangents, gfn, reduction=reduction)
                out = fn([0.0] * len(g))
            return (len(g), out)

        def exp_bjvp(S, reduction=reduction):
            cfgj = [([()], 2), ([(), (2,)], 1)]
            parts = []
            for b, (ml, P) in enumerate(cfgj):
                pp = tuple(asarray([dot([entries(S, f"b{b}j{m}_p{k}", d)[i] for k in range(P)], entries(S, f"b{b}t", (P,)))
                                    for i in range(int(np.prod(d)) if d else 1)], d) for m, d in enumerate(ml))
                parts.append(pp if len(ml) > 1 else pp[0])
            if reduction == "append":
                return (3, parts)
            flat_parts = []
            for p_ in parts:
                flat_parts.extend(p_ if isinstance(p_, tuple) else [p_])
            return (3, flat_parts)
        cfgj = [([()], 2), ([(), (2,)], 1)]
        nmj = [n for b, (ml, P) in enumerate(cfgj) for n in names_of(f"b{b}t", (P,)) + jac_names(f"b{b}", ml, P)]
        # F25 (known finding, open): with reduction="extend" a tape whose JVP is a 0-d array (single scalar measurement) makes
        # list.extend raise TypeError; the property's reading (concatenate the JVPs) is kept as the finding instance
        add(f"C39/jvp:batch_jvp/reduction-{reduction}", (JVP, "batch_jvp"), nmj, run_bjvp, exp_bjvp, finding="F25" if reduction == "extend" else None)

    plan.unverified = ["classical_jacobian beyond the bounded autograd stand-in (torch / jax / tf branches, expand_fn, trainable_only=False)", "interfaces other than numpy (autograd / torch / jax "
                       "branches of _convert, tensordot fallbacks)", "gradient_fn itself (the Jacobian is an input here)",
                       "measurement shapes beyond the enumerated classes"]

    # ---- concrete integer cotangents (one-hot vectors, as autodiff frameworks pass them) against a symbolic Jacobian --------------------
    # The Jacobian must not be converted to the cotangent's integer dtype before the contraction (independent seed C39_1).
    def int_cotangents(d):
        n = int(np.prod(d)) if d else 1
        pats = [[1 if i == k else 0 for i in range(n)] for k in range(n)] + [[2 - 3 * i for i in range(n)]]
        return [np.array(pt, dtype=np.int64).reshape(d) for pt in pats]
    for d in dims:
        for ci, dyv in enumerate(int_cotangents(d)):
            for P in (1, 2):
                jn = [n for k in range(P) for n in names_of(f"j{k}", d)]
                add(f"C39/vjp:compute_vjp_single/int-cotangent{ci}/{P}-params/meas{list(d)}", (VJP, "compute_vjp_single"), jn,
                    lambda S, d=d, P=P, dyv=dyv: compute_vjp_single(dyv, tuple(arr(S, f"j{k}", d) for k in range(P)) if P > 1 else arr(S, "j0", d)),
                    lambda S, d=d, P=P, dyv=dyv: asarray([dot([int(v) for v in dyv.reshape(-1)], entries(S, f"j{k}", d)) for k in range(P)], (P,)))
    for ml in meas_lists[:2]:
        tag = "+".join(str(list(d)) for d in ml).replace(" ", "")
        dys = tuple(int_cotangents(d)[-1] for d in ml)
        for P in (1, 2):
            jn = [n for m, d in enumerate(ml) for k in range(P) for n in names_of(f"j{m}_p{k}", d)]
            add(f"C39/vjp:compute_vjp_multi/int-cotangent/{P}-params/meas{tag}", (VJP, "compute_vjp_multi"), jn,
                lambda S, ml=ml, P=P, dys=dys: compute_vjp_multi(dys, tuple(arr(S, f"j{m}_p0", d) for m, d in enumerate(ml)) if P == 1 else
                                                                 tuple(tuple(arr(S, f"j{m}_p{k}", d) for k in range(P)) for m, d in enumerate(ml))),
                lambda S, ml=ml, P=P, dys=dys: asarray([sum((dot([int(v) for v in dys[m].reshape(-1)], entries(S, f"j{m}_p{k}", d))
                                                             for m, d in enumerate(ml)), 0) for k in range(P)], (P,)))
    plan.size_bounds.append("integer cotangents: the one-hot vectors and one mixed-sign pattern per measurement shape")

    # ---- classical_jacobian: bounded native stand-in (autograd interface; the function traces a QNode, out of reach of both engines) ----
    def classical_jacobian_standin():
        import random as _random
        import pennylane as qp
        from pennylane import numpy as pnp
        import autograd
        rng = _random.Random(seed * 7919 + 39)
        dev = qp.device("default.qubit", wires=2)

        def pre(x, y, z):                      # the classical pre-processing, written once here and used inside the QNode
            return [pnp.sin(x) * y, x * y ** 2, z[0] * x, 2 * z[1] + y]

        @qp.qnode(dev)
        def circuit(x, y, z):
            g = pre(x, y, z)
            qp.RX(g[0], wires=0)
            qp.RY(g[1], wires=1)
            qp.CNOT(wires=[0, 1])
            qp.RZ(g[2], wires=1)
            qp.RX(g[3], wires=0)
            return qp.expval(qp.Z(0) @ qp.Z(1))

        def expected(a, args):
            return autograd.jacobian(lambda *aa: pnp.stack(pre(*aa)), a)(*args)
        tried = 0
        for _ in range(3):
            args = (pnp.array(rng.uniform(-2, 2), requires_grad=True), pnp.array(rng.uniform(-2, 2), requires_grad=True),
                    pnp.array([rng.uniform(-2, 2), rng.uniform(-2, 2)], requires_grad=True))
            for argnum in (None, 0, 1, 2, [0], [1], [0, 2], [2, 0], [0, 1, 2]):
                tried += 1
                try:
                    got = qp.gradients.classical_jacobian(circuit, argnum=argnum)(*args)
                except Exception as ex:  # pylint: disable=broad-except
                    return Outcome(REFUTED, "native-standin", f"classical_jacobian(argnum={argnum}) raised {type(ex).__name__}: {ex}",
                                   witness=dict(argnum=argnum, args=[np.asarray(a).tolist() for a in args]), replay=dict(confirmed=True))
                sel = [0, 1, 2] if argnum is None else ([argnum] if isinstance(argnum, int) else list(argnum))
                want = [np.asarray(expected(a, args), dtype=float) for a in sel]
                if isinstance(argnum, int):
                    ok = not isinstance(got, tuple) and np.shape(got) == want[0].shape and np.allclose(np.asarray(got, dtype=float), want[0], atol=1e-9)
                else:
                    ok = isinstance(got, tuple) and len(got) == len(sel) and all(
                        np.shape(g) == w.shape and np.allclose(np.asarray(g, dtype=float), w, atol=1e-9) for g, w in zip(got, want))
                if not ok:
                    return Outcome(REFUTED, "native-standin", f"classical_jacobian(argnum={argnum}) is not the Jacobian of the classical "
                                   f"pre-processing w.r.t. the selected argument(s): got {str(got)[:300]}, expected {str(want)[:300]}",
                                   witness=dict(argnum=argnum, args=[np.asarray(a).tolist() for a in args]),
                                   replay=dict(confirmed=True, observed=str(got)[:400], expected=str(want)[:400]))
        return Outcome(DISCHARGED, f"native-standin(bounded: {tried} calls, autograd interface, 3 seeded points x 9 argnum forms)", "no mismatch")
    CJ = "pennylane/gradients/classical_jacobian.py"
    plan.add(Obligation("C39/classical_jacobian:classical_jacobian/argnum-forms-autograd[bounded]", "post", classical_jacobian_standin,
                        func=(CJ, "classical_jacobian"), bounded=True, timeout=600,
                        sample="bounded stand-in: Jacobian of the classical pre-processing for argnum None / int / sequences"))
    plan.fn_under_contract(CJ, "classical_jacobian")
    return plan
