"""C30 Sample post-processing is exact -- the counts dictionaries (measurements/counts.py).

Functions: CountsMP.{process_counts, _map_counts, _include_all_outcomes} and _remove_unobserved_outcomes.
SIZE-BOUNDED in the number of device wires (N <= 3), the measured wire tuple and the SET of outcome strings present in the input
dictionary; every count VALUE is a symbolic integer and (eigenvalue branch) every eigenvalue a symbolic integer, so all patterns of
zero / non-zero counts and of equal / distinct eigenvalues are covered.  Outcome strings are concrete python strings: indexing, join,
format and int(s, 2) are executed by python itself on them.

  _map_counts          mapped[s] == sum of counts[o] over the outcomes o whose restriction to the measured wires (positions of the wires
                       in wire_order) is s; no other key; hence totals are preserved
  process_counts       all_outcomes=True : the key set is all 2^n strings, value = that sum (0 for unobserved strings)
                       all_outcomes=False: exactly the strings with a non-zero sum remain
                       eigenvalues       : result[v] == sum of mapped[s] over s with eigvals[int(s, 2)] == v; keys are eigenvalues,
                                           all of them (all_outcomes) / exactly those with a non-zero sum
"""
import itertools

import z3

from vf.common import Plan
from vf.pyvc.engine import World, T, Int, Label, Rec, PyList, Unsupp, RaiseExc, to_int_term, is_intlike
from vf.pyvc.contract import FnContract, Case, obligations_for, lemma
from vf.pyvc.interp import Model
from vf.pyvc import spec as S
from vf.pyvc import xmaps as X
from vf.pyvc.spec import And, Or, Not, Implies, If

CNT = "pennylane/measurements/counts.py"


class ConstCall(Model):
    """a bound method without arguments that returns a fixed value (self.eigvals())"""

    def __init__(self, value):
        self.value = value

    def vf_call(self, interp, args, kwargs):
        return self.value

    def snapshot(self):
        return self

    def concretize_value(self, world, model):
        from vf.pyvc.engine import concretize
        return None if self.value is None else concretize(world, self.value, model)


def all_strings(n):
    return ["".join(bits) for bits in itertools.product("01", repeat=n)]


def restrict(outcome, positions):
    return "".join(outcome[i] for i in positions)


def build(tier, seed):
    plan = Plan("C30", level="other")
    try:
        import pennylane  # noqa: F401  (loaded once here: the forked obligation workers replay counter-models on the real code)
    except Exception:  # pylint: disable=broad-except
        pass
    plan.explanation = ("The real bodies of CountsMP.process_counts / _map_counts / _include_all_outcomes and _remove_unobserved_outcomes are "
                        "executed symbolically on dictionaries with concrete outcome strings and symbolic integer counts (and symbolic "
                        "eigenvalues); every resulting dictionary is compared key by key with the sum formula written from the statement.")
    plan.trusted_base = ["vf/pyvc encoder (Python subset semantics) incl. vf/pyvc/xmaps.py (dicts with symbolic integer keys, string "
                         "operations on concrete strings executed by CPython)", "z3 (linear integer arithmetic)"]
    plan.assumptions = ["python int = mathematical integer (numpy int64 counts: no overflow)",
                        "eigenvalues are compared as exact numbers (integers in the symbolic run; float eigenvalues behave the same as dictionary "
                        "keys as long as equal eigenvalues are bit-identical)",
                        "self.wires / wire_order behave as tuples of hashable labels (Wires iteration, len)"]
    plan.assumed_contracts = ["math.int64(0) == 0", "self.eigvals(): the eigenvalue array given with the measurement (None when there is none)"]
    plan.dropped = ["docstrings, annotations"]

    w = World(CNT, classes={"CountsMP": {"all_outcomes": Int, "wires": Int, "eigvals": Int}}, functions=["_remove_unobserved_outcomes"],
              extra_builtins={"math.int64": lambda it, a, k: a[0]})
    CLS = w.classes["CountsMP"]

    # ---- inputs -----------------------------------------------------------------------------------------------------------------------------
    def mk_self(wires, all_outcomes, with_eig):
        def mk(ctx, name):
            eig = PyList([z3.Int(ctx.fresh_name(f"eig{i}")) for i in range(2 ** len(wires))]) if with_eig else None
            return Rec(CLS, {"all_outcomes": all_outcomes, "wires": tuple(wires), "eigvals": ConstCall(eig)})
        return mk

    def gen_self(wires, all_outcomes, with_eig):
        return lambda rng: {"__class__": "CountsMP", "all_outcomes": all_outcomes, "wires": list(wires),
                            "eigvals": [rng.choice([1, -1, 0, 2]) for _ in range(2 ** len(wires))] if with_eig else None}

    def mk_counts(keys):
        return lambda ctx, name: {k: z3.Int(ctx.fresh_name(f"{name}[{k}]")) for k in keys}

    def gen_counts(keys):
        return lambda rng: {k: rng.choice([0, 0, 1, 2, 3, 7]) for k in keys}

    def real_mp(fields):
        import numpy as np
        from pennylane.measurements.counts import CountsMP
        eig = fields.get("eigvals")
        return CountsMP(eigvals=None if eig is None else np.array(eig), wires=list(fields["wires"]), all_outcomes=bool(fields["all_outcomes"]))
    w.stub_realize = {"CountsMP": real_mp}

    def native_call(name):
        def call(mod, a):
            from pennylane.wires import Wires
            args = [a[k] for k in a if k != "self"]
            if "wire_order" in a:
                args = [Wires(list(x)) if k == "wire_order" else x for k, x in ((k, a[k]) for k in a if k != "self")]
            return getattr(a["self"], name)(*args)
        return call

    # ---- specification ------------------------------------------------------------------------------------------------------------------------
    def positions(wires, wire_order):
        return [list(wire_order).index(x) for x in wires]

    def expected_mapped(counts, wires, wire_order):
        """string -> (sum term, observed?) : the restriction sums"""
        pos = positions(wires, wire_order)
        out = {}
        for o, c in counts.items():
            s_ = restrict(o, pos)
            out[s_] = (out[s_] + c) if s_ in out else c
        return out

    def values_of(d):
        if isinstance(d, X.ODictV):
            return [(k, v) for k, _, v in d.entries]
        return list(d.items())

    def dict_matches(r, expected, keep):
        """r has exactly the keys k of `expected` with keep(k) and the expected values (concrete string keys)"""
        if isinstance(r, X.ODictV) or not isinstance(r, dict):
            return False
        goals = []
        for k, v in expected.items():
            if k in r:
                goals.append(r[k] == v)
                goals.append(keep(k, v))
            else:
                goals.append(Not(keep(k, v)))
        goals.append(all(k in expected for k in r))
        return And(*goals)

    def map_post(o, r, nw):
        exp = expected_mapped(o.counts_to_map, o.self.wires, o.wire_order)
        tot_in, tot_out = 0, 0
        for v in o.counts_to_map.values():
            tot_in = tot_in + v
        for v in (r.values() if isinstance(r, dict) else []):
            tot_out = tot_out + v
        return And(dict_matches(r, exp, lambda k, v: True), tot_in == tot_out)

    def eig_list(self_):
        e = self_.eigvals
        e = e.value if isinstance(e, ConstCall) else e()
        if e is None:
            return None
        return e.items if isinstance(e, PyList) else [x.item() if hasattr(x, "item") else x for x in e]

    def process_post(o, r, nw):
        wires = list(o.self.wires)
        n = len(wires)
        exp = expected_mapped(o.counts, wires, o.wire_order)
        allo = bool(o.self.all_outcomes)
        full = {s_: exp.get(s_, 0) for s_ in all_strings(n)} if allo else exp
        eig = eig_list(o.self)
        if eig is None:
            return dict_matches(r, full, (lambda k, v: True) if allo else (lambda k, v: v != 0))
        # eigenvalue branch: the surviving strings contribute to their eigenvalue
        kept = full if allo else exp
        items = values_of(r)

        def total_for(val):
            t = 0
            for s_, c in kept.items():
                t = t + If(eig[int(s_, 2)] == val, c, 0)
            return t
        goals = []
        for k, v in items:
            goals.append(v == total_for(k))                                                 # value of every key
            goals.append(Or(*[k == e for e in eig]))                                         # every key is an eigenvalue
            if not allo:
                goals.append(v != 0)
        for a_, b_ in itertools.combinations([k for k, _ in items], 2):
            goals.append(a_ != b_)                                                           # keys are distinct
        for e in eig:                                                                        # which eigenvalues must appear
            present = Or(*[k == e for k, _ in items]) if items else False
            goals.append(present if allo else (present == (total_for(e) != 0)))
        return And(*goals)

    # ---- shapes ---------------------------------------------------------------------------------------------------------------------------------
    def key_sets(n_dev, quick):
        strs = all_strings(n_dev)
        subsets = [list(c) for k in range(len(strs) + 1) for c in itertools.combinations(strs, k)]
        if n_dev == 1:
            return subsets
        if n_dev == 2:
            return subsets if not quick else [s_ for i, s_ in enumerate(subsets) if i % 3 == 0 or len(s_) == 4]
        picks = [[], strs, ["000", "111"], ["010", "011", "110"], ["001", "100", "101", "111"], ["000", "001", "010", "100", "110"]]
        return picks if quick else picks + [["011"], ["101", "110"], strs[:4], strs[4:]]

    def wire_choices(n_dev):
        labels = list(range(n_dev))
        out = []
        for k in range(1, n_dev + 1):
            out += list(itertools.permutations(labels, k))
        return out
    quick = tier == "quick"
    proc_cases, map_cases = [], []
    for n_dev in (1, 2, 3):
        orders = [tuple(range(n_dev))] + ([(1, 0)] if n_dev == 2 else []) + ([(2, 0, 1)] if n_dev == 3 else [])
        for wire_order in orders:
            for wi, wires in enumerate(wire_choices(n_dev)):
                if quick and n_dev == 3 and wi % 2 == 1:
                    continue
                for ki, keys in enumerate(key_sets(n_dev, quick)):
                    if wire_order != tuple(range(n_dev)) and ki % 2 == 1:
                        continue
                    lab = f"N={n_dev} order={''.join(map(str, wire_order))} wires={''.join(map(str, wires))} keys={'.'.join(keys) or 'none'}"
                    base = {"counts": T("build", mk_counts(keys), gen=gen_counts(keys)),
                            "wire_order": T("const", tuple(wire_order))}
                    map_cases.append(Case(lab, {"self": T("build", mk_self(wires, False, False), gen=gen_self(wires, False, False)),
                                                "counts_to_map": base["counts"], "wire_order": base["wire_order"]},
                                          size_bounded=True, native_call=native_call("_map_counts"), ensures=map_post))
                    for allo in (False, True):
                        for with_eig in (False, True):
                            if with_eig and (len(wires) > 2 or (quick and ki % 2 == 1)):
                                continue
                            proc_cases.append(Case(lab + f" all_outcomes={allo} eigvals={'yes' if with_eig else 'none'}",
                                                   dict(self=T("build", mk_self(wires, allo, with_eig), gen=gen_self(wires, allo, with_eig)), **base),
                                                   size_bounded=True, max_paths=6000, native_call=native_call("process_counts"),
                                                   ensures=process_post))
    for fc in (FnContract(w, "CountsMP._map_counts", map_cases), FnContract(w, "CountsMP.process_counts", proc_cases)):
        X.use_xinterp(fc)
        plan.fn_under_contract(CNT, fc.qualname)
        for ob in obligations_for("C30", fc, tier):
            plan.add(ob)

    # ---- the two dictionary helpers on their own ---------------------------------------------------------------------------------------------------
    inc_cases, rem_cases = [], []
    for n in (1, 2, 3):
        strs = all_strings(n)
        sets_ = [[], strs] + ([["0"], ["1"]] if n == 1 else [strs[:1], strs[1:], strs[::2]])
        for keys in sets_:
            lab = f"n={n} keys={'.'.join(keys) or 'none'}"
            inc_cases.append(Case(lab, {"self": T("build", mk_self(tuple(range(n)), True, False), gen=gen_self(tuple(range(n)), True, False)),
                                        "outcome_counts": T("build", mk_counts(keys), gen=gen_counts(keys))},
                                  size_bounded=True, native_call=native_call("_include_all_outcomes"),
                                  ensures=lambda o, r, nw, strs=strs: And(r is None, dict_matches(
                                      nw.outcome_counts, {s_: o.outcome_counts.get(s_, 0) for s_ in strs}, lambda k, v: True))))
            rem_cases.append(Case(lab, {"outcome_counts": T("build", mk_counts(keys), gen=gen_counts(keys))}, size_bounded=True,
                                  ensures=lambda o, r, nw: dict_matches(nw.outcome_counts, dict(o.outcome_counts), lambda k, v: v != 0)))
    for fc in (FnContract(w, "CountsMP._include_all_outcomes", inc_cases), FnContract(w, "_remove_unobserved_outcomes", rem_cases)):
        X.use_xinterp(fc)
        plan.fn_under_contract(CNT, fc.qualname)
        for ob in obligations_for("C30", fc, tier):
            plan.add(ob)

    plan.size_bounds = ["device wires N <= 3; measured wires: every ordered selection of 1..N wires (every second one for N = 3 in the quick tier), "
                        "identity and one permuted wire_order; input key sets: all subsets for N = 1, all (every third in the quick tier) for "
                        "N = 2, 6 (10 thorough) hand-picked subsets for N = 3; eigenvalue branch for <= 2 measured wires; all count values "
                        "and eigenvalues symbolic",
                        "_include_all_outcomes / _remove_unobserved_outcomes: n <= 3, 4-5 key sets each"]
    plan.unverified = ["CountsMP.process_samples / _samples_to_counts (numpy array code), every other measurement's process_samples "
                       "(expval / var / probs / sample), mid-circuit measurement values",
                       "more than 3 device wires; float eigenvalues that are equal as numbers but not bit-identical",
                       "the base class's eigvals() (observable eigenvalues), Wires objects"]
    return plan
