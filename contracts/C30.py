"""C30 Sample post-processing is exact -- the counts dictionaries (measurements/counts.py).

Functions: CountsMP.{process_counts, _map_counts, _include_all_outcomes} and _remove_unobserved_outcomes.
SIZE-BOUNDED in the number of device wires (N <= 3), the measured wire tuple and the SET of outcome strings present in the input
dictionary; every count VALUE is a symbolic integer and (eigenvalue branch) every eigenvalue a symbolic integer, so all patterns of
zero / non-zero counts and of equal / distinct eigenvalues are covered.  Outcome strings are concrete python strings: indexing, join,
format and int(s, 2) are executed by python itself on them.

  _map_counts          mapped[s] == sum of counts[o] over the outcomes o whose restriction to the measured wires (positions of the wires
                       in wire_order) is s; no other key; hence totals are preserved
  process_counts       all_outcomes=True : the key set is all 2^n strings, value = that sum (0 for unobserved strings)
                       all_outcomes=False: exactly the strings with a non-zero sum remain
                       eigenvalues       : result[v] == sum of mapped[s] over s with eigvals[int(s, 2)] == v; keys are eigenvalues,
                                           all of them (all_outcomes) / exactly those with a non-zero sum
"""
import itertools

import z3

from vf.common import Plan
from vf.pyvc.engine import World, T, Int, Label, Rec, PyList, Unsupp, RaiseExc, to_int_term, is_intlike
from vf.pyvc.contract import FnContract, Case, obligations_for, lemma
from vf.pyvc.interp import Model
from vf.pyvc import spec as S
from vf.pyvc import xmaps as X
from vf.pyvc.spec import And, Or, Not, Implies, If

CNT = "pennylane/measurements/counts.py"


class ConstCall(Model):
    """a bound method without arguments that returns a fixed value (self.eigvals())"""

    def __init__(self, value):
        self.value = value

    def vf_call(self, interp, args, kwargs):
        return self.value

    def snapshot(self):
        return self

    def concretize_value(self, world, model):
        from vf.pyvc.engine import concretize
        return None if self.value is None else concretize(world, self.value, model)


def all_strings(n):
    return ["".join(bits) for bits in itertools.product("01", repeat=n)]


def restrict(outcome, positions):
    return "".join(outcome[i] for i in positions)


def build(tier, seed):
    plan = Plan("C30", level="other")
    try:
        import pennylane  # noqa: F401  (loaded once here: the forked obligation workers replay counter-models on the real code)
    except Exception:  # pylint: disable=broad-except
        pass
    plan.explanation = ("The real bodies of CountsMP.process_counts / _map_counts / _include_all_outcomes and _remove_unobserved_outcomes are "
                        "executed symbolically on dictionaries with concrete outcome strings and symbolic integer counts (and symbolic "
                        "eigenvalues); every resulting dictionary is compared key by key with the sum formula written from the statement.")
    plan.trusted_base = ["vf/pyvc encoder (Python subset semantics) incl. vf/pyvc/xmaps.py (dicts with symbolic integer keys, string "
                         "operations on concrete strings executed by CPython)", "z3 (linear integer arithmetic)"]
    plan.assumptions = ["python int = mathematical integer (numpy int64 counts: no overflow)",
                        "eigenvalues are compared as exact numbers (integers in the symbolic run; float eigenvalues behave the same as dictionary "
                        "keys as long as equal eigenvalues are bit-identical)",
                        "self.wires / wire_order behave as tuples of hashable labels (Wires iteration, len)"]
    plan.assumed_contracts = ["math.int64(0) == 0", "self.eigvals(): the eigenvalue array given with the measurement (None when there is none)"]
    plan.dropped = ["docstrings, annotations"]

    w = World(CNT, classes={"CountsMP": {"all_outcomes": Int, "wires": Int, "eigvals": Int}}, functions=["_remove_unobserved_outcomes"],
              extra_builtins={"math.int64": lambda it, a, k: a[0]})
    CLS = w.classes["CountsMP"]

    # ---- inputs -----------------------------------------------------------------------------------------------------------------------------
    def mk_self(wires, all_outcomes, with_eig):
        def mk(ctx, name):
            eig = PyList([z3.Int(ctx.fresh_name(f"eig{i}")) for i in range(2 ** len(wires))]) if with_eig else None
            return Rec(CLS, {"all_outcomes": all_outcomes, "wires": tuple(wires), "eigvals": ConstCall(eig)})
        return mk

    def gen_self(wires, all_outcomes, with_eig):
        return lambda rng: {"__class__": "CountsMP", "all_outcomes": all_outcomes, "wires": list(wires),
                            "eigvals": [rng.choice([1, -1, 0, 2]) for _ in range(2 ** len(wires))] if with_eig else None}

    def mk_counts(keys):
        return lambda ctx, name: {k: z3.Int(ctx.fresh_name(f"{name}[{k}]")) for k in keys}

    def gen_counts(keys):
        return lambda rng: {k: rng.choice([0, 0, 1, 2, 3, 7]) for k in keys}

    def real_mp(fields):
        import numpy as np
        from pennylane.measurements.counts import CountsMP
        eig = fields.get("eigvals")
        return CountsMP(eigvals=None if eig is None else np.array(eig), wires=list(fields["wires"]), all_outcomes=bool(fields["all_outcomes"]))
    w.stub_realize = {"CountsMP": real_mp}

    def native_call(name):
        def call(mod, a):
            from pennylane.wires import Wires
            args = [a[k] for k in a if k != "self"]
            if "wire_order" in a:
                args = [Wires(list(x)) if k == "wire_order" else x for k, x in ((k, a[k]) for k in a if k != "self")]
            return getattr(a["self"], name)(*args)
        return call

    # ---- specification ------------------------------------------------------------------------------------------------------------------------
    def positions(wires, wire_order):
        return [list(wire_order).index(x) for x in wires]

    def expected_mapped(counts, wires, wire_order):
        """string -> (sum term, observed?) : the restriction sums"""
        pos = positions(wires, wire_order)
        out = {}
        for o, c in counts.items():
            s_ = restrict(o, pos)
            out[s_] = (out[s_] + c) if s_ in out else c
        return out

    def values_of(d):
        if isinstance(d, X.ODictV):
            return [(k, v) for k, _, v in d.entries]
        return list(d.items())

    def dict_matches(r, expected, keep):
        """r has exactly the keys k of `expected` with keep(k) and the expected values (concrete string keys)"""
        if isinstance(r, X.ODictV) or not isinstance(r, dict):
            return False
        goals = []
        for k, v in expected.items():
            if k in r:
                goals.append(r[k] == v)
                goals.append(keep(k, v))
            else:
                goals.append(Not(keep(k, v)))
        goals.append(all(k in expected for k in r))
        return And(*goals)

    def map_post(o, r, nw):
        exp = expected_mapped(o.counts_to_map, o.self.wires, o.wire_order)
        tot_in, tot_out = 0, 0
        for v in o.counts_to_map.values():
            tot_in = tot_in + v
        for v in (r.values() if isinstance(r, dict) else []):
            tot_out = tot_out + v
        return And(dict_matches(r, exp, lambda k, v: True), tot_in == tot_out)

    def eig_list(self_):
        e = self_.eigvals
        e = e.value if isinstance(e, ConstCall) else e()
        if e is None:
            return None
        return e.items if isinstance(e, PyList) else [x.item() if hasattr(x, "item") else x for x in e]

    def process_post(o, r, nw):
        wires = list(o.self.wires)
        n = len(wires)
        exp = expected_mapped(o.counts, wires, o.wire_order)
        allo = bool(o.self.all_outcomes)
        full = {s_: exp.get(s_, 0) for s_ in all_strings(n)} if allo else exp
        eig = eig_list(o.self)
        if eig is None:
            return dict_matches(r, full, (lambda k, v: True) if allo else (lambda k, v: v != 0))
        # eigenvalue branch: the surviving strings contribute to their eigenvalue
        kept = full if allo else exp
        items = values_of(r)

        def total_for(val):
            t = 0
            for s_, c in kept.items():
                t = t + If(eig[int(s_, 2)] == val, c, 0)
            return t
        goals = []
        for k, v in items:
            goals.append(v == total_for(k))                                                 # value of every key
            goals.append(Or(*[k == e for e in eig]))                                         # every key is an eigenvalue
            if not allo:
                goals.append(v != 0)
        for a_, b_ in itertools.combinations([k for k, _ in items], 2):
            goals.append(a_ != b_)                                                           # keys are distinct
        for e in eig:                                                                        # which eigenvalues must appear
            present = Or(*[k == e for k, _ in items]) if items else False
            goals.append(present if allo else (present == (total_for(e) != 0)))
        return And(*goals)

    # ---- shapes ---------------------------------------------------------------------------------------------------------------------------------
    def key_sets(n_dev, quick):
        strs = all_strings(n_dev)
        subsets = [list(c) for k in range(len(strs) + 1) for c in itertools.combinations(strs, k)]
        if n_dev == 1:
            return subsets
        if n_dev == 2:
            return subsets if not quick else [s_ for i, s_ in enumerate(subsets) if i % 3 == 0 or len(s_) == 4]
        picks = [[], strs, ["000", "111"], ["010", "011", "110"], ["001", "100", "101", "111"], ["000", "001", "010", "100", "110"]]
        return picks if quick else picks + [["011"], ["101", "110"], strs[:4], strs[4:]]

    def wire_choices(n_dev):
        labels = list(range(n_dev))
        out = []
        for k in range(1, n_dev + 1):
            out += list(itertools.permutations(labels, k))
        return out
    quick = tier == "quick"
    proc_cases, map_cases = [], []
    for n_dev in (1, 2, 3):
        orders = [tuple(range(n_dev))] + ([(1, 0)] if n_dev == 2 else []) + ([(2, 0, 1)] if n_dev == 3 else [])
        for wire_order in orders:
            for wi, wires in enumerate(wire_choices(n_dev)):
                if quick and n_dev == 3 and wi % 2 == 1:
                    continue
                for ki, keys in enumerate(key_sets(n_dev, quick)):
                    if wire_order != tuple(range(n_dev)) and ki % 2 == 1:
                        continue
                    lab = f"N={n_dev} order={''.join(map(str, wire_order))} wires={''.join(map(str, wires))} keys={'.'.join(keys) or 'none'}"
                    base = {"counts": T("build", mk_counts(keys), gen=gen_counts(keys)),
                            "wire_order": T("const", tuple(wire_order))}
                    map_cases.append(Case(lab, {"self": T("build", mk_self(wires, False, False), gen=gen_self(wires, False, False)),
                                                "counts_to_map": base["counts"], "wire_order": base["wire_order"]},
                                          size_bounded=True, native_call=native_call("_map_counts"), ensures=map_post))
                    for allo in (False, True):
                        for with_eig in (False, True):
                            if with_eig and (len(wires) > 2 or (quick and ki % 2 == 1)):
                                continue
                            proc_cases.append(Case(lab + f" all_outcomes={allo} eigvals={'yes' if with_eig else 'none'}",
                                                   dict(self=T("build", mk_self(wires, allo, with_eig), gen=gen_self(wires, allo, with_eig)), **base),
                                                   size_bounded=True, max_paths=6000, native_call=native_call("process_counts"),
                                                   ensures=process_post))
    for fc in (FnContract(w, "CountsMP._map_counts", map_cases), FnContract(w, "CountsMP.process_counts", proc_cases)):
        X.use_xinterp(fc)
        plan.fn_under_contract(CNT, fc.qualname)
        for ob in obligations_for("C30", fc, tier):
            plan.add(ob)

    # ---- the two dictionary helpers on their own ---------------------------------------------------------------------------------------------------
    inc_cases, rem_cases = [], []
    for n in (1, 2, 3):
        strs = all_strings(n)
        sets_ = [[], strs] + ([["0"], ["1"]] if n == 1 else [strs[:1], strs[1:], strs[::2]])
        for keys in sets_:
            lab = f"n={n} keys={'.'.join(keys) or 'none'}"
            inc_cases.append(Case(lab, {"self": T("build", mk_self(tuple(range(n)), True, False), gen=gen_self(tuple(range(n)), True, False)),
                                        "outcome_counts": T("build", mk_counts(keys), gen=gen_counts(keys))},
                                  size_bounded=True, native_call=native_call("_include_all_outcomes"),
                                  ensures=lambda o, r, nw, strs=strs: And(r is None, dict_matches(
                                      nw.outcome_counts, {s_: o.outcome_counts.get(s_, 0) for s_ in strs}, lambda k, v: True))))
            rem_cases.append(Case(lab, {"outcome_counts": T("build", mk_counts(keys), gen=gen_counts(keys))}, size_bounded=True,
                                  ensures=lambda o, r, nw: dict_matches(nw.outcome_counts, dict(o.outcome_counts), lambda k, v: v != 0)))
    for fc in (FnContract(w, "CountsMP._include_all_outcomes", inc_cases), FnContract(w, "_remove_unobserved_outcomes", rem_cases)):
        X.use_xinterp(fc)
        plan.fn_under_contract(CNT, fc.qualname)
        for ob in obligations_for("C30", fc, tier):
            plan.add(ob)

    plan.size_bounds = ["device wires N <= 3; measured wires: every ordered selection of 1..N wires (every second one for N = 3 in the quick tier), "
                        "identity and one permuted wire_order; input key sets: all subsets for N = 1, all (every third in the quick tier) for "
                        "N = 2, 6 (10 thorough) hand-picked subsets for N = 3; eigenvalue branch for <= 2 measured wires; all count values "
                        "and eigenvalues symbolic",
                        "_include_all_outcomes / _remove_unobserved_outcomes: n <= 3, 4-5 key sets each"]
    plan.unverified = ["bin_size (binned statistics) of every process_samples; dtype= of SampleMP; abstract (jax-traced) sample arrays",
                       "more than 3 device wires / more than 3 shots (4 in the thorough tier); float eigenvalues that are equal as numbers but "
                       "not bit-identical; floating-point rounding of mean / var (exact real arithmetic in the symbolic runs)",
                       "the eigvals() of named observables (only a bounded pool of observables is run, with the real eigvals() as reference)"]
    sample_obligations(plan, tier)
    plan.explanation += (" process_samples of SampleMP / ExpectationMP / VarianceMP / CountsMP / ProbabilityMP (and process_raw_samples, "
                         "MeasurementProcess.eigvals / wires, MeasurementValue.items / wires / _merge underneath) are the REAL numpy code, run on "
                         "EVERY 0/1 sample array of each enumerated shape, with the eigenvalues (or the coefficients of a mid-circuit "
                         "measurement value c0*m0 + c1*m1 + c2*m0*m1 + c3) as symbolic reals (vf/symx/reals.py: z3 Real terms inside numpy "
                         "object arrays; every comparison the code makes -- np.array_equal(eigvals, [1, -1]), np.unique, dictionary key "
                         "equality -- forks the path, path conditions are checked to cover the parameter space); each path's result is "
                         "compared with direct arithmetic on the same samples (polynomial normal form, else z3), counter-models are "
                         "replayed on floats.")
    plan.trusted_base += ["vf/symx/bits.py + vf/symx/reals.py (symbolic scalars in numpy object arrays, path forking by re-execution, memoised "
                          "feasibility queries)", "numpy itself on object arrays (indexing, matmul, mean, var, unique, sort run natively)",
                          "z3 (real arithmetic; polynomial identities through simplify(som=True))"]
    plan.assumptions += ["eigenvalues / coefficients are exact reals in the symbolic runs (float rounding only enters through results that are "
                         "python floats: compared up to 1e-9)",
                         "basis-state convention taken from the statement's 'direct arithmetic': the first measured wire is the most "
                         "significant bit of the eigenvalue index; variance is the population variance mean((x - mean)^2)"]
    plan.size_bounds += ["process_samples (all measurement types): every 0/1 sample array of the shapes (shots, wires) in {(1,1),(2,1),(3,1),(2,2),"
                         "(2,3)} and batched (2,2,1),(2,1,2) [(3,2) for probs / raw samples only; thorough adds (3,2),(4,2),(3,3),(2,2,2),(2,2,3)], "
                         "wire_order (2,0,1)[:N] (thorough: also ('a',3,'q')), every ordered selection of measured wires (<= 2 wires for "
                         "eigenvalue-keyed counts and, quick tier, measurement values), shot_range None / (1,S) for 3 shots; eigenvalues and "
                         "coefficients symbolic, composite measurement values on <= 2 (thorough 3) measurements with both uid orders"]
    return plan


# =====================================================================================================================================================
# process_samples of every measurement type: the REAL numpy code run on all bit arrays of a shape with SYMBOLIC eigenvalues (vf/symx/reals.py)
# =====================================================================================================================================================
PRS = "pennylane/measurements/process_samples.py"
PROBS = "pennylane/measurements/probs.py"
EXPV = "pennylane/measurements/expval.py"
VARF = "pennylane/measurements/var.py"
SAMP = "pennylane/measurements/sample.py"
MVF = "pennylane/ops/mid_measure/measurement_value.py"
TOL = 1e-9


def _selections(labels, kmax=None):
    out = []
    for k in range(1, (kmax or len(labels)) + 1):
        out += list(itertools.permutations(labels, k))
    return out


def _all_bit_arrays(shape):
    import numpy as np
    n = 1
    for d in shape:
        n *= d
    for bits in itertools.product((0, 1), repeat=n):
        yield np.array(bits, dtype=np.int64).reshape(shape)


class Scn:
    """one scenario: measurement kind + how its eigenvalues arise + wires + shot range; `samples` is filled in per bit array"""

    def __init__(self, kind, eig, wire_order, wires, shot_range=None, all_outcomes=False, uid_order=None, op_list=False):
        self.kind, self.eig, self.wire_order, self.wires = kind, eig, tuple(wire_order), tuple(wires)
        self.shot_range, self.all_outcomes, self.uid_order, self.op_list = shot_range, all_outcomes, uid_order, op_list

    # number of symbolic real parameters
    def n_params(self):
        k = len(self.wires)
        if self.eig == "eigvals":
            return 2 ** k
        if self.eig == "mv" and not self.op_list:
            return {1: 2, 2: 4, 3: 6}[k]
        return 0

    def label(self):
        return (f"{self.kind} eig={self.eig} order={list(self.wire_order)} wires={list(self.wires)} shot_range={self.shot_range}"
                + (f" all_outcomes={self.all_outcomes}" if self.kind == "counts" else "")
                + (f" uids={self.uid_order}" if self.uid_order else "") + (" op=[list]" if self.op_list else ""))

    # ---- the arithmetic the measurement value stands for (used for the real object AND, on sample columns, for the specification)
    def mv_fn(self, c, b):
        k = len(self.wires)
        if k == 1:
            return c[0] * b[0] + c[1]
        if k == 2:
            return c[0] * b[0] + c[1] * b[1] + c[2] * (b[0] * b[1]) + c[3]
        return c[0] * b[0] + c[1] * b[1] + c[2] * b[2] + c[3] * (b[0] * b[1]) + c[4] * (b[1] * b[2]) + c[5]

    def build_mp(self, params):
        from pennylane.measurements import SampleMP, ExpectationMP, VarianceMP, CountsMP, ProbabilityMP
        from pennylane.ops import MeasurementValue, MidMeasure
        cls = {"sample": SampleMP, "expval": ExpectationMP, "var": VarianceMP, "counts": CountsMP, "probs": ProbabilityMP}[self.kind]
        kw = {"all_outcomes": self.all_outcomes} if self.kind == "counts" else {}
        if self.eig == "eigvals":
            return cls(eigvals=params, wires=list(self.wires), **kw)
        if self.eig == "none":
            return cls(wires=list(self.wires) if self.wires else None, **kw)
        uids = self.uid_order or list(range(len(self.wires)))
        ms = [MeasurementValue([MidMeasure(wires=w, meas_uid=f"u{u}")]) for w, u in zip(self.wires, uids)]
        if self.op_list:
            return cls(obs=ms, **kw)
        return cls(obs=self.mv_fn(params, ms), **kw)

    def call(self, mp, samples):
        from pennylane.wires import Wires
        kw = {} if self.shot_range is None else {"shot_range": self.shot_range}
        return mp.process_samples(samples, Wires(list(self.wire_order)), **kw)

    # ---- specification: direct arithmetic on the same samples (generic python arithmetic: works on SReal and on floats)
    def rows(self, samples2d):
        rows = [[int(x) for x in r] for r in samples2d]
        return rows if self.shot_range is None else rows[self.shot_range[0]:self.shot_range[1]]

    def cols(self):
        order = list(self.wire_order)
        return [order.index(x) for x in self.wires] if self.wires else list(range(len(order)))

    def shot_values(self, rows, params):
        cols = self.cols()
        if self.eig == "eigvals":
            return [params[int("".join(str(r[c]) for c in cols), 2)] for r in rows]
        if self.eig == "mv" and not self.op_list:
            return [self.mv_fn(params, [r[c] for c in cols]) for r in rows]
        return None

    def expected(self, samples, params):
        """nested lists (one level per batch axis) of the expected result; counts: list of (value, count-in-shots) data"""
        if samples.ndim == 3:
            return [self.expected(s, params) for s in samples]
        rows, cols = self.rows(samples), self.cols()
        n = len(rows)
        xs = self.shot_values(rows, params)
        if self.kind == "sample":
            return xs if xs is not None else [[r[c] for c in cols] for r in rows]
        if self.kind == "expval":
            return sum(xs[1:], xs[0]) / n
        if self.kind == "var":
            mean = sum(xs[1:], xs[0]) / n
            sq = [(x - mean) * (x - mean) for x in xs]
            return sum(sq[1:], sq[0]) / n
        strings = ["".join(str(r[c]) for c in cols) for r in rows]
        if self.kind == "probs":
            return [strings.count(format(i, f"0{len(cols)}b")) / n for i in range(2 ** len(cols))]
        if self.kind == "counts":
            if xs is None:
                keys = [format(i, f"0{len(cols)}b") for i in range(2 ** len(cols))]
                return {k: strings.count(k) for k in keys if self.all_outcomes or strings.count(k)}
            every = [params[i] for i in range(len(params))] if self.eig == "eigvals" else \
                [self.mv_fn(params, [int(b) for b in format(i, f"0{len(cols)}b")]) for i in range(2 ** len(cols))]
            return ("values", xs, every)
        raise AssertionError(self.kind)


def _flat(x):
    import numpy as np
    a = np.asarray(x, dtype=object) if not isinstance(x, np.ndarray) else x
    return a.shape, [a[idx] for idx in np.ndindex(*a.shape)] if a.shape else [a.item() if hasattr(a, "item") else a]


def _scn_goal(scn, got, exp, R, pc=()):
    """z3 goal `got equals exp` (True / False when decided syntactically); raises TypeError on entries that are no numbers"""
    import numpy as np
    if isinstance(exp, tuple) and exp and exp[0] == "values":                         # counts keyed by eigenvalues
        _, xs, every = exp
        if isinstance(got, list):
            return z3.BoolVal(False)
        if not isinstance(got, dict):
            return z3.BoolVal(False)
        keys = [(R.term_of(k), R.term_of(v)) for k, v in got.items()]
        xt, et = [R.term_of(x) for x in xs], [R.term_of(e) for e in every]
        goals = []
        for v in et + [k for k, _ in keys]:
            lhs = z3.Sum([z3.If(k == v, c, z3.RealVal(0)) for k, c in keys]) if keys else z3.RealVal(0)
            rhs = z3.Sum([z3.If(x == v, z3.RealVal(1), z3.RealVal(0)) for x in xt])
            goals.append(lhs == rhs)
        for k, c in keys:
            goals.append(z3.Or(*[k == e for e in et]))
            if not scn.all_outcomes:
                goals.append(c != 0)
        if scn.all_outcomes:
            for e in et:
                goals.append(z3.Or(*[k == e for k, _ in keys]) if keys else z3.BoolVal(False))
        return z3.And(*goals)
    if isinstance(exp, dict):
        if not isinstance(got, dict):
            return z3.BoolVal(False)
        g = {str(k): int(v) for k, v in got.items()}
        return z3.BoolVal(g == exp)
    if isinstance(got, dict):
        return z3.BoolVal(False)
    sg, fg = _flat(got)
    se, fe = _flat(exp)
    if tuple(sg) != tuple(se):
        return z3.BoolVal(False)
    goals = []
    for a, b in zip(fg, fe):
        if a is b:
            continue
        ta, tb = R.term_of(a), R.term_of(b)
        if ta.eq(tb):
            continue
        is_float = isinstance(a, (float, np.floating)) or isinstance(b, float)
        d = R.difference_value(ta, tb, pc)                 # polynomial normal form: decides identities without the solver
        if d is not None and (abs(d) <= TOL if is_float else d == 0):
            continue
        if is_float:
            goals.append(z3.And(ta - tb <= TOL, tb - ta <= TOL))
        else:
            goals.append(ta == tb)
    return z3.And(*goals) if goals else z3.BoolVal(True)


def _native_check(scn, samples, values):
    """run the REAL code on floats and compare with direct arithmetic; returns None when fine, else a description"""
    import numpy as np
    params = np.array([float(v) for v in values], dtype=float) if values is not None and len(values) else None
    try:
        got = scn.call(scn.build_mp(params), samples)
    except Exception as ex:  # pylint: disable=broad-except
        return f"raised {type(ex).__name__}: {ex}"
    exp = scn.expected(samples, params)
    try:
        if isinstance(exp, tuple):
            def one(g, xs, every):
                if not isinstance(g, dict):
                    return False
                g = {float(k): int(v) for k, v in g.items()}
                want = {}
                for x in xs:
                    want[float(x)] = want.get(float(x), 0) + 1
                if scn.all_outcomes:
                    for e in every:
                        want.setdefault(float(e), 0)
                return g == want
            ok = one(got, exp[1], exp[2])
        elif isinstance(exp, list) and exp and isinstance(exp[0], tuple):
            ok = isinstance(got, (list, tuple)) and len(got) == len(exp) and all(
                isinstance(g, dict) and {float(k): int(v) for k, v in g.items()} == _want(e, scn) for g, e in zip(got, exp))
        elif isinstance(exp, dict):
            ok = isinstance(got, dict) and {str(k): int(v) for k, v in got.items()} == exp
        elif isinstance(exp, list) and exp and isinstance(exp[0], dict):
            ok = isinstance(got, (list, tuple)) and [{str(k): int(v) for k, v in g.items()} for g in got] == exp
        else:
            g, e = np.asarray(got, dtype=float), np.asarray(exp, dtype=float)
            ok = g.shape == e.shape and bool(np.allclose(g, e, atol=TOL, rtol=0))
    except Exception as ex:  # pylint: disable=broad-except
        return f"result {got!r} cannot be compared: {type(ex).__name__}: {ex}"
    return None if ok else f"got {_short(got)}, direct arithmetic gives {_short(exp if not isinstance(exp, tuple) else exp[1])}"


def _want(e, scn):
    want = {}
    for x in e[1]:
        want[float(x)] = want.get(float(x), 0) + 1
    if scn.all_outcomes:
        for v in e[2]:
            want.setdefault(float(v), 0)
    return want


def _short(x):
    import numpy as np
    try:
        if isinstance(x, dict):
            return str({(float(k) if not isinstance(k, str) else k): int(v) for k, v in x.items()})
        return str(np.asarray(x, dtype=float).round(6).tolist())[:300]
    except Exception:  # pylint: disable=broad-except
        return str(x)[:300]


def _scn_witness(scn, samples, values):
    return dict(measurement=scn.label(), samples=samples.tolist(), parameters=None if values is None else [float(v) for v in values])


def symbolic_scenarios(scns, shape, assume=None):
    """obligation body: every bit array of `shape` x every scenario, real code on symbolic parameters, VC per path"""
    from vf.common import Outcome, DISCHARGED, REFUTED, UNDECIDED, FAULT
    from vf.symx import bits as B
    from vf.symx import reals as R

    def fn():
        n_paths = n_runs = 0
        left = None
        cache = {}
        for samples in _all_bit_arrays(shape):
            for scn in scns:
                n_runs += 1
                npar = scn.n_params()
                if npar == 0:                                                    # nothing symbolic: the run on the bit array is the proof
                    bad = _native_check(scn, samples, None)
                    n_paths += 1
                    if bad:
                        return Outcome(REFUTED, "real-code-run", f"{scn.label()}: {bad}", witness=_scn_witness(scn, samples, None),
                                       replay=dict(confirmed=True, observed=bad, expected="direct arithmetic on the samples"))
                    continue
                holder = {}
                pre = ()
                if assume and scn.kind == "counts" and scn.eig == "eigvals":
                    es = [z3.Real(f"e{i}") for i in range(npar)]
                    same = z3.Or(*[a == b for a, b in itertools.combinations(es, 2)])
                    pre = (same,) if assume == "degenerate" else (z3.Not(same),)

                def run(scn=scn, samples=samples, npar=npar):
                    params, consts = R.real_array(npar, "e")
                    holder["consts"], holder["params"] = consts, params
                    return scn.call(scn.build_mp(params), samples)
                try:
                    res = R.explore(run, cache, assumptions=pre, max_paths=400)
                except Exception as ex:  # pylint: disable=broad-except
                    left = left or f"{scn.label()}: {type(ex).__name__}: {ex}"
                    continue
                if len(res) > 1 and not R.covers_everything(res, cache, pre):
                    return Outcome(FAULT, "bits", f"path conditions do not cover the parameter space: {scn.label()}")
                consts = holder["consts"]
                exp = scn.expected(samples, holder["params"])
                for r in res:
                    n_paths += 1
                    model = None
                    if r.exc is not None:
                        ok, what = False, f"raised {type(r.exc).__name__}: {r.exc}"
                        s_ = z3.Solver()
                        s_.add(*r.pc)
                        model = s_.model() if s_.check() == z3.sat else None
                    else:
                        try:
                            goal = _scn_goal(scn, r.value, exp, R, r.pc)
                        except TypeError as ex:
                            left = left or f"{scn.label()}: result not comparable: {ex}"
                            continue
                        what = "result differs from direct arithmetic"
                        if z3.is_true(goal):
                            continue
                        ok, model = B.prove(r.pc, goal)
                        if ok is None:
                            return Outcome(UNDECIDED, "z3", f"solver unknown: {scn.label()}")
                    if ok:
                        continue
                    values = [R.model_value(model, c) for c in consts] if model is not None else [0] * npar
                    bad = _native_check(scn, samples, values)
                    if bad:
                        return Outcome(REFUTED, "bits+reals+z3", f"{scn.label()}: {what}; replay on floats: {bad}",
                                       witness=_scn_witness(scn, samples, values),
                                       replay=dict(confirmed=True, observed=bad, expected="direct arithmetic on the samples"))
                    if r.exc is not None:                                          # an artefact of the symbolic scalars, not of the code
                        left = left or f"{scn.label()}: {what}"
                        continue
                    return Outcome(REFUTED, "bits+reals+z3", f"{scn.label()}: {what}", witness=_scn_witness(scn, samples, values),
                                   replay=dict(confirmed=False, observed="the float run agrees with direct arithmetic"))
        if left:
            return Outcome(UNDECIDED, "bits+reals", f"symbolic run left the fragment: {left}")
        return Outcome(DISCHARGED, "bits+reals+z3", f"{n_runs} (bit array, measurement) runs, {n_paths} paths; parameters symbolic",
                       extra=dict(sub_obligations=n_paths, paths=n_paths))
    return fn


class ObsScn(Scn):
    """a named observable with CONCRETE eigenvalues (taken from the real eigvals()): bounded stand-in"""

    def __init__(self, kind, obs_name, make_obs, wire_order, wires, shot_range=None, all_outcomes=False):
        super().__init__(kind, "eigvals", wire_order, wires, shot_range, all_outcomes)
        self.obs_name, self.make_obs = obs_name, make_obs

    def n_params(self):
        return 0

    def label(self):
        return super().label().replace("eig=eigvals", f"obs={self.obs_name}")

    def build_mp(self, params):
        from pennylane.measurements import SampleMP, ExpectationMP, VarianceMP, CountsMP
        cls = {"sample": SampleMP, "expval": ExpectationMP, "var": VarianceMP, "counts": CountsMP}[self.kind]
        kw = {"all_outcomes": self.all_outcomes} if self.kind == "counts" else {}
        return cls(obs=self.make_obs(list(self.wires)), **kw)

    def expected(self, samples, params):
        import numpy as np
        ev = np.asarray(self.build_mp(None).eigvals(), dtype=float)
        return super().expected(samples, ev)


def _obs_pool():
    import numpy as np
    import pennylane as qp
    rng = np.random.default_rng(30)
    A = rng.normal(size=(4, 4))
    A = A + A.T
    one = [("Z", lambda w: qp.Z(w[0])), ("X", lambda w: qp.X(w[0])), ("Hadamard", lambda w: qp.Hadamard(w[0])),
           ("Hermitian[[0,1],[1,0]]", lambda w: qp.Hermitian(np.array([[0.0, 1.0], [1.0, 0.0]]), wires=w)),
           ("-1*Z", lambda w: qp.s_prod(-1.0, qp.Z(w[0]))), ("0.5*Z", lambda w: qp.s_prod(0.5, qp.Z(w[0]))),
           ("Hermitian[[2,0],[0,-3]]", lambda w: qp.Hermitian(np.array([[2.0, 0.0], [0.0, -3.0]]), wires=w))]
    two = [("Z@Z", lambda w: qp.Z(w[0]) @ qp.Z(w[1])), ("Z@X", lambda w: qp.Z(w[0]) @ qp.X(w[1])),
           ("Hermitian(4x4)", lambda w: qp.Hermitian(A, wires=w)), ("Z+2*Z", lambda w: qp.Z(w[0]) + 2.0 * qp.Z(w[1]))]
    return {1: one, 2: two}


def sample_obligations(plan, tier):
    from vf.common import Obligation, Outcome, DISCHARGED, REFUTED, UNDECIDED
    quick = tier == "quick"
    shapes2 = [(1, 1), (2, 1), (3, 1), (2, 2), (3, 2), (2, 3)] + ([] if quick else [(4, 2), (3, 3)])
    heavy = {(3, 2)} if quick else set()             # shapes that only the cheap all-concrete group ("bits") visits in the quick tier
    shapes3 = [(2, 2, 1), (2, 1, 2)] + ([] if quick else [(2, 2, 2), (2, 2, 3)])
    base_order = (2, 0, 1)
    orders_of = lambda n: [base_order[:n]] + ([] if quick else [("a", 3, "q")[:n]])          # noqa: E731

    def ranges(shape, group):
        s = shape[-2]
        out = [None]
        if s >= 3 and (group in ("eigvals", "bits") or not quick):
            out += [(1, s), (0, s - 1)] if not quick else [(1, s)]
        return out

    def scenarios(group, shape):
        n, out = shape[-1], []
        if shape in heavy and group != "bits":
            return out
        mv_counts = len(shape) == 2 and (not quick or shape[0] * shape[1] <= 4)
        for order in orders_of(n):
            sels = _selections(order)
            for sr in ranges(shape, group):
                if group == "eigvals":
                    for kind in ("sample", "expval", "var"):
                        out += [Scn(kind, "eigvals", order, wsel, sr) for wsel in sels]
                elif group == "counts" and len(shape) == 2:
                    for allo in (False, True):
                        out += [Scn("counts", "eigvals", order, wsel, sr, all_outcomes=allo) for wsel in sels if len(wsel) <= 2]
                        out += [Scn("counts", "none", order, wsel, sr, all_outcomes=allo) for wsel in sels + [()]]
                elif group == "bits":
                    out += [Scn("probs", "none", order, wsel, sr) for wsel in sels + [()]]
                    out += [Scn("sample", "none", order, wsel, sr) for wsel in sels + [()]]
                elif group == "mv":
                    for wsel in _selections(order, 2 if quick else 3):
                        k = len(wsel)
                        uid_orders = [None] + ([list(range(k))[::-1]] if k > 1 else [])
                        for uo in uid_orders:
                            kinds = ("sample", "expval", "var") + (("counts",) if mv_counts else ())
                            if quick and uo is not None:
                                kinds = ("sample", "expval")
                            out += [Scn(kind, "mv", order, wsel, sr, uid_order=uo) for kind in kinds]
                        out += [Scn("probs", "mv", order, wsel, sr, op_list=True), Scn("sample", "mv", order, wsel, sr, op_list=True)]
                        if mv_counts:
                            out.append(Scn("counts", "mv", order, wsel, sr, op_list=True))
        return out

    funcs = {"eigvals": (PRS, "process_raw_samples"), "counts": (CNT, "CountsMP.process_samples"),
             "bits": (PROBS, "ProbabilityMP.process_samples"), "mv": (PRS, "process_raw_samples")}
    names = {"eigvals": "C30/process_samples:process_raw_samples/sample-expval-var-with-symbolic-eigenvalues",
             "counts": "C30/counts:CountsMP.process_samples/strings-and-symbolic-eigenvalues",
             "bits": "C30/probs:ProbabilityMP.process_samples/probs-and-raw-samples",
             "mv": "C30/process_samples:process_raw_samples/mid-circuit-values-with-symbolic-coefficients"}
    samples_txt = {"eigvals": "sample(j) == e[int(bits of the measured wires, 2)], expval == mean, var == mean((x-mean)^2), for all eigenvalues e",
                   "counts": "counts[v] == number of shots whose outcome string / eigenvalue is v; all_outcomes adds the zero entries",
                   "bits": "probs[s] == (#shots whose measured bits spell s) / shots; sample() == the measured columns",
                   "mv": "statistics of c0*m0 + c1*m1 + c2*m0*m1 + c3 == the same arithmetic on the sample columns of the measured wires"}
    for shape in shapes2 + shapes3:
        for group in ("eigvals", "counts", "bits", "mv"):
            scns = scenarios(group, shape)
            if not scns:
                continue
            tag = ("B=%d," % shape[0] if len(shape) == 3 else "") + f"S={shape[-2]},N={shape[-1]}"
            plan.add(Obligation(f"{names[group]}[{tag}]", "post", symbolic_scenarios(scns, shape, assume="distinct" if group == "counts" else None),
                                func=funcs[group], size_bounded=True, timeout=900 if quick else 3600, sample=samples_txt[group]))
            if group == "counts" and shape == (2, 1):
                # the complementary half of the eigenvalue domain (some eigenvalues coincide): candidate defect F40 on the unchanged tree
                deg = [sc for sc in scns if sc.eig == "eigvals"]
                plan.add(Obligation(f"C30/counts:CountsMP.process_samples/coinciding-eigenvalues[{tag}]", "post",
                                    symbolic_scenarios(deg, shape, assume="degenerate"), func=(CNT, "CountsMP._samples_to_counts"), size_bounded=True,
                                    finding=None, timeout=900, sample="counts keyed by eigenvalues when two basis states share an eigenvalue"))
    for file, qual in ((PRS, "process_raw_samples"), (SAMP, "SampleMP.process_samples"), (EXPV, "ExpectationMP.process_samples"),
                       (VARF, "VarianceMP.process_samples"), (CNT, "CountsMP.process_samples"), (CNT, "CountsMP._samples_to_counts"),
                       (PROBS, "ProbabilityMP.process_samples"), (PROBS, "ProbabilityMP._count_samples"),
                       (MVF, "MeasurementValue.wires"), (MVF, "MeasurementValue.items"), (MVF, "MeasurementValue._merge"),
                       ("pennylane/core/measurements.py", "MeasurementProcess.eigvals"), ("pennylane/core/measurements.py", "MeasurementProcess.wires")):
        plan.fn_under_contract(file, qual)

    # ---- bounded native stand-ins ------------------------------------------------------------------------------------------------------------------
    def observables():
        import numpy as np
        pool = _obs_pool()
        rng = np.random.default_rng(3030)
        n_runs = 0
        for n in (1, 2, 3):
            order = base_order[:n]
            for wsel in _selections(order, 2):
                for name, mk in pool[len(wsel)]:
                    for kind, allo in (("sample", False), ("expval", False), ("var", False), ("counts", False), ("counts", True)):
                        scn = ObsScn(kind, name, mk, order, wsel, all_outcomes=allo)
                        arrays = list(_all_bit_arrays((2, n))) if n < 3 else [rng.integers(0, 2, size=(5, n)) for _ in range(6)]
                        arrays += [rng.integers(0, 2, size=(7, n)) for _ in range(3)]
                        for samples in arrays:
                            n_runs += 1
                            bad = _native_check(scn, samples, None)
                            if bad:
                                return Outcome(REFUTED, "native(bounded)", f"{scn.label()}: {bad}", witness=_scn_witness(scn, samples, None),
                                               replay=dict(confirmed=True, observed=bad, expected="eigvals()[int(bits, 2)] arithmetic on the samples"))
        return Outcome(DISCHARGED, "native(bounded)", f"{n_runs} runs on named observables", extra=dict(bounded=True))
    plan.add(Obligation("C30/process_samples:process_raw_samples/named-observables(bounded)", "post", observables, bounded=True, timeout=600,
                        func=(PRS, "process_raw_samples"), sample="Z, X, H, Hermitian, s_prod, prod, sum observables: statistics == eigvals()[bits] arithmetic"))

    def concrete_eigvals():
        import numpy as np
        rng = np.random.default_rng(303)
        pools = {1: [[1.0, -1.0], [-1.0, 1.0], [1.0, 1.0], [-1.0, -1.0], [0.5, -2.0], [0.0, 3.0]],
                 2: [[1.0, -1.0, -1.0, 1.0], [-1.0, 1.0, 1.0, -1.0], [0.0, 1.0, 2.0, 3.0], [1.0, -1.0, 1.0, -1.0], [2.5, 2.5, -1.0, 0.0]]}
        n_runs = 0
        for n in (1, 2, 3):
            order = base_order[:n]
            for wsel in _selections(order, 2):
                for ev in pools[len(wsel)]:
                    for kind, allo in (("sample", False), ("expval", False), ("var", False), ("counts", False), ("counts", True)):
                        if kind == "counts" and len(set(ev)) < len(ev):
                            continue                                   # coinciding eigenvalues: obligation .../coinciding-eigenvalues (F40)
                        for sr in (None, (1, 4)):
                            scn = Scn(kind, "eigvals", order, wsel, sr, all_outcomes=allo)
                            for samples in [rng.integers(0, 2, size=(5, n)) for _ in range(4)] + [rng.integers(0, 2, size=(2, 5, n))] * (kind != "counts"):
                                n_runs += 1
                                bad = _native_check(scn, samples, ev)
                                if bad:
                                    return Outcome(REFUTED, "native(bounded)", f"{scn.label()}: {bad}", witness=_scn_witness(scn, samples, ev),
                                                   replay=dict(confirmed=True, observed=bad, expected="direct arithmetic on the samples"))
        return Outcome(DISCHARGED, "native(bounded)", f"{n_runs} runs with concrete eigenvalue arrays", extra=dict(bounded=True))
    plan.add(Obligation("C30/process_samples:process_raw_samples/concrete-eigenvalue-arrays(bounded)", "post", concrete_eigvals, bounded=True, timeout=600,
                        func=(PRS, "process_raw_samples"), sample="eigenvalue arrays incl. [1,-1], [-1,1], degenerate ones; 5 shots, batches, shot ranges"))

    def mv_wires():
        from pennylane.ops import MeasurementValue, MidMeasure
        n_runs = 0
        for labels in ((2, 0, 1), ("q", "a", "m"), (7, "b", 0)):
            for wsel in _selections(labels):
                k = len(wsel)
                for uids in itertools.permutations(range(k)):
                    ms = [MeasurementValue([MidMeasure(wires=w, meas_uid=f"u{u}")]) for w, u in zip(wsel, uids)]
                    mv = ms[0]
                    for m in ms[1:]:
                        mv = mv - 2 * m
                    n_runs += 1
                    try:
                        got = list(mv.wires)
                    except Exception as ex:  # pylint: disable=broad-except
                        got = f"raised {type(ex).__name__}: {ex}"
                    want = [list(m.wires)[0] for m in mv.measurements]
                    if got != want:
                        return Outcome(REFUTED, "native(bounded)", f"MeasurementValue.wires == {got}, its measurements act on {want} (in branch order)",
                                       witness=dict(wires=[str(x) for x in wsel], uids=list(uids)),
                                       replay=dict(confirmed=True, observed=str(got), expected=str(want)))
        return Outcome(DISCHARGED, "native(bounded)", f"{n_runs} composite measurement values", extra=dict(bounded=True))
    plan.add(Obligation("C30/measurement_value:MeasurementValue.wires/wire-i-is-the-wire-of-measurement-i(bounded)", "post", mv_wires, bounded=True,
                        timeout=300, func=(MVF, "MeasurementValue.wires"),
                        sample="branch i of items()/eigvals() is indexed by measurements[i]; process_raw_samples reads column wires[i]"))
