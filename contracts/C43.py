"""C43 Tape-mode control flow equals plain Python control flow.

The capture-DISABLED paths of qp.for_loop / qp.while_loop / qp.cond are executed symbolically with the user callables
(`body_fn`, `cond_fn`, branch functions) as UNINTERPRETED, STATEFUL functions: the value returned by a call is an uninterpreted
function of (clock, arguments), clock = number of callable invocations made so far, and every invocation is appended to a ghost
call log.  (A deterministic environment whose state is changed only by these calls is a function of the call history; two
executions with equal call sequences therefore record the same operations.)

Specification = the documented Python pseudo-code
    for i in range(start, stop, step): args = body(i, *args)        /       while cond(*args): args = body(*args)
with the range defined ARITHMETICALLY (independently of the encoder's `range`):  N = max(0, ceil((stop-start)/step)) for step > 0,
N = max(0, ceil((start-stop)/(-step))) for step < 0, k-th index start + k*step; the state after k iterations is the spec function
ITER(k) (ITER(0) = init, ITER(k+1) = body_k(index_k, ITER(k))), the call log after k iterations is CALLS(k).  Both are uninterpreted
and used only through INSTANCES of these unfolding equations (LoopSpec.axioms); the loop invariant is
`args == ITER(k) and log == CALLS(k) and 0 <= k <= N`.
"""
import copy

import z3

from vf.common import Plan
from vf.pyvc.engine import (World, T, Int, Bool, Label, RecT, ListT, Rec, PyList, FuncRef, LabelSort, Unsupp, RaiseExc, is_intlike,
                            to_int_term, fresh)
from vf.pyvc.contract import FnContract, Case, LoopSpec, obligations_for, lemma
from vf.pyvc import spec as S
from vf.pyvc.spec import And, Or, Not, If

PID = "C43"
FOR = "pennylane/control_flow/for_loop.py"
WHILE = "pennylane/control_flow/while_loop.py"
COND = "pennylane/ops/op_math/condition.py"
OPFILE = "pennylane/core/operator/base.py"
MVFILE = "pennylane/ops/mid_measure/measurement_value.py"

VS = LabelSort
I_ = z3.IntSort()
NoneV = T("const", None)
NONE_L = z3.Const("py_None", VS)               # the label that stands for python None inside havocked locals (see fn_res below)
TRUTHY = z3.Function("truthy", VS, z3.BoolSort())     # truth value of an opaque python value

ARITIES = (0, 1, 2, 3)


def is_val(x):
    return isinstance(x, z3.ExprRef) and x.sort() == VS


def eqv(x, y):
    """equality of two opaque values (False on a shape mismatch, e.g. a tuple where a single value is specified)"""
    if is_val(x) and is_val(y):
        return x == y
    return False


def isnone(x):
    """python None -- either the real None or, for a local havocked by a loop cut, the distinguished label NONE_L"""
    if x is None:
        return True
    if is_val(x):
        return x == NONE_L
    return False


def tuple_eq(r, spec_vals):
    if not isinstance(r, tuple) or len(r) != len(spec_vals):
        return False
    return And(True, *[eqv(a, b) for a, b in zip(r, spec_vals)])


def sym(*xs):
    return any(isinstance(x, z3.ExprRef) for x in xs)


# ---- the arithmetic definition of len(range(start, stop, step)) -----------------------------------------------------------------
def ceil_div(a, b):
    """ceil(a / b) for b > 0"""
    if sym(a, b):
        return (S._t(a) + b - 1) / S._t(b)            # z3 integer division is floor division for a positive divisor
    return -((-a) // b)


def niter(start, stop, step):
    """number of iterations of `for i in range(start, stop, step)`, step != 0 (python docs: max(0, ceil((stop-start)/step)))"""
    if sym(start, stop, step):
        start, stop, step = S._t(start), S._t(stop), S._t(step)
        pos = z3.If(stop - start > 0, ceil_div(stop - start, step), 0)
        neg = z3.If(start - stop > 0, ceil_div(start - stop, -step), 0)
        return z3.If(step > 0, pos, neg)
    if step > 0:
        return max(0, ceil_div(stop - start, step))
    return max(0, ceil_div(start - stop, -step))


# ---- native stand-ins of the user callables (replay on the real code) ------------------------------------------------------------
class NEnv:
    """native environment: the call log (= clock) shared by all callables of one run"""

    def __init__(self, limit=3, trig=None):
        self.log, self.table = [], {}
        self.limit = limit        # cond_fn is true for the first `limit` evaluations
        self.trig = trig          # clock at which a no-carried-argument body returns a truthy value (None: never)

    def value(self, key):
        """an opaque, injective value for `key` (interned: the same call history yields the same values)"""
        if key not in self.table:
            self.table[key] = ("v", len(self.table))
        return self.table[key]


class NFn:
    """native stateful callable: logs (tag, args), returns opaque values determined by (clock, tag, args)"""

    def __init__(self, env, tag, n_out, kind="body"):
        self.env, self.tag, self.n_out, self.kind = env, tag, n_out, kind

    def __call__(self, *a, **kw):
        env = self.env
        t = len(env.log)
        env.log.append((self.tag,) + tuple(a) + tuple(sorted(kw.items())))
        if self.kind == "cond":
            return sum(1 for e in env.log if e[0] == self.tag) <= env.limit
        if self.n_out == 0:
            return env.value((self.tag, t, a)) if env.trig is not None and t == env.trig else None
        if self.n_out == 1:
            return env.value((self.tag, t, a))
        return tuple(env.value((self.tag, j, t, a)) for j in range(self.n_out))


def is_native(x):
    return not isinstance(x, Rec)


# ---- reference semantics (the documented pseudo-code, arithmetic range) ------------------------------------------------------------
def ref_for(start, stop, step, body, init):
    """returns (result, raised): for k in 0..N-1: args = body(start + k*step, *args), with the documented threading of 0 / 1 / >1
    carried values"""
    n = len(init)
    args = tuple(init)
    res = args if n > 1 else (args[0] if n == 1 else None)
    for k in range(niter(start, stop, step)):
        out = body(start + k * step, *args)
        if n == 0:
            if out:
                return None, "ValueError"
        elif n == 1:
            args = (out,)
        else:
            args = tuple(out)
        res = out
    return res, None


def ref_while(cond, body, init):
    n = len(init)
    args = tuple(init)
    res = args if n > 1 else (args[0] if n == 1 else None)
    while cond(*args):
        out = body(*args)
        if n == 1:
            args = (out,)
        elif n > 1:
            args = tuple(out)
        res = out
    return res


def build(tier, seed):
    plan = Plan(PID, level="proof")
    plan.explanation = (
        "ForLoopCallable/WhileLoopCallable._call_capture_disabled, CondCallable.__call_capture_disabled, the __call__ dispatchers and the "
        "constructors for_loop/while_loop/cond are executed symbolically (real AST, all paths) with body_fn/cond_fn/branch functions as "
        "uninterpreted stateful callables (result = uninterpreted function of clock and arguments; every call appended to a ghost log). "
        "Loops run for a SYMBOLIC number of iterations (symbolic start/stop/step, sign of step fixed per case) and are cut by the invariant "
        "args == ITER(k), log == CALLS(k), 0 <= k <= N, where N is the arithmetic length of the range and ITER/CALLS are spec functions "
        "used through instances of their unfolding equations; postcondition: result == ITER(N), log == CALLS(N) -- the result and the "
        "call sequence of the documented Python loop.  while_loop: K = number of body calls is the least index with a false condition. "
        "cond: nested-if specification over symbolic boolean predicates.")
    plan.trusted_base = ["vf/pyvc encoder (Python subset semantics; symbolic `range` = index loop lo + step*counter)",
                         "z3 (nonlinear integer arithmetic for ceil((stop-start)/step) with symbolic step, sequences, datatypes)",
                         "modelling of user callables as deterministic functions of (clock, arguments) -- general for environments whose "
                         "state is changed only through these calls"]
    plan.assumptions = [
        "A-capture-disabled: qp.capture.enabled() is False and no qjit compiler is active (the property's premise; the __call__ contracts "
        "take these two library calls as returning False / None)",
        "A-arity-preserving body: a body with n > 1 carried arguments returns an n-tuple (the documented 'same signature' requirement); "
        "with n == 1 it returns one value; with n == 0 any value (truthiness uninterpreted)",
        "python None held in the loop-carried local `fn_res` is represented, after a loop cut, by the distinguished label py_None with "
        "truthy(py_None) == False (the interpreter has no option type for havocked locals)",
        "start/stop/step are python ints (tracers / arrays belong to capture mode)"]
    plan.assumed_contracts = [
        "qp.pytrees.flatten((args, kwargs), is_leaf) on flat positional arguments that are leaves (opaque values or Operators) and no "
        "keyword arguments returns exactly those arguments in order",
        "qp.QueuingManager.remove(op) is recorded as an event (its own contract is C41's)"]
    plan.dropped = ["docstrings, annotations, exception messages (f-strings), capture-enabled / qjit branches"]
    plan.size_bounds = ["number of carried loop arguments n in {0, 1, 2, 3}: n = 0 and n = 1 are the two special code paths, n >= 2 is one "
                        "uniform path checked at n = 2 and n = 3 (number of ITERATIONS, start, stop, step are unbounded/symbolic)",
                        "cond: number of predicates (condition + elifs) in {1, 2, 3, 4}, with and without an else branch; 0..3 positional "
                        "arguments; predicate VALUES symbolic booleans"]
    plan.unverified = ["qp.cond on mid-circuit measurement values vs deferred measurement (simulator semantics)",
                       "capture-enabled and qjit paths", "keyword arguments forwarded by cond; elifs given as one bare (pred, fn) pair",
                       "termination of while_loop (the Python loop need not terminate either: partial correctness)",
                       "nested pytrees of Operators in cond arguments (flat positional arguments only)"]

    contracts = []
    lemmas = []

    # ================================================================================================================ for_loop
    class ForModel:
        def __init__(self, n):
            self.n, self.m = n, max(n, 1)
            self.B = [z3.Function(f"for{n}_body_out{j}", I_, I_, *([VS] * n), VS) for j in range(self.m)]      # (clock, index, carried)
            self.ITER = [z3.Function(f"for{n}_ITER{j}", I_, I_, I_, *([VS] * n), VS) for j in range(n)]        # (k, start, step, init)
            dt = z3.Datatype(f"ForCall{n}")
            dt.declare("mk", ("idx", I_), *[(f"a{j}", VS) for j in range(n)])
            self.Call = dt.create()
            self.CALLS = z3.Function(f"for{n}_CALLS", I_, I_, I_, *([VS] * n), z3.SeqSort(self.Call))
            # n == 0: NT(k, start, step) = "none of the first k body calls returned a truthy value"
            self.NT = z3.Function(f"for{n}_no_truthy_before", I_, I_, I_, z3.BoolSort())
            self.ctx = None

        def ghost(self, ctx, a):
            self.ctx = ctx
            ctx.ghost["log"] = z3.Empty(z3.SeqSort(self.Call))
            ctx.assume(z3.Not(TRUTHY(NONE_L)))

        def log_type(self):
            return T("build", lambda ctx, name: z3.Const(ctx.fresh_name(name), z3.SeqSort(self.Call)))

        def body(self, it, args, kw):
            """the uninterpreted loop body: logs the call, returns B_j(clock, index, carried values)"""
            if kw or len(args) != self.n + 1 or not is_intlike(args[0]) or not all(is_val(x) for x in args[1:]):
                raise RaiseExc("TypeError")
            ctx = it.ctx
            idx, vals = to_int_term(args[0]), list(args[1:])
            log = ctx.ghost["log"]
            t = z3.Length(log)
            ctx.ghost["log"] = z3.Concat(log, z3.Unit(self.Call.mk(idx, *vals)))
            outs = [b(t, idx, *vals) for b in self.B]
            return outs[0] if self.n <= 1 else tuple(outs)

        # ---- spec functions through their unfolding equations
        def iter_at(self, k, st, se, init):
            return [f(k, st, se, *init) for f in self.ITER]

        def defs(self, ks, st, se, init):
            st, se = S._t(st), S._t(se)
            out = [f(0, st, se, *init) == a for f, a in zip(self.ITER, init)]
            out.append(self.CALLS(0, st, se, *init) == z3.Empty(z3.SeqSort(self.Call)))
            for k in ks:
                k = S._t(k)
                cur = self.iter_at(k, st, se, init)
                idx = st + se * k
                eqs = [f(k + 1, st, se, *init) == b(k, idx, *cur) for f, b in zip(self.ITER, self.B)]
                eqs.append(self.CALLS(k + 1, st, se, *init) == z3.Concat(self.CALLS(k, st, se, *init), z3.Unit(self.Call.mk(idx, *cur))))
                if self.n == 0:
                    eqs.append(self.NT(k + 1, st, se) == z3.And(self.NT(k, st, se), z3.Not(TRUTHY(self.B[0](k, idx)))))
                out.append(z3.Implies(k >= 0, z3.And(*eqs)))
            if self.n == 0:
                out.append(self.NT(0, st, se))
            return out

        def nt_antitone(self, k, m_, st, se):
            """lemma `no-truthy-prefix` (proved by induction below): NT(m) and 0 <= k <= m  =>  NT(k)"""
            k, m_, st, se = S._t(k), S._t(m_), S._t(st), S._t(se)
            return z3.Implies(z3.And(k >= 0, k <= m_, self.NT(m_, st, se)), self.NT(k, st, se))

        def last_out(self, k, st, se):
            """n == 0: value returned by the k-th call (k >= 1)"""
            return self.B[0](k - 1, S._t(st) + S._t(se) * (k - 1))

    FM = {n: ForModel(n) for n in ARITIES}

    def for_self(n):
        return T("rec", "ForLoopCallable", override={"body_fn": T("const", FuncRef("builtin", f"for_body{n}"))})

    wf = World(FOR, classes={"ForLoopCallable": {"start": Int, "stop": Int, "step": Int, "body_fn": NoneV}}, functions=["for_loop"],
               extra_builtins={**{f"for_body{n}": FM[n].body for n in ARITIES},
                               "truthy": lambda it, a, k: TRUTHY(a[0]) if is_val(a[0]) else _unsupp(f"truthiness of {a[0]!r}"),
                               "len": lambda it, a, k: b_len(it, a, k)})

    def _unsupp(msg):
        raise Unsupp(msg)

    OPAQUE_LEN = z3.Function("len_of_opaque_value", VS, I_)

    def b_len(it, args, kw):
        """len(x): the interpreter's own model, except for an OPAQUE value (reached only by edited code that mistakes a single
        returned value for the tuple of carried arguments): python either raises TypeError or returns some non-negative int"""
        if len(args) == 1 and is_val(args[0]):
            if it.ctx.branch(z3.Bool(it.ctx.fresh_name("opaque_has_len"))):
                it.ctx.assume(OPAQUE_LEN(args[0]) >= 0)
                return OPAQUE_LEN(args[0])
            raise RaiseExc("TypeError")
        return it.b_len(args, kw, None)

    def init_of(ns, n):
        return [getattr(ns, f"a{j}") for j in range(n)]

    def for_inv(n):
        M = FM[n]

        def inv(v):
            s, c, init = v.self, v._i0, list(v.init_state)
            N = niter(s.start, s.stop, s.step)
            log = v.ghost.log
            parts = [c <= N, z3.Length(log) == c, log == M.CALLS(c, s.start, s.step, *init),
                     isinstance(v.args, tuple) and len(v.args) == n]
            cur = M.iter_at(c, s.start, s.step, init)
            if n == 0:
                parts.append(If(S._t(c) == 0, isnone(v.fn_res), eqv(v.fn_res, M.last_out(c, s.start, s.step))))
                parts.append(M.NT(c, s.start, s.step))
            elif n == 1:
                parts += [eqv(v.args[0], cur[0]) if isinstance(v.args, tuple) and len(v.args) == 1 else False, eqv(v.fn_res, cur[0])]
            else:
                parts += [tuple_eq(v.args, cur), tuple_eq(v.fn_res, cur)]
            return And(*parts)

        def axioms(v):
            s, c, init = v.self, v._i0, list(v.init_state)
            out = M.defs([S._t(c), S._t(c) - 1], s.start, s.step, init)
            if n == 0:
                out.append(M.nt_antitone(S._t(c) + 1, niter(s.start, s.stop, s.step), s.start, s.step))
            return out
        ls = LoopSpec(inv, types={"fn_res": Label} if n == 0 else {}, axioms=axioms,
                      decreases=lambda v: niter(v.self.start, v.self.stop, v.self.step) - v._i0)
        ls.ghost_types = {"log": M.log_type()}
        return ls

    def for_native_expect(o, n):
        """run the reference loop on a private copy of the (not yet called) native body"""
        body = copy.deepcopy(o.self.body_fn)
        res, exc = ref_for(o.self.start, o.self.stop, o.self.step, body, init_of(o, n))
        return res, exc, body.env.log

    def for_post(n):
        M = FM[n]

        def post(o, r, nw):
            if is_native(o.self):
                res, exc, log = for_native_expect(o, n)
                return exc is None and r == res and type(r) is type(res) and nw.self.body_fn.env.log == log
            s, init = o.self, init_of(o, n)
            N = niter(s.start, s.stop, s.step)
            log_ok = M.ctx.ghost["log"] == M.CALLS(N, s.start, s.step, *init)
            final = M.iter_at(N, s.start, s.step, init)
            if n == 0:
                # a normal return is only allowed when no body call returned a truthy value
                res_ok = And(If(N == 0, isnone(r), eqv(r, M.last_out(N, s.start, s.step))), M.NT(N, s.start, s.step))
            elif n == 1:
                res_ok = eqv(r, final[0])
            else:
                res_ok = tuple_eq(r, final)
            return And(log_ok, res_ok)
        return post

    def some_truthy(n):
        """n == 0: some body call of the reference loop returns a truthy value (the documented ValueError case)"""
        M = FM[n]

        def cond(o):
            if is_native(o.self):
                return for_native_expect(o, n)[1] == "ValueError"
            if n != 0:
                return False
            s = o.self
            return z3.Not(M.NT(niter(s.start, s.stop, s.step), s.start, s.step))
        return cond

    def for_native_gen(n, sign):
        def gen(rng, m):
            m = dict(m)
            slf = dict(m["self"])
            env = NEnv()
            if rng is not None:
                slf["step"] = sign * (abs(int(slf["step"])) % 4 or 1) if sign else 0
                env.trig = rng.choice([None, None, 0, 1, 2])
            slf["body_fn"] = NFn(env, "body", n)
            m["self"] = slf
            return m
        return gen

    for n in ARITIES:
        params = {"self": for_self(n), **{f"a{j}": Label for j in range(n)}}
        for sign, lab, req in ((1, "positive step", lambda a: a.self.step > 0), (-1, "negative step", lambda a: a.self.step < 0)):
            contracts.append(FnContract(wf, "ForLoopCallable._call_capture_disabled", [
                Case(f"{n} carried args, {lab}", dict(params), requires=req, ghost=FM[n].ghost,
                     ensures=for_post(n), raises=({"ValueError": some_truthy(n)} if n == 0 else {}),
                     must_return=(lambda o, n=n: Not(some_truthy(n)(o))),
                     loops={0: for_inv(n)}, native_gen=for_native_gen(n, sign), size_bounded=(n >= 2))]))
    # step == 0: `range` raises ValueError, as the Python loop of the specification does
    contracts.append(FnContract(wf, "ForLoopCallable._call_capture_disabled", [
        Case("1 carried arg, zero step", {"self": for_self(1), "a0": Label}, requires=lambda a: a.self.step == 0, ghost=FM[1].ghost,
             ensures=lambda o, r, nw: False, raises={"ValueError": lambda o: True}, must_return=lambda o: False,
             loops={0: for_inv(1)}, native_gen=for_native_gen(1, 0))]))

    # ---- for_loop(stop) / for_loop(start, stop) / for_loop(start, stop, step): argument normalisation
    BODY = FuncRef("builtin", "for_body1")

    def apply_decorator(r, fn_sym, fn_native):
        """the object returned by the decorator `r` for a body function"""
        if isinstance(r, Rec) or not hasattr(r, "interp"):
            return r(fn_native) if callable(r) else None
        return r.interp.call(r, [fn_sym], {})

    def loop_fields(want):
        def post(o, r_, nw):
            native = not hasattr(r_, "interp")
            body = NFn(NEnv(), "body", 1)
            fl = apply_decorator(r_, BODY, body)
            if fl is None:
                return False
            start, stop, step = want(o)
            if native:
                return type(fl).__name__ == "ForLoopCallable" and (fl.start, fl.stop, fl.step) == (start, stop, step) and fl.body_fn is body
            return And(isinstance(fl, Rec) and fl.cls.name == "ForLoopCallable" and fl.body_fn is BODY,
                       S._t(fl.start) == S._t(start), S._t(fl.stop) == S._t(stop), S._t(fl.step) == S._t(step))
        return post
    contracts.append(FnContract(wf, "for_loop", [
        Case("for_loop(stop)", {"start": Int}, ensures=loop_fields(lambda o: (0, o.start, 1))),
        Case("for_loop(start, stop)", {"start": Int, "stop": Int}, ensures=loop_fields(lambda o: (o.start, o.stop, 1))),
        Case("for_loop(start, stop, step)", {"start": Int, "stop": Int, "step": Int},
             ensures=loop_fields(lambda o: (o.start, o.stop, o.step)))]))

    # ---- __call__ with capture disabled dispatches to _call_capture_disabled with the same arguments
    def dispatch_world(file, cls, fields, target, extra):
        token = z3.Const("dispatch_result", VS)

        def callee(it, args, kwargs):
            it.ctx.ghost.setdefault("dispatch", []).append((args[0], tuple(args[1:]), dict(kwargs)))
            return token
        return World(file, classes={cls: fields}, modular={f"{cls}.{target}": callee}, extra_builtins=extra), token

    def dispatch_case(world_token, cls_t, n, native_expect, native_gen, label_extra=""):
        w_, token = world_token
        cell = {}

        def ghost(ctx, a):
            cell["ctx"] = ctx

        def post(o, r, nw):
            if is_native(o.self):
                return native_expect(o, r, nw)
            d = cell["ctx"].ghost.get("dispatch", [])
            return len(d) == 1 and d[0][0] is nw.self and len(d[0][1]) == n and not d[0][2] and \
                all(x is y for x, y in zip(d[0][1], init_of(nw, n))) and r is token
        return Case(f"capture disabled, {n} args{label_extra}", {"self": cls_t, **{f"a{j}": Label for j in range(n)}}, ghost=ghost,
                    ensures=post, native_gen=native_gen)

    lib_off = {"active_compiler": lambda it, a, k: None, "enabled": lambda it, a, k: False,
               "qp.capture.enabled": lambda it, a, k: False}
    wfd = dispatch_world(FOR, "ForLoopCallable", {"start": Int, "stop": Int, "step": Int, "body_fn": NoneV, "allow_array_resizing": NoneV},
                         "_call_capture_disabled", lib_off)

    def for_call_native(n):
        def expect(o, r, nw):
            res, exc, log = for_native_expect(o, n)
            return exc is None and r == res and nw.self.body_fn.env.log == log
        return expect

    def for_call_gen(n):
        def gen(rng, m):
            m = for_native_gen(n, 1 if rng is None or rng.random() < 0.5 else -1)(rng, m)
            m["self"]["allow_array_resizing"] = "auto"
            if m["self"]["step"] == 0:
                m["self"]["step"] = 1
            return m
        return gen
    contracts.append(FnContract(wfd[0], "ForLoopCallable.__call__", [
        dispatch_case(wfd, T("rec", "ForLoopCallable", override={"body_fn": T("const", FuncRef("builtin", f"for_body{n}")),
                                                                  "allow_array_resizing": T("const", "auto")}),
                      n, for_call_native(n), for_call_gen(n)) for n in (0, 2)]))

    # ================================================================================================================ while_loop
    class WhileModel:
        def __init__(self, n):
            self.n, self.m = n, max(n, 1)
            self.B = [z3.Function(f"while{n}_body_out{j}", I_, *([VS] * n), VS) for j in range(self.m)]       # (clock, carried)
            self.C = z3.Function(f"while{n}_cond", I_, *([VS] * n), z3.BoolSort())                            # (clock, carried)
            self.ITER = [z3.Function(f"while{n}_ITER{j}", I_, *([VS] * n), VS) for j in range(n)]             # (k, init)
            self.PC = z3.Function(f"while{n}_conds_true_before", I_, *([VS] * n), z3.BoolSort())              # (k, init)
            dt = z3.Datatype(f"WhileCall{n}")
            dt.declare("mk", ("is_body", z3.BoolSort()), *[(f"a{j}", VS) for j in range(n)])
            self.Call = dt.create()
            self.CALLS = z3.Function(f"while{n}_CALLS", I_, *([VS] * n), z3.SeqSort(self.Call))
            self.ctx = None

        def ghost(self, ctx, a):
            self.ctx = ctx
            ctx.ghost["log"] = z3.Empty(z3.SeqSort(self.Call))
            ctx.ghost["k"] = z3.IntVal(0)         # number of body calls made so far

        def _call(self, it, args, kw, is_body):
            if kw or len(args) != self.n or not all(is_val(x) for x in args):
                raise RaiseExc("TypeError")
            ctx = it.ctx
            log = ctx.ghost["log"]
            t = z3.Length(log)
            ctx.ghost["log"] = z3.Concat(log, z3.Unit(self.Call.mk(z3.BoolVal(is_body), *args)))
            return t

        def cond(self, it, args, kw):
            t = self._call(it, args, kw, False)
            return self.C(t, *args)

        def body(self, it, args, kw):
            t = self._call(it, args, kw, True)
            it.ctx.ghost["k"] = it.ctx.ghost["k"] + 1
            outs = [b(t, *args) for b in self.B]
            return outs[0] if self.n <= 1 else tuple(outs)

        def iter_at(self, k, init):
            return [f(k, *init) for f in self.ITER]

        def cond_entry(self, k, init):
            return self.Call.mk(z3.BoolVal(False), *self.iter_at(k, init))

        def defs(self, ks, init):
            E = z3.Empty(z3.SeqSort(self.Call))
            out = [f(0, *init) == a for f, a in zip(self.ITER, init)] + [self.CALLS(0, *init) == E, self.PC(0, *init)]
            for k in ks:
                k = S._t(k)
                cur = self.iter_at(k, init)
                eqs = [f(k + 1, *init) == b(2 * k + 1, *cur) for f, b in zip(self.ITER, self.B)]
                eqs.append(self.CALLS(k + 1, *init) == z3.Concat(self.CALLS(k, *init), z3.Unit(self.cond_entry(k, init)),
                                                                 z3.Unit(self.Call.mk(z3.BoolVal(True), *cur))))
                eqs.append(self.PC(k + 1, *init) == z3.And(self.PC(k, *init), self.C(2 * k, *cur)))
                out.append(z3.Implies(k >= 0, z3.And(*eqs)))
            return out

        def last_out(self, k):
            return self.B[0](2 * k - 1)

    WM = {n: WhileModel(n) for n in ARITIES}
    ww = World(WHILE, classes={"WhileLoopCallable": {"cond_fn": NoneV, "body_fn": NoneV}}, functions=["while_loop"],
               extra_builtins={**{f"while_body{n}": WM[n].body for n in ARITIES}, **{f"while_cond{n}": WM[n].cond for n in ARITIES},
                               "len": lambda it, a, k: b_len(it, a, k)})

    def while_self(n):
        return T("rec", "WhileLoopCallable", override={"body_fn": T("const", FuncRef("builtin", f"while_body{n}")),
                                                        "cond_fn": T("const", FuncRef("builtin", f"while_cond{n}"))})

    def while_state_ok(M, n, k, args, fn_res, init):
        cur = M.iter_at(k, init)
        if n == 0:
            return And(isinstance(args, tuple) and len(args) == 0, If(S._t(k) == 0, isnone(fn_res), eqv(fn_res, M.last_out(k))))
        if n == 1:
            return And(isinstance(args, tuple) and len(args) == 1 and eqv(args[0], cur[0]), eqv(fn_res, cur[0]))
        return And(tuple_eq(args, cur), tuple_eq(fn_res, cur))

    def while_inv(n):
        M = WM[n]

        def inv(v):
            init, k, log = list(v.init_state), v.ghost.k, v.ghost.log
            return And(k >= 0, z3.Length(log) == 2 * k, log == M.CALLS(k, *init), M.PC(k, *init),
                       while_state_ok(M, n, k, v.args, v.fn_res, init))
        ls = LoopSpec(inv, types={"fn_res": Label} if n == 0 else {},
                      axioms=lambda v: M.defs([v.ghost.k, v.ghost.k - 1], list(v.init_state)))
        ls.ghost_types = {"log": T("build", lambda ctx, name: z3.Const(ctx.fresh_name(name), z3.SeqSort(M.Call))), "k": Int}
        return ls

    def while_native_expect(o, n):
        slf = copy.deepcopy(o.self)
        res = ref_while(slf.cond_fn, slf.body_fn, init_of(o, n))
        return res, slf.body_fn.env.log

    def while_post(n):
        M = WM[n]

        def post(o, r, nw):
            if is_native(o.self):
                res, log = while_native_expect(o, n)
                return r == res and type(r) is type(res) and nw.self.body_fn.env.log == log
            # K := the number of body calls made (ghost witness).  K is the LEAST index whose condition is false, the result is the
            # state after K iterations, and the log is the K (cond, body) rounds followed by the final false condition
            init, K, log = init_of(o, n), M.ctx.ghost["k"], M.ctx.ghost["log"]
            final = M.iter_at(K, init)
            res_ok = while_state_ok(M, n, K, tuple(final), r, init)
            return And(K >= 0, M.PC(K, *init), z3.Not(M.C(2 * K, *final)),
                       log == z3.Concat(M.CALLS(K, *init), z3.Unit(M.cond_entry(K, init))), res_ok)
        return post

    def while_native_gen(n):
        def gen(rng, m):
            m = dict(m)
            env = NEnv(limit=3 if rng is None else rng.choice([0, 1, 2, 3, 5]))
            m["self"] = dict(m["self"], body_fn=NFn(env, "body", n), cond_fn=NFn(env, "cond", 1, kind="cond"))
            return m
        return gen

    for n in ARITIES:
        contracts.append(FnContract(ww, "WhileLoopCallable._call_capture_disabled", [
            Case(f"{n} carried args", {"self": while_self(n), **{f"a{j}": Label for j in range(n)}}, ghost=WM[n].ghost,
                 ensures=while_post(n), loops={0: while_inv(n)}, native_gen=while_native_gen(n), size_bounded=(n >= 2))]))

    def while_ctor_post(o, r, nw):
        native = not hasattr(r, "interp")
        body = NFn(NEnv(), "body", 1)
        wl = apply_decorator(r, FuncRef("builtin", "while_body1") if not native else None, body)
        if native:
            return type(wl).__name__ == "WhileLoopCallable" and wl.cond_fn is nw.cond_fn and wl.body_fn is body
        return isinstance(wl, Rec) and wl.cls.name == "WhileLoopCallable" and wl.cond_fn is nw.cond_fn and \
            isinstance(wl.body_fn, FuncRef) and wl.body_fn.name == "while_body1"
    contracts.append(FnContract(ww, "while_loop", [
        Case("while_loop(cond_fn)", {"cond_fn": T("const", FuncRef("builtin", "while_cond1"))}, ensures=while_ctor_post,
             native_gen=lambda rng, m: dict(m, cond_fn=NFn(NEnv(), "cond", 1, kind="cond")))]))

    wwd = dispatch_world(WHILE, "WhileLoopCallable", {"cond_fn": NoneV, "body_fn": NoneV, "allow_array_resizing": NoneV},
                         "_call_capture_disabled", lib_off)

    def while_call_native(n):
        def expect(o, r, nw):
            res, log = while_native_expect(o, n)
            return r == res and nw.self.body_fn.env.log == log
        return expect

    def while_call_gen(n):
        def gen(rng, m):
            m = while_native_gen(n)(rng, m)
            m["self"]["allow_array_resizing"] = "auto"
            return m
        return gen
    contracts.append(FnContract(wwd[0], "WhileLoopCallable.__call__", [
        dispatch_case(wwd, T("rec", "WhileLoopCallable", override={"body_fn": T("const", FuncRef("builtin", f"while_body{n}")),
                                                                    "cond_fn": T("const", FuncRef("builtin", f"while_cond{n}")),
                                                                    "allow_array_resizing": T("const", "auto")}),
                      n, while_call_native(n), while_call_gen(n)) for n in (1,)]))

    # ================================================================================================================ cond
    MAXB = 4
    BR = {n: z3.Function(f"cond_branch_result{n}", I_, *([VS] * n), VS) for n in ARITIES}      # (branch index, args); -1 = else branch

    class CondModel:
        def __init__(self):
            self.ctx = None

        def ghost(self, ctx, a):
            self.ctx = ctx
            ctx.ghost["events"] = []          # python list (concrete length): ("remove", op) / ("call", branch index, args)

        def branch(self, j):
            def fn(it, args, kw):
                vals = [x.f["_id"] if isinstance(x, Rec) and x.cls.name == "Operator" else x for x in args]
                if kw or not all(is_val(x) for x in vals):
                    raise RaiseExc("TypeError")
                it.ctx.ghost["events"].append(("call", j, tuple(vals)))
                return BR[len(vals)](j, *vals)
            return fn

        def remove(self, it, args, kw):
            it.ctx.ghost["events"].append(("remove", args[0]))
            return None

        def flatten(self, it, args, kw):
            (tree,) = args[:1]
            a, k = tree
            if k:
                raise Unsupp("keyword arguments in qp.pytrees.flatten model")
            return (PyList(list(a)), None)
    CM = CondModel()

    def branch_list(m):
        return T("build", lambda ctx, name: PyList([FuncRef("builtin", f"cond_branch{j}") for j in range(m)]))

    wc = World(COND, classes={"CondCallable": {"preds": NoneV, "branch_fns": NoneV, "otherwise_fn": NoneV},
                              "Operator": (OPFILE, {"_id": Label}), "MeasurementValue": (MVFILE, {})}, functions=["cond"],
               extra_builtins={**{f"cond_branch{j}": CM.branch(j) for j in range(MAXB)}, "cond_otherwise": CM.branch(-1),
                               "qp.pytrees.flatten": CM.flatten, "qp.QueuingManager.remove": CM.remove,
                               "compiler.active_compiler": lambda it, a, k: None, **lib_off})

    def first_true(preds, has_else):
        """index of the branch the Python if/elif/else chain takes: first true predicate, else -1 (else branch) / -2 (nothing)"""
        sel = -1 if has_else else -2
        for j in reversed(range(len(preds))):
            sel = If(preds[j], j, sel) if sym(preds[j]) else (j if preds[j] else sel)
        return sel

    def cond_native_expect(o, args):
        slf = copy.deepcopy(o.self)
        res = None
        for p, f in zip(slf.preds, slf.branch_fns):
            if p:
                res = f(*args)
                break
        else:
            if slf.otherwise_fn is not None:
                res = slf.otherwise_fn(*args)
        return res, slf.branch_fns[0].env.log

    def cond_post(m, n, has_else, op_positions=()):
        def post(o, r, nw):
            args = init_of(o, n)
            if is_native(o.self):
                res, log = cond_native_expect(o, args)
                return r == res and nw.self.branch_fns[0].env.log == log
            preds = o.self.preds.items
            vals = [x.f["_id"] if isinstance(x, Rec) else x for x in args]
            sel = first_true(preds, has_else)
            ev = CM.ctx.ghost["events"]
            removes = [e for e in ev if e[0] == "remove"]
            calls = [e for e in ev if e[0] == "call"]
            # every Operator among the arguments is dequeued, before the branch function runs; nothing else is dequeued
            rm_ok = len(removes) == len(op_positions) and all(e[1] is nw.__dict__[f"a{p}"] for e, p in zip(removes, op_positions)) and \
                all(e[0] == "remove" for e in ev[:len(removes)])
            if not rm_ok or len(calls) > 1:
                return False
            if not calls:
                return And(r is None, S._t(sel) == -2)
            (_, j, cargs) = calls[0]
            return And(S._t(sel) == j, len(cargs) == n and And(True, *[eqv(a, b) for a, b in zip(cargs, vals)]), eqv(r, BR[n](j, *vals)))
        return post

    def cond_self(m, has_else):
        return T("rec", "CondCallable", override={"preds": ListT(Bool, m), "branch_fns": branch_list(m),
                                                  "otherwise_fn": T("const", FuncRef("builtin", "cond_otherwise")) if has_else else NoneV})

    def cond_native_gen(m, n, has_else, op_positions=()):
        def gen(rng, mdl):
            mdl = dict(mdl)
            env = NEnv()
            slf = dict(mdl["self"])
            slf["branch_fns"] = [NFn(env, f"branch{j}", 1) for j in range(m)]
            slf["otherwise_fn"] = NFn(env, "otherwise", 1) if has_else else None
            mdl["self"] = slf
            for p in op_positions:
                mdl[f"a{p}"] = f"op{p}"          # native replay: operators are replaced by opaque non-operator values
            return mdl
        return gen

    def cond_native_call(mod, args):
        names = [k for k in args if k != "self"]
        return args["self"]._CondCallable__call_capture_disabled(*[args[k] for k in names])

    cond_cases = []
    for m in range(1, MAXB + 1):
        for has_else in (True, False):
            n = (m + (1 if has_else else 0)) % 4          # vary the number of positional arguments over the configurations
            cond_cases.append(Case(f"{m} predicates, {'else' if has_else else 'no else'}, {n} args",
                                   {"self": cond_self(m, has_else), **{f"a{j}": Label for j in range(n)}}, ghost=CM.ghost,
                                   ensures=cond_post(m, n, has_else), native_gen=cond_native_gen(m, n, has_else),
                                   native_call=cond_native_call, size_bounded=True))
    OPT = RecT("Operator")
    cond_cases.append(Case("2 predicates, else, args (value, Operator, Operator)", {"self": cond_self(2, True), "a0": Label, "a1": OPT, "a2": OPT},
                           ghost=CM.ghost, ensures=cond_post(2, 3, True, op_positions=(1, 2)),
                           native_gen=cond_native_gen(2, 3, True, op_positions=(1, 2)), native_call=cond_native_call, size_bounded=True))
    contracts.append(FnContract(wc, "CondCallable.__call_capture_disabled", cond_cases))

    # __call__ (capture disabled) dispatches to __call_capture_disabled
    wcd = dispatch_world(COND, "CondCallable", {"preds": NoneV, "branch_fns": NoneV, "otherwise_fn": NoneV}, "__call_capture_disabled", lib_off)

    def cond_call_native(n):
        def expect(o, r, nw):
            res, log = cond_native_expect(o, init_of(o, n))
            return r == res and nw.self.branch_fns[0].env.log == log
        return expect
    contracts.append(FnContract(wcd[0], "CondCallable.__call__", [
        dispatch_case(wcd, cond_self(2, True), 2, cond_call_native(2), cond_native_gen(2, 2, True))]))

    # cond(condition, true_fn, false_fn, elifs) with a plain boolean builds the (preds, branch_fns, otherwise_fn) the chain is run on
    TF, FF = FuncRef("builtin", "cond_branch0"), FuncRef("builtin", "cond_otherwise")

    def seq_items(x):
        return x.items if isinstance(x, PyList) else list(x)

    def built_ok(cc, preds, fns, other):
        if cc is None or (isinstance(cc, Rec) and cc.cls.name != "CondCallable") or (not isinstance(cc, Rec) and type(cc).__name__ != "CondCallable"):
            return False
        ps, fs = seq_items(cc.preds), seq_items(cc.branch_fns)
        if len(ps) != len(preds) or len(fs) != len(fns):
            return False
        same = all(a is b for a, b in zip(fs, fns)) and cc.otherwise_fn is other
        return And(same, *[(a == b) if sym(a, b) else (a is b or a == b) for a, b in zip(ps, preds)])

    def elifs_type(k):
        return T("build", lambda ctx, name: tuple((fresh(ctx, Bool, f"{name}.pred{j}"), FuncRef("builtin", f"cond_branch{j + 1}")) for j in range(k)),
                 gen=lambda rng: tuple((rng.random() < 0.5, None) for _ in range(k)))

    def cond_ctor_gen(k, with_false):
        def gen(rng, mdl):
            mdl = dict(mdl)
            env = NEnv()
            mdl["true_fn"] = NFn(env, "branch0", 1)
            if with_false:
                mdl["false_fn"] = NFn(env, "otherwise", 1)
            if "elifs" in mdl:
                mdl["elifs"] = tuple((bool(p), NFn(env, f"branch{j + 1}", 1)) for j, (p, _) in enumerate(mdl["elifs"]))
            return mdl
        return gen
    ctor_cases = [
        Case("cond(bool, true_fn)", {"condition": Bool, "true_fn": T("const", TF)}, native_gen=cond_ctor_gen(0, False),
             ensures=lambda o, r, nw: built_ok(r, [o.condition], [nw.true_fn], None)),
        Case("cond(bool, true_fn, false_fn)", {"condition": Bool, "true_fn": T("const", TF), "false_fn": T("const", FF)},
             native_gen=cond_ctor_gen(0, True), ensures=lambda o, r, nw: built_ok(r, [o.condition], [nw.true_fn], nw.false_fn))]
    for k in (1, 2, 3):
        if k == 2:
            continue        # a 2-tuple of pairs is told apart from one bare pair by isinstance(.., Callable): covered at k = 1, 3
        ctor_cases.append(Case(f"cond(bool, true_fn, false_fn, {k} elif pairs)",
                               {"condition": Bool, "true_fn": T("const", TF), "false_fn": T("const", FF), "elifs": elifs_type(k)},
                               native_gen=cond_ctor_gen(k, True), size_bounded=True,
                               ensures=lambda o, r, nw: built_ok(r, [o.condition] + [p for p, _ in o.elifs],
                                                                 [nw.true_fn] + [f for _, f in nw.elifs], nw.false_fn)))

    def deco_post(o, r, nw):
        native = not hasattr(r, "interp")
        fn = NFn(NEnv(), "branch0", 1) if native else TF
        cc = r(fn) if native else r.interp.call(r, [fn], {})
        return built_ok(cc, [o.condition], [fn], None)
    ctor_cases.append(Case("cond(bool) as decorator", {"condition": Bool}, ensures=deco_post))
    contracts.append(FnContract(wc, "cond", ctor_cases))

    def else_if_post(o, r, nw):
        native = not hasattr(r, "interp")
        fn = NFn(NEnv(), "branchX", 1) if native else FuncRef("builtin", "cond_branch3")
        before_p, before_f = list(seq_items(o.self.preds)), list(seq_items(nw.self.branch_fns))
        ret = r(fn) if native else r.interp.call(r, [fn], {})
        return And(ret is nw.self, built_ok(nw.self, before_p + [o.pred], before_f + [fn], nw.self.otherwise_fn))
    contracts.append(FnContract(wc, "CondCallable.else_if", [
        Case("append (pred, fn)", {"self": cond_self(2, True), "pred": Bool}, ensures=else_if_post, native_gen=cond_native_gen(2, 0, True))]))
    contracts.append(FnContract(wc, "CondCallable.otherwise", [
        Case("set else branch", {"self": cond_self(2, False), "otherwise_fn": T("const", FF)},
             native_gen=lambda rng, mdl: dict(cond_native_gen(2, 0, False)(rng, mdl), otherwise_fn=NFn(NEnv(), "otherwise", 1)),
             ensures=lambda o, r, nw: And(r is nw.self, built_ok(nw.self, list(seq_items(o.self.preds)), list(seq_items(nw.self.branch_fns)),
                                                                nw.otherwise_fn)))]))

    # ================================================================================================================ lemmas
    # the arithmetic range: N is characterised by  0 <= N,  index_k inside [start, stop) for k < N,  index_N outside
    a, b, c, k = z3.Ints("start stop step k")
    N = niter(a, b, c)
    lemmas.append(("range-length/positive-step", [a, b, c, k],
                   z3.Implies(z3.And(c > 0, k >= 0), z3.And(N >= 0, (k < N) == (a + c * k < b)))))
    lemmas.append(("range-length/negative-step", [a, b, c, k],
                   z3.Implies(z3.And(c < 0, k >= 0), z3.And(N >= 0, (k < N) == (a + c * k > b)))))

    # no-truthy-prefix: NT(m) and 0 <= k <= m => NT(k), by induction on m (base m == k trivial; step below)
    M0 = FM[0]
    mm = z3.Int("m")
    lemmas.append(("no-truthy-prefix/base", [a, c, k], M0.nt_antitone(k, k, a, c)))
    lemmas.append(("no-truthy-prefix/step", [a, c, k, mm],
                   z3.Implies(z3.And(k >= 0, k <= mm, M0.nt_antitone(k, mm, a, c),
                                     M0.NT(mm + 1, a, c) == z3.And(M0.NT(mm, a, c), z3.Not(TRUTHY(M0.B[0](mm, a + c * mm))))),
                              z3.And(M0.nt_antitone(k, mm + 1, a, c), M0.nt_antitone(mm + 1, mm + 1, a, c)))))

    for fc in contracts:
        plan.fn_under_contract(fc.world.file, fc.qualname)
        for ob in obligations_for(PID, fc, tier):
            plan.add(ob)
    for nm, vs, goal in lemmas:
        plan.add(lemma(PID, nm, vs, goal))
    return plan
