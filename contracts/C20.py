"""C20 Measurement splitting preserves results -- the bookkeeping core of split_non_commuting / split_to_single_terms.

`val(mp)` is the (uninterpreted) result of executing a measurement process; the mathematical facts the transform relies on are
hypotheses about `val`:   val(expval(sum_i c_i o_i)) == sum_i c_i val(expval(o_i)),   val(expval(Identity)) == 1,   and obs.terms()
returns the (c_i, o_i) of the observable.  Measurement processes key dictionaries by (measurement class, observable class,
observable identity) -- an uninterpreted equality (qp.equal assumed an equivalence that results respect).

  _split_all_multi_term_obs_mps(tape) -> (single_term_obs_mps, offsets):
        for EVERY original measurement j:   val(mp_j) == offsets[j] + sum over single-term measurements sm and positions k with
        idxs(sm)[k] == j of coeffs(sm)[k] * val(sm)                         (results of each measurement preserved)
  _processing_fn_no_grouping / _processing_fn_with_grouping / _sum_terms: return exactly that sum for each j, in the ORIGINAL order,
        unwrapped for a single measurement.
SIZE-BOUNDED: concrete tape shapes (number / kind of measurements, number of terms, which terms are Identity), every coefficient,
offset, result and every observable IDENTITY symbolic (so sharing of single-term measurements between observables is covered).

Further contracts (own sections below, each with its statement): `_split_operations` (shared by batch_params / batch_input: tape b holds the
b-th slice of exactly the batched parameter slots) and `_diagonalize_subset_of_pauli_obs` with its callees (diagonalize_measurements: wires
occupied by computational-basis measurements -- all tape wires for a wire-less probs()/sample()/counts() -- never get a basis change, every
observable is conjugated consistently, ValueError exactly on sets that are not qubit-wise simultaneously measurable).
"""
import itertools

import z3

from vf.common import Plan
from vf.pyvc.engine import World, T, Int, Float, Label, LabelSort, TupleT, Rec, PyList, FloatV, Opaque, Unsupp, RaiseExc
from vf.pyvc.engine import real_of as _real_of
from vf.pyvc.contract import FnContract, Case, obligations_for, lemma
from vf.pyvc import spec as S
from vf.pyvc import xmaps as X
from vf.pyvc.spec import And, Or, Not, Implies, If

def real_of(x):
    """real term of a numeric value (z3 reals pass through)"""
    if isinstance(x, z3.ArithRef) and x.is_real():
        return x
    return _real_of(x)


SNC = "pennylane/transforms/split_non_commuting.py"
STS = "pennylane/transforms/split_to_single_terms.py"

MP_SRC = "class {0}:\n    def __eq__(self, other):\n        return __mp_eq__(self, other)\n"
OBS_SRC = "class {0}:\n    pass\n"
COMP_SRC = "class {0}:\n    def terms(self):\n        return (self.terms_c, self.terms_o)\n    def simplify(self):\n        return self.simplified\n"
MP_TAG = {"ExpectationMP": 0, "VarianceMP": 1, "ProbabilityMP": 2}
OBS_TAG = {None: 0, "Obs": 1, "Identity": 2, "Sum": 3, "SProd": 4, "Prod": 5}
KEY_T = TupleT(Int, Int, Label)

# measurement shapes: (measurement kind, observable kind, terms)   terms: 'o' = a non-identity single-term operator, 'i' = Identity
E_SUMS = [("E", "Sum", t) for t in ("o", "i", "oo", "oi", "io", "ooo", "oio")]
M_SHAPES = E_SUMS + [("E", "SProd", "o"), ("E", "Obs", ""), ("E", "Identity", ""), ("V", "Obs", ""), ("V", "SProd", "o"), ("P", None, "")]
M_PAIRS = [("E", "Sum", "oo"), ("E", "Sum", "oi"), ("E", "Sum", "ooo"), ("E", "Obs", ""), ("E", "Identity", ""), ("V", "Obs", ""), ("P", None, "")]
M_TRIPLES = [(("E", "Sum", "oo"), ("E", "Sum", "oi"), ("E", "Obs", "")), (("V", "Obs", ""), ("E", "Sum", "oo"), ("V", "Obs", "")),
             (("E", "Identity", ""), ("P", None, ""), ("E", "Sum", "io")), (("E", "Obs", ""), ("E", "Obs", ""), ("E", "Sum", "ooo"))]
M_RAISING = [(("V", "Sum", "oo"),), (("E", "Obs", ""), ("V", "Sum", "o"))]
F13_TAPE = (("V", "Identity", ""), ("E", "Obs", ""), ("E", "Obs", ""))       # [var(I), expval(X), expval(Z)]: DESIGN section 5, F13


def shape_label(tape_shape):
    return "[" + ", ".join(f"{m}:{o or 'none'}{('(' + t + ')') if t else ''}" for m, o, t in tape_shape) + "]"


# ======================================================================================================================================
# batch_params / batch_input: the shared helper _split_operations
#
#   _split_operations(ops, params, split_indices, num_tapes) -> new_ops          (params == [p for op in ops for p in op.data], call sites)
#       for EVERY output tape b and EVERY operator k:  new_ops[b][k] is operator k (same gate, wires, hyperparameters) whose parameter in
#       slot j is   params[idx_k + j][b]  if idx_k + j is a batched index   and   params[idx_k + j] itself otherwise.
#   This is "tape b is the original circuit evaluated at batch entry b": stacking the executions of the tapes (_nested_stack) then gives the
#   result of the broadcast circuit, which is the property statement for batch_params / batch_input.
# SIZE-BOUNDED: operator lists of enumerated arities (1..3 operators, 0..3 parameters each), EVERY subset of the parameter slots batched,
# batch sizes 1..3; every parameter VALUE symbolic.
# ======================================================================================================================================
BP = "pennylane/transforms/batch_params.py"
BP_ARITIES = [(1,), (2,), (3,), (1, 1), (1, 2), (2, 1), (0, 3), (1, 3), (3, 1), (2, 0, 2)]
BP_OP_SRC = "class Op:\n    pass\n"


def add_split_operations(plan, tier):
    import numpy as np

    def b_bind(it, args, kw):
        op, new_params = args
        if not isinstance(op, Rec) or not isinstance(new_params, tuple):
            raise Unsupp("bind_new_parameters: operator record and a tuple of parameters expected")
        if len(new_params) != len(op.data):
            raise RaiseExc("ValueError")
        return Rec(w.classes["Op"], {"data": tuple(new_params), "ident": op.ident})
    w = World(BP, stubs={"Op": (BP_OP_SRC, {"data": Label, "ident": Label})}, functions=["_split_operations"],
              extra_builtins={"qp.ops.functions.bind_new_parameters": b_bind})

    def slot_values(ctx, name, n_slots, split, batch):
        out = []
        for i in range(n_slots):
            if i in split:
                out.append(PyList([FloatV(z3.Real(ctx.fresh_name(f"{name}.p{i}_b{b}"))) for b in range(batch)]))
            else:
                out.append(FloatV(z3.Real(ctx.fresh_name(f"{name}.p{i}"))))
        return out

    def mk_ops(arities, split, batch):
        def mk(ctx, name):
            vals = slot_values(ctx, name, sum(arities), split, batch)
            ops, idx = [], 0
            for k, n in enumerate(arities):
                ops.append(Rec(w.classes["Op"], {"data": tuple(vals[idx:idx + n]), "ident": z3.Const(ctx.fresh_name(f"{name}.op{k}"), LabelSort)}))
                idx += n
            return PyList(ops)
        return mk

    def gen_ops(arities, split, batch):
        def gen(rng):
            ops, idx = [], 0
            for k, n in enumerate(arities):
                data = []
                for j in range(n):
                    data.append([round(rng.uniform(-2, 2), 3) for _ in range(batch)] if idx + j in split else round(rng.uniform(-2, 2), 3))
                ops.append({"__class__": "Op", "data": tuple(data), "ident": f"L{rng.randint(0, 7)}"})
                idx += n
            return ops
        return gen

    def mk_params(arities, split, batch):
        return lambda ctx, name: PyList(slot_values(ctx, name, sum(arities), split, batch))

    def gen_params(arities, split, batch):
        return lambda rng: [[0.0] * batch if i in split else 0.0 for i in range(sum(arities))]

    GATES = {0: ["CNOT", "CZ"], 1: ["RX", "RY", "RZ", "CRX"], 2: ["U2"], 3: ["Rot", "U3", "CRot"]}

    def lab_index(lab):
        digits = "".join(ch for ch in str(lab) if ch.isdigit())
        return int(digits) if digits else 0

    def real_op(fields):
        import pennylane as qp
        data = [np.array(x, dtype=float) if isinstance(x, (list, tuple)) else float(x) for x in fields["data"]]
        i = lab_index(fields.get("ident"))
        pool = GATES[len(data)]
        cls = getattr(qp, pool[i % len(pool)])
        wires = [i % 3, (i + 1) % 3][:cls.num_wires]
        return cls(*data, wires=wires)
    w.stub_realize = {"Op": real_op}

    def call_site(rng, m):
        """call-site precondition: params IS the flat list of the operators' parameters (tape.get_parameters(trainable_only=False))"""
        m = dict(m)
        m["params"] = [p for op in m["ops"] for p in op["data"]]
        return m

    def native_call(mod, a):
        a["params"] = [p for op in a["ops"] for p in op.data]
        return mod._split_operations(a["ops"], a["params"], list(a["split_indices"]), a["num_tapes"])

    def same_value(x, y):
        """symbolic parameter values: the same real / the same list of batch entries"""
        if isinstance(x, PyList) or isinstance(y, PyList):
            if not (isinstance(x, PyList) and isinstance(y, PyList)) or len(x.items) != len(y.items):
                return False
            return And(*[same_value(p, q) for p, q in zip(x.items, y.items)])
        if isinstance(x, (tuple, list, Rec)) or isinstance(y, (tuple, list, Rec)) or x is None or y is None:
            return False
        return real_of(x) == real_of(y)

    def requires(a):
        if not isinstance(a.ops, PyList):
            return True                                   # native run: native_call / call_site pass the operators' own parameters
        flat = [p for op in a.ops.items for p in op.data]
        return And(len(flat) == len(a.params.items), *[same_value(p, q) for p, q in zip(flat, a.params.items)])

    def ensures(o, r, nw):
        split, batch = set(o.split_indices), o.num_tapes
        if isinstance(o.ops, PyList):
            ops, params = o.ops.items, o.params.items
            if not isinstance(r, PyList) or len(r.items) != batch:
                return False
            goals = []
            for b in range(batch):
                tape_ops = r.items[b]
                if not isinstance(tape_ops, PyList) or len(tape_ops.items) != len(ops):
                    return False
                idx = 0
                for k, op in enumerate(ops):
                    new = tape_ops.items[k]
                    if not isinstance(new, Rec) or new.cls.name != "Op" or not isinstance(new.data, tuple) or len(new.data) != len(op.data):
                        return False
                    goals.append(new.ident == op.ident)
                    for j in range(len(op.data)):
                        want = params[idx + j].items[b] if idx + j in split else params[idx + j]
                        goals.append(same_value(new.data[j], want))
                    idx += len(op.data)
            return And(*goals)
        # ---- executable form on real operators ----
        import pennylane as qp
        ops, params = list(o.ops), [p for op in o.ops for p in op.data]
        if len(r) != batch:
            return False
        for b in range(batch):
            if len(r[b]) != len(ops):
                return False
            idx = 0
            for k, op in enumerate(ops):
                new = r[b][k]
                if type(new) is not type(op) or new.wires != op.wires or len(new.data) != len(op.data):
                    return False
                for j in range(len(op.data)):
                    want = np.asarray(params[idx + j])[b] if idx + j in split else np.asarray(params[idx + j])
                    got = np.asarray(new.data[j])
                    if got.shape != want.shape or not np.allclose(got, want, atol=1e-12, rtol=0):
                        return False
                idx += len(op.data)
        return True

    cases = []
    for arities in BP_ARITIES:
        n = sum(arities)
        subsets = [s for r_ in range(n + 1) for s in itertools.combinations(range(n), r_)]
        if tier == "quick" and n >= 4:
            subsets = [s for s in subsets if len(s) <= 2 or len(s) == n]
        for split in subsets:
            batches = (1, 2, 3) if (arities in ((3,), (1, 2)) or tier != "quick") else (2,)
            for batch in batches:
                label = f"arities {'-'.join(map(str, arities))}, batched slots {{{','.join(map(str, split))}}}, batch {batch}"
                cases.append(Case(label, {"ops": T("build", mk_ops(arities, split, batch), gen=gen_ops(arities, split, batch)),
                                          "params": T("build", mk_params(arities, split, batch), gen=gen_params(arities, split, batch)),
                                          "split_indices": T("const", tuple(split)), "num_tapes": T("const", batch)},
                                  size_bounded=True, requires=requires, ensures=ensures, native_gen=call_site, native_call=native_call))
    fc = FnContract(w, "_split_operations", cases)
    plan.fn_under_contract(BP, "_split_operations")
    for ob in obligations_for("C20", fc, tier):
        plan.add(ob)
    return {"bounds": ["_split_operations (batch_params / batch_input): operator lists with parameter counts " +
                       ", ".join("-".join(map(str, a)) for a in BP_ARITIES) + "; every subset of the parameter slots batched (lists with 4 slots in the "
                       "quick tier: subsets of size <= 2 and the full set); batch size 2 (1, 2, 3 for the lists 3 and 1-2; all three in the thorough tier)"],
            "assumed": ["qp.ops.functions.bind_new_parameters(op, params): the same gate (class, wires, hyperparameters) with exactly the given "
                        "parameters; ValueError when their number differs"],
            "assumptions": ["_split_operations: parameters are real scalars (unbatched) / lists of batch-size real scalars (batched): tensors with "
                            "trailing dimensions behave the same under params[i][b]; params is the flat parameter list of ops (call sites: "
                            "tape.get_parameters(trainable_only=False))"]}


# ======================================================================================================================================
# diagonalize_measurements: the bookkeeping of _diagonalize_subset_of_pauli_obs (also the fallback of the pauli_rep based path)
#
#   _diagonalize_subset_of_pauli_obs(tape, supported_base_obs, to_eigvals=False) -> (diagonalizing_gates, new_measurements)
#   A measurement that samples the computational basis (obs is None) occupies its wires, ALL tape wires when it has none.
#   A leaf observable kind(w) is "switched" when kind is not supported (Z and Identity always are).  The returned gates are basis changes
#   G_kind(w) with  G_kind(w)^dagger Z(w) G_kind(w) == kind(w)  (assumed table of X / Y / Hadamard .diagonalizing_gates()).
#   RETURNS  => executing ops + gates and measuring new_measurements reproduces every original result:
#        at most one basis change per wire;  no basis change on a wire occupied by a computational-basis measurement (those measurements
#        are returned unchanged);  every non-identity leaf kind(w) became Z(w) when wire w carries a basis change -- which then must be
#        G_kind -- and is unchanged when it carries none;  Identity leaves stay;  measurement classes / product structure / order kept.
#   RAISES ValueError  <=>  the measurement set is not simultaneously measurable qubit-wise: two non-identity leaves of different kinds on
#        one wire, or a non-Z, non-identity leaf on an occupied wire.
# SIZE-BOUNDED: enumerated measurement lists (<= 3 measurements, leaves X / Y / Z / Hadamard / Identity and products of two leaves,
# probs / sample / counts with 0..2 wires); EVERY wire label symbolic (3 distinct tape wires, every measurement wire any of them) and the
# set of supported observables symbolic (all 8 subsets of {X, Y, Hadamard}).
# ======================================================================================================================================
DG = "pennylane/transforms/diagonalize_measurements.py"
DG_PAULI_SRC = ("class {0}:\n    def __init__(self, wires=None):\n        self.wires = __as_wires__(wires)\n"
                "    def __eq__(self, other):\n        return __op_eq__(self, other)\n"
                "    def diagonalizing_gates(self):\n        return __diag_gates__(self)\n")
DG_PROD_SRC = ("class Prod:\n    def __init__(self, *operands):\n        self.operands = operands\n"
               "    def __eq__(self, other):\n        return __op_eq__(self, other)\n")
DG_MP_SRC = ("class {0}:\n    def __init__(self, obs=None, wires=None):\n        self.obs = obs\n        self.wires = wires\n"
             "    @property\n    def samples_computational_basis(self):\n        return self.obs is None\n")
DG_PLAIN_SRC = "class {0}:\n    pass\n"
DG_OPAQUE_SRC = "class Hermitian:\n    def __eq__(self, other):\n        return __op_eq__(self, other)\n"
DG_KINDS = {"x": "X", "y": "Y", "z": "Z", "h": "Hadamard", "i": "Identity"}
DG_MPS = {"E": "ExpectationMP", "V": "VarianceMP", "P": "ProbabilityMP", "S": "SampleMP", "C": "CountsMP"}
DG_REAL_NAME = {"PauliX": "X", "PauliY": "Y", "PauliZ": "Z", "Hadamard": "Hadamard", "Identity": "Identity", "X": "X", "Y": "Y", "Z": "Z"}
DG_NW = 3
# measurement shapes: ("E"|"V", leaves) an observable measurement (one leaf or a product of leaves);  ("P"|"S"|"C", k) a computational-basis
# measurement with k wires (0 = no wires given = all tape wires)
DG_OBS = [("E", "x"), ("E", "y"), ("E", "z"), ("E", "h"), ("E", "i"), ("V", "x"), ("E", "xz"), ("E", "yx"), ("V", "hi")]
DG_CB = [("P", 0), ("P", 1), ("P", 2), ("S", 0), ("C", 1)]
# opaque non-Pauli leaves (finding F37): "o" / "O" = an uninterpreted observable (symbolic identity) on 1 / 2 symbolic wires, handled by
# the default body of _diagonalize_non_basic_observable: RETURNS => no basis change on any of its wires (applied before or after it) and
# the leaf is returned unchanged;  it clashes (ValueError) with every different non-identity leaf / computational-basis measurement that
# shares one of its wires (an equal opaque observable -- same identity, same wires -- does not clash)
DG_OPQ = [("E", "o"), ("E", "O"), ("V", "xo")]
DG_OPQ_TRIPLES = [(("E", "x"), ("E", "o"), ("E", "x")), (("E", "o"), ("E", "z"), ("E", "o")), (("P", 1), ("E", "O"), ("E", "y")),
                  (("E", "O"), ("E", "O"), ("E", "h")), (("E", "i"), ("E", "O"), ("E", "xz"))]
DG_TRIPLES = [(("P", 0), ("E", "z"), ("E", "x")), (("E", "x"), ("E", "xz"), ("P", 1)), (("E", "y"), ("S", 1), ("E", "yx")),
              (("E", "h"), ("V", "hi"), ("E", "z")), (("P", 1), ("C", 0), ("E", "zz")), (("E", "xz"), ("E", "yx"), ("E", "z")),
              (("E", "x"), ("E", "x"), ("V", "x")), (("P", 1), ("P", 1), ("E", "y"))]


def dg_label(shape):
    return "[" + ", ".join(f"{m}:{t if isinstance(t, str) else str(t) + 'w'}" for m, t in shape) + "]"


def add_diagonalize_bookkeeping(plan, tier):
    from vf.pyvc.engine import Model, FuncRef
    from vf.pyvc.interp import Interp
    import ast as _ast

    class Fn(Model):
        def __init__(self, f):
            self.f = f

        def vf_call(self, interp, args, kwargs):
            return self.f(interp, args, kwargs)

    class MaybeCls(Model):
        """an element of supported_base_obs that is present iff `flag` (so that one case covers every subset)"""

        def __init__(self, name, flag):
            self.name, self.flag = name, flag

        def concretize_with(self, world, model):
            return self.name if z3.is_true(model.eval(self.flag, model_completion=True)) else None

        def snapshot(self):
            return self

    def elem_eq(it, x, e):
        if isinstance(x, FuncRef) and isinstance(e, FuncRef):
            return x.name == e.name
        if isinstance(x, FuncRef) and isinstance(e, MaybeCls):
            return e.flag if x.name == e.name else False
        if isinstance(e, FuncRef) and isinstance(x, MaybeCls):
            return x.flag if x.name == e.name else False
        if isinstance(x, (FuncRef, MaybeCls)) or isinstance(e, (FuncRef, MaybeCls)):
            return False
        return it.equal(x, e)

    class OSet(Model):
        """python set built inside the function: the list of inserted elements; membership is the disjunction of element equalities
        (operator equality = same class and wires, class equality by name), so it forks on the equality of symbolic wire labels"""

        def __init__(self, items):
            self.items = list(items)

        def vf_contains(self, interp, x):
            r = False
            for e in self.items:
                r = interp.or_(r, elem_eq(interp, x, e))
            return r

        def snapshot(self):
            return OSet(self.items)

        @property
        def add(self):
            return Fn(lambda it, a, k: self.items.append(a[0]))

        @property
        def update(self):
            return Fn(lambda it, a, k: self.items.extend(it.iter_concrete(a[0]) if not isinstance(a[0], OSet) else a[0].items))

        @property
        def union(self):
            return Fn(lambda it, a, k: OSet(self.items + [y for s in a for y in (s.items if isinstance(s, OSet) else it.iter_concrete(s))]))

        @property
        def copy(self):
            return Fn(lambda it, a, k: OSet(self.items))

        def vf_binop(self, interp, name, other, swapped, node):
            if name == "or" and isinstance(other, OSet):
                return OSet(other.items + self.items if swapped else self.items + other.items)
            raise Unsupp(f"set operation {name}")

    class DInterp(Interp):
        def e_SetComp(self, n, env):
            lc = _ast.copy_location(_ast.ListComp(elt=n.elt, generators=n.generators), n)
            v = self.eval(lc, env)
            if not isinstance(v, PyList):
                raise Unsupp("set comprehension over a symbolic sequence")
            return OSet(v.items)

        def e_Set(self, n, env):
            return OSet([self.eval(e, env) for e in n.elts])

    def b_set(it, args, kw):
        if not args:
            return OSet([])
        if isinstance(args[0], OSet):
            return OSet(args[0].items)
        return OSet(it.iter_concrete(args[0]))

    def b_as_wires(it, args, kw):
        (x,) = args
        if isinstance(x, PyList):
            return PyList(list(x.items))
        if isinstance(x, tuple):
            return PyList(list(x))
        if x is None:
            raise RaiseExc("TypeError")
        return PyList([x])

    def b_wires(it, args, kw):
        return b_as_wires(it, args, kw)

    def b_op_eq(it, args, kw):
        a, b = args
        if not (isinstance(a, Rec) and isinstance(b, Rec)) or a.cls is not b.cls:
            return False
        if a.cls.name == "Prod":
            if len(a.operands) != len(b.operands):
                return False
            r = True
            for p, q in zip(a.operands, b.operands):
                r = it.and_(r, it.equal(p, q))
            return r
        if a.cls.name == "Hermitian":
            return it.and_(a.ident == b.ident, it.equal(a.wires, b.wires))
        return it.equal(a.wires, b.wires)

    def b_diag_gates(it, args, kw):
        (op,) = args
        if op.cls.name in ("Z", "Identity"):
            return PyList([])
        return PyList([Rec(w.classes["BasisChange"], {"kind": op.cls.name, "wire": op.wires.items[0]})])

    def dispatch_non_basic(it, args, kw):
        """functools.singledispatch on the class of the first argument (assumed): CompositeOp -> _diagonalize_composite_op"""
        obs = args[0]
        if isinstance(obs, Rec) and obs.cls.name == "Prod":
            return it.call_user(w.functions["_diagonalize_composite_op"], args, kw, None, qual="_diagonalize_composite_op")
        return it.call_user(w.functions["_diagonalize_non_basic_observable"], args, kw, None, qual=None)

    stubs = {k: (DG_PAULI_SRC.format(k), {"wires": Label}) for k in DG_KINDS.values()}
    stubs["Prod"] = (DG_PROD_SRC, {"operands": Label})
    stubs["Hermitian"] = (DG_OPAQUE_SRC, {"ident": Label, "wires": Label})
    stubs.update({k: (DG_MP_SRC.format(k), {"obs": Label, "wires": Label}) for k in DG_MPS.values()})
    stubs["Tape"] = (DG_PLAIN_SRC.format("Tape"), {"measurements": Label, "wires": Label})
    stubs["BasisChange"] = (DG_PLAIN_SRC.format("BasisChange"), {"kind": Label, "wire": Int})
    w = World(DG, stubs=stubs,
              functions=["_diagonalize_subset_of_pauli_obs", "_diagonalize_observable", "_check_if_diagonalizing", "_get_obs_and_gates",
                         "_diagonalize_non_basic_observable", "_diagonalize_composite_op"],
              modular={"_diagonalize_non_basic_observable": dispatch_non_basic},
              extra_builtins={"set": b_set, "__as_wires__": b_as_wires, "qp.wires.Wires": b_wires, "__op_eq__": b_op_eq,
                              "__diag_gates__": b_diag_gates})
    w.module_values = {f"qp.{k}": FuncRef("class", k, w.classes[k]) for k in DG_KINDS.values()}
    w.module_values.update({"qp.PauliX": w.module_values["qp.X"], "qp.PauliY": w.module_values["qp.Y"], "qp.PauliZ": w.module_values["qp.Z"]})

    # ---- symbolic tapes --------------------------------------------------------------------------------------------------------------------
    def mk_tape(shape):
        def mk(ctx, name):
            wire = lambda s: z3.Int(ctx.fresh_name(f"{name}.{s}"))
            mps = []
            for j, (mk_, t) in enumerate(shape):
                cls = w.classes[DG_MPS[mk_]]
                if isinstance(t, str):
                    leaves = [Rec(w.classes[DG_KINDS[c]], {"wires": PyList([wire(f"m{j}.leaf{p}")])}) if c in DG_KINDS else
                              Rec(w.classes["Hermitian"], {"ident": z3.Const(ctx.fresh_name(f"{name}.m{j}.leaf{p}.matrix"), LabelSort),
                                                           "wires": PyList([wire(f"m{j}.leaf{p}.w{q}") for q in range(1 if c == "o" else 2)])})
                              for p, c in enumerate(t)]
                    obs = leaves[0] if len(leaves) == 1 else Rec(w.classes["Prod"], {"operands": tuple(leaves)})
                    mps.append(Rec(cls, {"obs": obs, "wires": None}))
                else:
                    mps.append(Rec(cls, {"obs": None, "wires": PyList([wire(f"m{j}.w{p}") for p in range(t)])}))
            return Rec(w.classes["Tape"], {"measurements": PyList(mps), "wires": PyList([wire(f"tapewire{p}") for p in range(DG_NW)])})
        return mk

    def gen_tape(shape):
        def gen(rng):
            labels = rng.sample(range(0, 6), DG_NW)
            mps = []
            for mk_, t in shape:
                if isinstance(t, str):
                    leaves = [{"__class__": DG_KINDS[c], "wires": [rng.choice(labels)]} if c in DG_KINDS else
                              {"__class__": "Hermitian", "ident": f"L{rng.randint(0, 2)}", "wires": rng.sample(labels, 1 if c == "o" else 2)}
                              for c in t]
                    obs = leaves[0] if len(leaves) == 1 else {"__class__": "Prod", "operands": tuple(leaves)}
                    mps.append({"__class__": DG_MPS[mk_], "obs": obs, "wires": None})
                else:
                    mps.append({"__class__": DG_MPS[mk_], "obs": None, "wires": rng.sample(labels, t)})
            return {"__class__": "Tape", "measurements": mps, "wires": labels}
        return gen

    def mk_supported(ctx, name):
        return PyList([MaybeCls(k, z3.Bool(ctx.fresh_name(f"{name}.has{k}"))) for k in ("X", "Y", "Hadamard")])

    def gen_supported(rng):
        return [k if rng.random() < 0.4 else None for k in ("X", "Y", "Hadamard")]

    # ---- real objects ------------------------------------------------------------------------------------------------------------------------
    def real_pauli(kind):
        def mk(fields):
            import pennylane as qp
            return getattr(qp, kind)(fields["wires"][0])
        return mk

    def real_mp(kind):
        def mk(fields):
            import pennylane as qp
            if kind == "ExpectationMP":
                return qp.expval(fields["obs"])
            if kind == "VarianceMP":
                return qp.var(fields["obs"])
            f = {"ProbabilityMP": qp.probs, "SampleMP": qp.sample, "CountsMP": qp.counts}[kind]
            return f(wires=list(fields["wires"])) if fields["wires"] else f()
        return mk

    def state_prep(wires):
        import pennylane as qp
        ops = []
        for i, x in enumerate(wires):
            ops += [qp.RX(0.4 + 0.37 * i, x), qp.RY(1.1 - 0.23 * i, x), qp.RZ(0.6 + 0.41 * i, x)]
        for i in range(len(wires) - 1):
            ops += [qp.CNOT([wires[i], wires[i + 1]]), qp.RY(0.5 + 0.3 * i, wires[i + 1]), qp.RX(-0.8 + 0.2 * i, wires[i])]
        if len(wires) > 1:
            ops += [qp.CRY(-0.8, [wires[-1], wires[0]]), qp.RZ(0.3, wires[0])]
        return ops

    def real_tape(fields):
        import pennylane as qp
        return qp.tape.QuantumScript(state_prep(list(fields["wires"])), list(fields["measurements"]))
    w.stub_realize = {k: real_pauli(k) for k in DG_KINDS.values()}
    w.stub_realize.update({k: real_mp(k) for k in DG_MPS.values()})
    def real_opaque(fields):
        import numpy as np
        import pennylane as qp
        ws = list(fields["wires"])
        digits = "".join(ch for ch in str(fields.get("ident")) if ch.isdigit())
        rng = np.random.default_rng(1000 + (int(digits) if digits else 0) % 7 + 10 * len(ws))
        m = rng.normal(size=(2 ** len(ws),) * 2) + 1j * rng.normal(size=(2 ** len(ws),) * 2)
        return qp.Hermitian(m + m.conj().T, wires=ws)
    w.stub_realize["Hermitian"] = real_opaque
    w.stub_realize["Prod"] = lambda fields: __import__("pennylane").prod(*fields["operands"])
    w.stub_realize["Tape"] = real_tape

    def native_call(mod, a):
        import pennylane as qp
        a["supported_base_obs"] = [getattr(qp, k) for k in a["supported_base_obs"] if k]
        return mod._diagonalize_subset_of_pauli_obs(a["tape"], a["supported_base_obs"], to_eigvals=False)

    # ---- views that work on the records and on the real objects ----------------------------------------------------------------------------
    def is_sym(tape):
        return isinstance(tape, Rec)

    def seq(x):
        return list(x.items) if isinstance(x, PyList) else list(x)

    def kind_of(op):
        k = op.cls.name if isinstance(op, Rec) else DG_REAL_NAME.get(type(op).__name__, type(op).__name__)
        return k if k in DG_KINDS.values() or k == "Prod" else "Opaque"

    def leaves_of(obs):
        """[(kind, wire)] of a basic observable / a product of leaves, in operand order; an opaque (non-Pauli) leaf is
        ("Opaque", (its wires, the observable))"""
        if kind_of(obs) == "Prod":
            return [l for o in obs.operands for l in leaves_of(o)]
        if kind_of(obs) == "Opaque":
            return [("Opaque", (seq(obs.wires), obs))]
        return [(kind_of(obs), seq(obs.wires)[0])]

    def leaf_wires(leaf):
        return leaf[1][0] if leaf[0] == "Opaque" else [leaf[1]]

    def opaque_same(a, b):
        """the same observable: same (uninterpreted) matrix on the same wires"""
        if isinstance(a, Rec) or isinstance(b, Rec):
            if not (isinstance(a, Rec) and isinstance(b, Rec)) or a.cls is not b.cls or len(seq(a.wires)) != len(seq(b.wires)):
                return False
            return And(a.ident == b.ident, *[x == y for x, y in zip(seq(a.wires), seq(b.wires))])
        import pennylane as qp
        return bool(qp.equal(a, b))

    def tape_view(tape):
        """([(j, leaves)] of the observable measurements, [(j, occupied wires)] of the computational-basis ones)"""
        obs_mps, cb_mps = [], []
        all_wires = seq(tape.wires)
        for j, m in enumerate(seq(tape.measurements)):
            if m.obs is None:
                ws = seq(m.wires) if m.wires is not None else []
                cb_mps.append((j, ws if len(ws) > 0 else all_wires))
            else:
                obs_mps.append((j, leaves_of(m.obs)))
        return obs_mps, cb_mps

    def supported_kinds(sup):
        """kind -> condition under which the kind is supported (not switched)"""
        flags = {"Z": True, "Identity": True, "X": False, "Y": False, "Hadamard": False}
        for e in seq(sup):
            if isinstance(e, MaybeCls):
                flags[e.name] = Or(flags[e.name], e.flag)
            elif isinstance(e, str):
                flags[e] = True
            elif e is not None:
                flags[DG_REAL_NAME.get(getattr(e, "__name__", ""), getattr(e, "__name__", ""))] = True
        return flags

    def conflict(o):
        """the measurement set is not simultaneously measurable qubit-wise"""
        obs_mps, cb_mps = tape_view(o.tape)
        flat = [l for _, ls in obs_mps for l in ls if l[0] != "Identity"]
        cs = []
        for a in range(len(flat)):
            for b in range(a + 1, len(flat)):
                share = [x == y for x in leaf_wires(flat[a]) for y in leaf_wires(flat[b])]
                if flat[a][0] == "Opaque" and flat[b][0] == "Opaque":
                    cs.append(And(Or(*share), Not(opaque_same(flat[a][1][1], flat[b][1][1]))))
                elif flat[a][0] != flat[b][0]:
                    cs.append(Or(*share))
        for leaf in flat:
            if leaf[0] != "Z":
                cs += [x == u for x in leaf_wires(leaf) for _, ws in cb_mps for u in ws]
        return Or(*cs) if cs else False

    def well_formed(a):
        if not is_sym(a.tape):
            return True
        tw = seq(a.tape.wires)
        obs_mps, cb_mps = tape_view(a.tape)
        used = [x for _, ls in obs_mps for l in ls for x in leaf_wires(l)] + [x for (j, _) in cb_mps for x in seq(a.tape.measurements.items[j].wires)]
        facts = [z3.Distinct(*tw)] + [z3.Or(*[x == u for u in tw]) for x in used]
        for j, _ in cb_mps:
            ws = seq(a.tape.measurements.items[j].wires)
            if len(ws) > 1:
                facts.append(z3.Distinct(*ws))
        for _, ls in obs_mps:
            facts += [z3.Distinct(*leaf_wires(l)) for l in ls if len(leaf_wires(l)) > 1]
        return z3.And(*facts)

    def close(a, b):
        import numpy as np
        a, b = np.asarray(a, dtype=float), np.asarray(b, dtype=float)
        return a.shape == b.shape and bool(np.allclose(a, b, atol=1e-9, rtol=0))

    def native_post(o, r):
        """the property itself: ops + gates, measured with new_measurements, reproduces the results of the original tape"""
        import pennylane as qp
        gates, new_mps = r
        tape = o.tape
        if len(new_mps) != len(tape.measurements):
            return False
        dev = qp.device("default.qubit")
        wires = list(tape.wires)

        def analytic(m):
            if isinstance(m, (qp.measurements.SampleMP, qp.measurements.CountsMP)) and m.obs is None:
                return qp.probs(wires=list(m.wires) if len(m.wires) else wires)     # the distribution the samples are drawn from
            if isinstance(m, qp.measurements.ProbabilityMP) and m.obs is None and not len(m.wires):
                return qp.probs(wires=wires)
            return m
        for m, nm in zip(tape.measurements, new_mps):
            if type(m) is not type(nm):
                return False
            if m.obs is None and not (nm.obs is None and nm.wires == m.wires):
                return False
        ref = dev.execute(qp.tape.QuantumScript(tape.operations, [analytic(m) for m in tape.measurements]))
        got = dev.execute(qp.tape.QuantumScript(list(tape.operations) + list(gates), [analytic(m) for m in new_mps]))
        if len(tape.measurements) == 1:
            ref, got = (ref,), (got,)
        return all(close(x, y) for x, y in zip(ref, got))

    def post(o, r, nw):
        if not is_sym(o.tape):
            return native_post(o, r)
        if not isinstance(r, tuple) or len(r) != 2 or not isinstance(r[0], PyList) or not isinstance(r[1], PyList):
            return False
        gates, new_mps = r[0].items, r[1].items
        mps = o.tape.measurements.items
        if len(new_mps) != len(mps):
            return False
        if not all(isinstance(g, Rec) and g.cls.name == "BasisChange" for g in gates):
            return False
        goals = []
        if len(gates) > 1:
            goals.append(z3.Distinct(*[g.wire for g in gates]))                       # at most one basis change per wire
        obs_mps, cb_mps = tape_view(o.tape)
        live = nw.tape.measurements.items
        for j, occupied in cb_mps:
            if new_mps[j] is not live[j] and new_mps[j] is not mps[j]:
                return False
            goals += [g.wire != u for g in gates for u in occupied]                   # occupied wires carry no basis change
        for j, ls in obs_mps:
            nm = new_mps[j]
            if not isinstance(nm, Rec) or nm.cls is not mps[j].cls or not isinstance(nm.obs, Rec):
                return False
            if (kind_of(nm.obs) == "Prod") != (kind_of(mps[j].obs) == "Prod"):
                return False
            nls = leaves_of(nm.obs)
            if len(nls) != len(ls):
                return False
            for (k, x), (nk, nx) in zip(ls, nls):
                if k == "Opaque" or nk == "Opaque":
                    if k != nk:
                        return False
                    goals.append(opaque_same(nx[1], x[1]))                              # returned unchanged
                    goals += [g.wire != u for g in gates for u in x[0]]                 # none of its wires carries a basis change
                    continue
                goals.append(nx == x)
                if k == "Identity":
                    if nk != "Identity":
                        return False
                    continue
                for g in gates:
                    goals.append(Implies(g.wire == x, g.kind == k and nk == "Z"))
                goals.append(Implies(And(*[g.wire != x for g in gates]), nk == k))
        return And(*goals)

    cb_pool = DG_CB
    obs_pool = DG_OBS if tier != "quick" else [s for s in DG_OBS if s not in (("V", "x"),)]
    shapes = [(s,) for s in DG_OBS + DG_CB]
    shapes += [(a, b) for a in cb_pool for b in obs_pool] + [(b, a) for a in cb_pool for b in obs_pool]
    shapes += [(a, b) for a in obs_pool for b in obs_pool]
    shapes += [(("P", 0), ("P", 1)), (("S", 0), ("C", 1))]
    shapes += DG_TRIPLES
    n_pauli_shapes = len(shapes)
    shapes += [(s,) for s in DG_OPQ] + [(a, b) for a in DG_OPQ for b in DG_OPQ]
    shapes += [p for a in DG_OPQ for b in obs_pool + cb_pool for p in ((a, b), (b, a))] + DG_OPQ_TRIPLES
    if tier != "quick":
        shapes += [(a, b, c) for a in (("P", 0), ("P", 1)) for b in DG_OBS[:5] for c in DG_OBS[:7]]
    cases = []
    for shape in shapes:
        c = Case(dg_label(shape), {"tape": T("build", mk_tape(shape), gen=gen_tape(shape)),
                                   "supported_base_obs": T("build", mk_supported, gen=gen_supported)},
                 size_bounded=True, max_paths=4000, requires=well_formed, ensures=post, native_call=native_call,
                 raises={"ValueError": conflict}, must_return=lambda o: Not(conflict(o)))
        c.interp_cls = DInterp
        cases.append(c)
    fc = FnContract(w, "_diagonalize_subset_of_pauli_obs", cases)
    for q in ("_diagonalize_subset_of_pauli_obs", "_diagonalize_observable", "_check_if_diagonalizing", "_get_obs_and_gates",
              "_diagonalize_composite_op", "_diagonalize_non_basic_observable"):
        plan.fn_under_contract(DG, q)
    for ob in obligations_for("C20", fc, tier):
        plan.add(ob)
    return {"bounds": [f"_diagonalize_subset_of_pauli_obs: {n_pauli_shapes} Pauli measurement lists: every single measurement of "
                       f"{len(DG_OBS)} observable shapes (leaves X / Y / Z / Hadamard / Identity, products of two leaves, expval / var) and "
                       f"{len(DG_CB)} computational-basis shapes (probs / sample / counts with 0..2 wires), all ordered pairs "
                       "computational-basis x observable and observable x observable, 2 computational-basis pairs, "
                       f"{len(DG_TRIPLES)} triples; {DG_NW} distinct symbolic tape wires, every measurement wire any of them; "
                       "supported_base_obs any subset of {X, Y, Hadamard} (symbolic); to_eigvals=False",
                       f"_diagonalize_subset_of_pauli_obs with an opaque non-Pauli leaf (default _diagonalize_non_basic_observable body, F37): "
                       f"{len(DG_OPQ)} shapes (opaque observable on 1 / 2 symbolic wires, product X @ opaque) alone, all ordered pairs among "
                       f"them and with every observable / computational-basis shape above, {len(DG_OPQ_TRIPLES)} triples; the observable's "
                       "identity (matrix) is an uninterpreted label"],
            "assumed": ["X / Y / Hadamard(w).diagonalizing_gates(): a basis change G on wire w with G^dagger Z(w) G == the observable (none "
                        "for Z / Identity); measuring unchanged observables on wires without basis change is unaffected",
                        "functools.singledispatch of _diagonalize_non_basic_observable: a CompositeOp (Prod) goes to _diagonalize_composite_op, "
                        "a non-Pauli, non-composite observable (Hermitian ...) to the default body",
                        "an opaque non-Pauli observable keeps its result iff no basis change acts on any of its wires; two such observables "
                        "are equal (set membership) iff same matrix label and same wires; it is never known to commute with a different "
                        "non-identity observable or a computational-basis measurement on a shared wire",
                        "operator equality / hashing in python sets: same class and same wires; measurement_process.samples_computational_basis "
                        "== (obs is None); type(m)(obs) builds the same kind of measurement of obs; qp.wires.Wires([]) == m.wires iff m has no wires"],
            "assumptions": ["diagonalize bookkeeping: tape.wires are the distinct wires of the tape and contain every measurement wire"]}


def build(tier, seed):
    plan = Plan("C20", level="other")
    try:
        import pennylane  # noqa: F401  (loaded once here: the forked obligation workers replay counter-models on the real code)
    except Exception:  # pylint: disable=broad-except
        pass
    plan.explanation = ("The real bodies of the splitter and of the post-processing functions are executed symbolically on concrete tape "
                        "SHAPES with symbolic coefficients, offsets, results and observable identities (dictionary lookups fork on the "
                        "equality of measurement keys); each returned dictionary / tuple is compared with the sum formula over the "
                        "uninterpreted result function val, linear for expectation values.")
    plan.trusted_base = ["vf/pyvc encoder (Python subset semantics) incl. vf/pyvc/xmaps.py (ordered dicts with symbolic key identity)",
                         "z3 (linear / non-linear real arithmetic, datatypes)"]
    plan.assumptions = ["A-linearity: val(expval(sum c_i o_i)) == sum c_i val(expval(o_i)), val(expval(Identity)) == 1; obs.terms() returns "
                        "the (c_i, o_i) of the observable, each o_i a single-term operator or Identity (hypotheses of every splitter case)",
                        "measurement processes are equal (as dictionary keys) iff they have the same class and equal observables; equal "
                        "measurement processes have equal results; observable identity is an uninterpreted label",
                        "A-float-as-real: coefficients, offsets and results are real SCALARS (array-valued results -- probs / sample / counts, "
                        "shot vectors, broadcast batches -- only travel on the pass-through path coeffs == [1], offset == 0)",
                        "every measurement class other than ExpectationMP behaves like the representative VarianceMP / ProbabilityMP stubs "
                        "(the code under contract only tests isinstance(mp, ExpectationMP))"]
    plan.assumed_contracts = ["qp.expval(o): the ExpectationMP of o",
                              "qp.math on real scalars: is_abstract -> False, get_interface -> 'numpy', requires_grad -> False, squeeze / "
                              "array / stack -> identity, dot -> product, sum(axis=0) -> sum, ones(()) -> 1",
                              "Prod/SProd.simplify(): an arbitrary observable given with the input"]
    plan.dropped = ["docstrings, annotations, the message of the RuntimeError"]

    cell = {}

    def b_mp_key(it, args, kw):
        return key_term(args[0])

    def b_expval(it, args, kw):
        (o,) = args
        return Rec(w.classes["ExpectationMP"], {"obs": o, "ident": o.ident})

    def b_mp_eq(it, args, kw):
        a, b = args
        if not (isinstance(a, Rec) and isinstance(b, Rec)):
            return False
        return key_term(a) == key_term(b)

    def b_sum(it, args, kw):
        r = 0
        for x in it.iter_concrete(args[0]):
            r = it.binop(__import__("ast").Add(), r, x)
        return r

    def b_ones(it, args, kw):
        if args[0] != ():
            raise Unsupp("qp.math.ones of a non-scalar shape (broadcast batches are outside the scalar model)")
        return 1
    import ast as _ast
    math_models = {"qp.math.is_abstract": lambda it, a, k: False, "qp.math.get_interface": lambda it, a, k: "numpy",
                   "qp.math.requires_grad": lambda it, a, k: False, "qp.math.array": lambda it, a, k: a[0],
                   "qp.math.squeeze": lambda it, a, k: a[0], "qp.math.stack": lambda it, a, k: a[0],
                   "qp.math.dot": lambda it, a, k: it.binop(_ast.Mult(), a[0], a[1]), "qp.math.sum": b_sum, "qp.math.ones": b_ones}
    stubs = {k: (MP_SRC.format(k), {"obs": Label, "ident": Label}) for k in MP_TAG}
    stubs.update({k: (OBS_SRC.format(k), {"ident": Label}) for k in ("Obs", "Identity")})
    stubs.update({k: (COMP_SRC.format(k), {"ident": Label}) for k in ("Sum", "SProd", "Prod")})
    stubs["Tape"] = (OBS_SRC.format("Tape"), {"measurements": Label})
    w = World(SNC, stubs=stubs, functions=["_sum_terms", "_split_all_multi_term_obs_mps", "_processing_fn_no_grouping"],
              classes={"SingleTermMP": {"indices": Int, "coeffs": Int, "group_idx": Int, "idx_in_group": Int}},
              extra_builtins=dict(math_models, **{"odict_keyfn": b_mp_key, "qp.expval": b_expval, "__mp_eq__": b_mp_eq}))
    KEYs = w.sort_of(KEY_T)
    VALF = z3.Function("val", KEYs, z3.RealSort())          # the result of executing a measurement process

    def key_term(mp):
        obs = mp.f.get("obs")
        return w.box((MP_TAG[mp.cls.name], OBS_TAG[obs.cls.name if obs is not None else None], obs.ident if obs is not None else mp.ident), KEY_T)

    # ---- symbolic tapes of a given shape ---------------------------------------------------------------------------------------------
    def mk_obs(ctx, name, okind, terms):
        lab = lambda s: z3.Const(ctx.fresh_name(f"{name}.{s}"), LabelSort)
        if okind is None:
            return None
        if okind in ("Obs", "Identity"):
            return Rec(w.classes[okind], {"ident": lab("id")})
        cs = [FloatV(z3.Real(ctx.fresh_name(f"{name}.c{i}"))) for i in range(len(terms))]
        os_ = [Rec(w.classes["Identity" if t == "i" else "Obs"], {"ident": lab(f"t{i}")}) for i, t in enumerate(terms)]
        r = Rec(w.classes[okind], {"terms_c": PyList(cs), "terms_o": PyList(os_), "ident": lab("id")})
        # simplify() of a Sum/SProd stays in its class here (V:Sum raises, V:SProd is kept): an equal observable
        r.f["simplified"] = Rec(w.classes[okind], {"terms_c": r.terms_c, "terms_o": r.terms_o, "ident": r.ident, "simplified": None})
        return r

    def mk_tape(shape):
        def mk(ctx, name):
            mps = []
            for j, (mk_, okind, terms) in enumerate(shape):
                cls = {"E": "ExpectationMP", "V": "VarianceMP", "P": "ProbabilityMP"}[mk_]
                obs = mk_obs(ctx, f"{name}.m{j}", okind, terms)
                mps.append(Rec(w.classes[cls], {"obs": obs, "ident": obs.ident if obs is not None
                                                else z3.Const(ctx.fresh_name(f"{name}.m{j}.wires"), LabelSort)}))
            return Rec(w.classes["Tape"], {"measurements": PyList(mps)})
        return mk

    def gen_tape(shape):
        def gen(rng):
            def obs(okind, terms):
                if okind is None:
                    return None
                if okind in ("Obs", "Identity"):
                    return {"__class__": okind, "ident": f"L{rng.randint(0, 5)}"}
                return {"__class__": okind, "terms_c": [rng.choice([1.0, -1.0, 0.5, 2.0, 3.0, -0.25]) for _ in terms],
                        "terms_o": [{"__class__": "Identity" if t == "i" else "Obs", "ident": f"L{rng.randint(0, 5)}"} for t in terms],
                        "ident": f"L{rng.randint(10, 90)}", "simplified": None}
            return {"__class__": "Tape", "measurements": [
                {"__class__": {"E": "ExpectationMP", "V": "VarianceMP", "P": "ProbabilityMP"}[m], "obs": obs(o, t), "ident": f"L{rng.randint(0, 1)}"}
                for m, o, t in shape]}
        return gen

    # ---- real objects for the replay -----------------------------------------------------------------------------------------------------
    def lab_index(lab):
        digits = "".join(ch for ch in str(lab) if ch.isdigit())
        return int(digits) if digits else 0

    def real_obs(fields):
        import pennylane as qp
        pool = [lambda: qp.X(0), lambda: qp.Z(0), lambda: qp.Y(1), lambda: qp.Z(1), lambda: qp.Hadamard(0), lambda: qp.Y(0)]
        return pool[lab_index(fields.get("ident")) % len(pool)]()

    def real_comp(kind):
        def mk(fields):
            import pennylane as qp
            cs, os_ = [float(c) for c in fields["terms_c"]], list(fields["terms_o"])
            if kind == "SProd":
                return qp.s_prod(cs[0], os_[0])
            return qp.sum(*[qp.s_prod(c, o) for c, o in zip(cs, os_)])
        return mk

    def real_mp(kind):
        def mk(fields):
            import pennylane as qp
            if kind == "ExpectationMP":
                return qp.expval(fields["obs"])
            if kind == "VarianceMP":
                return qp.var(fields["obs"])
            return qp.probs(wires=[lab_index(fields.get("ident")) % 2])
        return mk

    def state_prep():
        import pennylane as qp
        return [qp.RX(0.7, 0), qp.RY(0.3, 1), qp.CNOT([0, 1]), qp.RZ(0.4, 0), qp.RX(1.1, 1)]

    def real_tape(fields):
        import pennylane as qp
        return qp.tape.QuantumScript(state_prep(), list(fields["measurements"]))
    w.stub_realize = {"Obs": real_obs, "Identity": lambda f: __import__("pennylane").I(0), "Sum": real_comp("Sum"), "SProd": real_comp("SProd"),
                      "Prod": real_comp("Sum"), "ExpectationMP": real_mp("ExpectationMP"), "VarianceMP": real_mp("VarianceMP"),
                      "ProbabilityMP": real_mp("ProbabilityMP"), "Tape": real_tape}

    def n_val(mp):
        import pennylane as qp
        return qp.device("default.qubit").execute(qp.tape.QuantumScript(state_prep(), [mp]))

    def close(a, b):
        import numpy as np
        return bool(np.allclose(np.asarray(a, dtype=float), np.asarray(b, dtype=float), atol=1e-9, rtol=1e-9)) and np.shape(a) == np.shape(b)

    # ---- views ---------------------------------------------------------------------------------------------------------------------------
    def val(mp):
        return VALF(key_term(mp))

    def val_term(o):
        """val(expval(o)) for a single-term operator o; 1 for Identity"""
        if o.cls.name == "Identity":
            return z3.RealVal(1)
        return VALF(w.box((0, OBS_TAG[o.cls.name], o.ident), KEY_T))

    def linearity(tape):
        """hypotheses about val for the measurements of this tape (A-linearity)"""
        hyps = []
        for mp in tape.measurements.items:
            obs = mp.f.get("obs")
            if mp.cls.name != "ExpectationMP" or obs is None:
                continue
            if obs.cls.name == "Identity":
                hyps.append(val(mp) == 1)
            elif obs.cls.name in ("Sum", "SProd", "Prod"):
                total = z3.RealVal(0)
                for c, o in zip(obs.terms_c.items, obs.terms_o.items):
                    total = total + real_of(c) * val_term(o)
                hyps.append(val(mp) == total)
        return z3.And(*hyps) if hyps else True

    def d_items(d):
        if isinstance(d, X.ODictV):
            return [(k, (v[0].items, v[1].items)) for k, _, v in d.entries]
        return [(k, (list(v[0]), list(v[1]))) for k, v in d.items()]

    def split_post(o, r, nw):
        d, offsets = r
        if isinstance(o.tape, Rec):
            mps = o.tape.measurements.items
            offs = offsets.items
            goals = [len(offs) == len(mps)]
            for j, mp in enumerate(mps):
                total = real_of(offs[j]) if j < len(offs) else z3.RealVal(0)
                for key, (idxs, cs) in d_items(d):
                    for i_, c_ in zip(idxs, cs):
                        if not isinstance(i_, int):
                            raise Unsupp("symbolic measurement index in the result")
                        if i_ == j:
                            total = total + real_of(c_) * val(key)
                goals.append(val(mp) == total)
                goals.append(all(isinstance(i_, int) and 0 <= i_ < len(mps) for _, (idxs, _) in d_items(d) for i_ in idxs))
            return And(*goals)
        mps = list(nw.tape.measurements)
        if len(offsets) != len(mps):
            return False
        ok = True
        for j, mp in enumerate(mps):
            total = offsets[j]
            for key, (idxs, cs) in d_items(d):
                for i_, c_ in zip(idxs, cs):
                    if i_ == j:
                        total = total + c_ * n_val(key)
            ok = ok and close(n_val(mp), total)
        return ok

    def tape_t(shape):
        return T("build", mk_tape(shape), gen=gen_tape(shape))

    def repair_tape(rng, m):
        # composite observables carry `simplified` = themselves in the symbolic run; the real objects do not need the field
        def fix(x):
            if isinstance(x, dict):
                return {k: fix(v) for k, v in x.items() if k != "simplified"}
            if isinstance(x, list):
                return [fix(v) for v in x]
            return x
        return fix(m)

    split_cases = []
    shapes = [(s,) for s in M_SHAPES] + list(itertools.product(M_PAIRS, repeat=2)) + M_TRIPLES
    if tier == "quick":
        shapes = [s for i, s in enumerate(shapes) if len(s) != 2 or i % 2 == 0 or s[0] == s[1]]
    for shape in shapes:
        split_cases.append(Case(shape_label(shape), {"tape": tape_t(shape)}, size_bounded=True, max_paths=3000, native_gen=repair_tape,
                                requires=lambda a: linearity(a.tape) if isinstance(a.tape, Rec) else True, ensures=split_post))
    for shape in M_RAISING:
        split_cases.append(Case(shape_label(shape) + "/rejected", {"tape": tape_t(shape)}, size_bounded=True, native_gen=repair_tape,
                                requires=lambda a: linearity(a.tape) if isinstance(a.tape, Rec) else True,
                                ensures=lambda o, r, nw: False, raises={"RuntimeError": lambda o: True}))
    # DESIGN section 5, F13: a non-expectation measurement of Identity is replaced by the constant 1
    f13_label = shape_label(F13_TAPE)
    split_cases.append(Case(f13_label, {"tape": tape_t(F13_TAPE)}, size_bounded=True, native_gen=repair_tape,
                            requires=lambda a: linearity(a.tape) if isinstance(a.tape, Rec) else True, ensures=split_post))
    fc_split = FnContract(w, "_split_all_multi_term_obs_mps", split_cases)
    X.use_xinterp(fc_split)
    plan.fn_under_contract(SNC, "_split_all_multi_term_obs_mps")
    for ob in obligations_for("C20", fc_split, tier):      # F13 is fixed in the repository: an ordinary obligation now
        plan.add(ob)

    # ---- post-processing: _sum_terms, _processing_fn_no_grouping, _processing_fn_with_grouping ---------------------------------------------
    def reals(ctx, name, n):
        return PyList([FloatV(z3.Real(ctx.fresh_name(f"{name}{i}"))) for i in range(n)])

    def nclose(a, b):
        return abs(float(a) - float(b)) <= 1e-9 * (1 + abs(float(b)))

    def eq_num(a, b):
        if isinstance(a, (tuple, list, PyList)) or isinstance(b, (tuple, list, PyList)):
            return False                 # a container where a single result is expected (or vice versa)
        if isinstance(a, (FloatV, z3.ExprRef)) or isinstance(b, (FloatV, z3.ExprRef)):
            return real_of(a) == real_of(b)
        return nclose(a, b)

    def lin(cs, rs, off):
        total = real_of(off) if isinstance(off, (FloatV, z3.ExprRef)) or any(isinstance(x, FloatV) for x in list(cs) + list(rs)) else off
        for c, r_ in zip(cs, rs):
            total = total + (real_of(c) * real_of(r_) if isinstance(total, z3.ExprRef) else c * r_)
        return total

    def seq(x):
        return x.items if isinstance(x, PyList) else list(x)
    sum_cases = []
    for n in (0, 1, 2, 3):
        sum_cases.append(Case(f"{n} terms", {"res": T("build", lambda ctx, nm, n=n: reals(ctx, nm, n), gen=lambda rng, n=n: [rng.uniform(-2, 2) for _ in range(n)]),
                                             "coeffs": T("build", lambda ctx, nm, n=n: reals(ctx, nm, n),
                                                         gen=lambda rng, n=n: [rng.choice([1.0, 1.0, -0.5, 2.0, 0.0]) for _ in range(n)]),
                                             "offset": Float, "shape": T("const", ())}, size_bounded=True,
                              ensures=lambda o, r, nw: eq_num(r, lin(seq(o.coeffs), seq(o.res), o.offset))))
    # the pass-through of a single result with the integer coefficient list [1] and offset 0 (what the splitter stores for
    # measurements it does not split): the result OBJECT itself is returned
    sum_cases.append(Case("pass-through [1], 0", {"res": T("build", lambda ctx, nm: PyList([z3.Const(ctx.fresh_name("result"), LabelSort)]), gen=lambda rng: [[0.25, 0.75]]),
                                                   "coeffs": T("build", lambda ctx, nm: PyList([1]), gen=lambda rng: [1]),
                                                   "offset": T("const", 0), "shape": T("const", ())}, size_bounded=True,
                          ensures=lambda o, r, nw: (r == seq(o.res)[0]) if isinstance(r, z3.ExprRef) else (r is seq(nw.res)[0] or r == seq(o.res)[0])))
    fc_sum = FnContract(w, "_sum_terms", sum_cases)

    # dictionaries for the post-processing: per single-term measurement the list of original indices (coefficients symbolic)
    NG_SHAPES = [(1, []), (1, [[0]]), (1, [[0], [0]]), (1, [[0, 0]]), (2, [[0], [1]]), (2, [[0, 1]]), (2, [[1], [0, 1]]), (2, [[0]]),
                 (2, [[1, 0], [0]]), (3, [[0, 2], [1], [2, 1]]), (3, [[2], [0]]), (3, [[1], [1], [1]])]

    def ng_label(entries):
        return ".".join("-".join(map(str, e)) for e in entries) or "none"

    def mk_dict(entries):
        def mk(ctx, name):
            d = X.ODictV(lambda k: k)
            for p, idxs in enumerate(entries):
                k = z3.Const(ctx.fresh_name(f"{name}.key{p}"), LabelSort)
                d.entries.append((k, k, (PyList(list(idxs)), reals(ctx, f"{name}.c{p}_", len(idxs)))))
            return d
        return mk

    def gen_dict(entries):
        return lambda rng: {"__odict__": [[f"sm{p}", [list(idxs), [rng.choice([1.0, -1.0, 0.5, 2.0]) for _ in idxs]]] for p, idxs in enumerate(entries)]}

    def native_dict(x):
        return {k: (list(v[0]), list(v[1])) for k, v in x["__odict__"]} if isinstance(x, dict) and "__odict__" in x else x

    def expected_no_grouping(d, offsets, res):
        out = []
        offs = seq(offsets)
        items = d_items(d)
        for j in range(len(offs)):
            cs, rs = [], []
            for p, (_, (idxs, coeffs)) in enumerate(items):
                for i_, c_ in zip(idxs, coeffs):
                    if i_ == j:
                        cs.append(c_)
                        rs.append(seq(res)[p])
            out.append(lin(cs, rs, offs[j]))
        return out

    def tuple_post(r, exp):
        if len(exp) == 1:
            return eq_num(r, exp[0])
        if not isinstance(r, tuple) or len(r) != len(exp):
            return False
        return And(*[eq_num(a, b) for a, b in zip(r, exp)])

    def native_ng(mod, a):
        a["single_term_obs_mps"] = native_dict(a["single_term_obs_mps"])
        return mod._processing_fn_no_grouping(a["res"], a["single_term_obs_mps"], a["offsets"], a["batch_size"])
    ng_cases = []
    for m, entries in NG_SHAPES:
        ng_cases.append(Case(f"{m} measurements, index lists {ng_label(entries)}",
                             {"res": T("build", lambda ctx, nm, n=len(entries): reals(ctx, nm, n), gen=lambda rng, n=len(entries): [rng.uniform(-1, 1) for _ in range(n)]),
                              "single_term_obs_mps": T("build", mk_dict(entries), gen=gen_dict(entries)),
                              "offsets": T("build", lambda ctx, nm, m=m: reals(ctx, nm, m), gen=lambda rng, m=m: [rng.choice([0.0, 0.0, 1.0, -0.5]) for _ in range(m)]),
                              "batch_size": T("const", None)}, size_bounded=True, native_call=native_ng, max_paths=2000,
                             ensures=lambda o, r, nw: tuple_post(r, expected_no_grouping(o.single_term_obs_mps if isinstance(o.single_term_obs_mps, X.ODictV)
                                                                                         else native_dict(o.single_term_obs_mps), o.offsets, o.res))))
    fc_ng = FnContract(w, "_processing_fn_no_grouping", ng_cases)

    # with grouping: every single-term measurement sits at (group_idx, idx_in_group); a group of size 1 returns its result unwrapped
    WG_SHAPES = [(1, [1], [(0, 0, [0])]), (2, [2], [(0, 0, [0]), (0, 1, [1, 0])]), (2, [1, 2], [(1, 1, [0]), (0, 0, [1]), (1, 0, [0, 1])]),
                 (3, [2, 1, 1], [(0, 1, [2]), (1, 0, [0, 0]), (2, 0, [1]), (0, 0, [1, 2])]), (2, [1], [(0, 0, [1])])]

    def mk_terms(terms):
        def mk(ctx, name):
            d = X.ODictV(lambda k: k)
            for p, (g, ig, idxs) in enumerate(terms):
                k = z3.Const(ctx.fresh_name(f"{name}.key{p}"), LabelSort)
                d.entries.append((k, k, Rec(w.classes["SingleTermMP"], {"indices": PyList(list(idxs)), "coeffs": reals(ctx, f"{name}.c{p}_", len(idxs)),
                                                                         "group_idx": g, "idx_in_group": ig})))
            return d
        return mk

    def mk_group_res(sizes):
        return lambda ctx, name: PyList([FloatV(z3.Real(ctx.fresh_name(f"{name}.g{g}"))) if n == 1 else
                                         tuple(FloatV(z3.Real(ctx.fresh_name(f"{name}.g{g}_{i}"))) for i in range(n)) for g, n in enumerate(sizes)])

    def expected_grouping(terms, sizes, offsets, res):
        out = []
        offs, res = seq(offsets), seq(res)
        for j in range(len(offs)):
            cs, rs = [], []
            for (g, ig, idxs, coeffs) in terms:
                sub = res[g] if sizes[g] == 1 else res[g][ig]
                for i_, c_ in zip(idxs, coeffs):
                    if i_ == j:
                        cs.append(c_)
                        rs.append(sub)
            out.append(lin(cs, rs, offs[j]))
        return out

    def terms_of(d):
        if isinstance(d, X.ODictV):
            return [(v.group_idx, v.idx_in_group, v.indices.items, v.coeffs.items) for _, _, v in d.entries]
        return [(v.group_idx, v.idx_in_group, list(v.indices), list(v.coeffs)) for v in d.values()]

    def native_wg(mod, a):
        x = a["single_term_obs_mps"]
        if isinstance(x, dict) and "__odict__" in x:
            a["single_term_obs_mps"] = {k: mod.SingleTermMP(list(v["indices"]), list(v["coeffs"]), v["group_idx"], v["idx_in_group"])
                                        for k, v in x["__odict__"]}
        a["res"] = [r_ if not isinstance(r_, list) else tuple(r_) for r_ in a["res"]]
        return mod._processing_fn_with_grouping(a["res"], a["single_term_obs_mps"], a["offsets"], a["group_sizes"], a["batch_size"])
    wg_cases = []
    for m, sizes, terms in WG_SHAPES:
        wg_cases.append(Case(f"{m} measurements, groups {'-'.join(map(str, sizes))}, terms " + ".".join(f"g{g}i{ig}at{'-'.join(map(str, ix))}" for g, ig, ix in terms),
                             {"res": T("build", mk_group_res(sizes), gen=lambda rng, sizes=sizes: [rng.uniform(-1, 1) if n == 1 else [rng.uniform(-1, 1) for _ in range(n)] for n in sizes]),
                              "single_term_obs_mps": T("build", mk_terms(terms), gen=lambda rng, terms=terms: {"__odict__": [
                                  [f"sm{p}", {"indices": list(idxs), "coeffs": [rng.choice([1.0, -1.0, 0.5, 2.0]) for _ in idxs], "group_idx": g, "idx_in_group": ig}]
                                  for p, (g, ig, idxs) in enumerate(terms)]}),
                              "offsets": T("build", lambda ctx, nm, m=m: reals(ctx, nm, m), gen=lambda rng, m=m: [rng.choice([0.0, 1.0, -0.5]) for _ in range(m)]),
                              "group_sizes": T("const", PyList(list(sizes))), "batch_size": T("const", None)},
                             size_bounded=True, native_call=native_wg, max_paths=2000,
                             ensures=lambda o, r, nw, sizes=sizes: tuple_post(r, expected_grouping(terms_of(nw.single_term_obs_mps), sizes, o.offsets, o.res))))
    fc_wg = FnContract(w, "_processing_fn_with_grouping", wg_cases)
    for fc in (fc_sum, fc_ng, fc_wg):
        X.use_xinterp(fc)
        plan.fn_under_contract(SNC, fc.qualname)
        for ob in obligations_for("C20", fc, tier):
            plan.add(ob)

    # ---- split_to_single_terms.<locals>.post_processing_split_sums: the closure's free variables are ghost values ------------------------------
    from vf.common import find_def
    w2 = World(STS, stubs={"Tape": (OBS_SRC.format("Tape"), {"measurements": Label})},
               extra_builtins=dict(math_models, **{"__free__": lambda it, a, k: it.ctx.ghost["free"][a[0]]}))
    for fn_name in ("_processing_fn_no_grouping", "_sum_terms"):
        w2.functions[fn_name] = find_def(SNC, fn_name)[1]
    for free in ("single_term_obs_mps", "offsets", "tape", "new_tape"):
        w2.module_consts[free] = _ast.parse(f"__free__({free!r})", mode="eval").body

    def closure_ghost(m, entries):
        def ghost(ctx, a):
            d = mk_dict(entries)(ctx, "single_term_obs_mps")
            ctx.ghost["free"] = {"single_term_obs_mps": d, "offsets": reals(ctx, "offsets", m),
                                 "tape": Rec(w2.classes["Tape"], {"measurements": PyList([None] * m), "batch_size": None}),
                                 "new_tape": Rec(w2.classes["Tape"], {"measurements": PyList([k for k, _, _ in d.entries])})}
        return ghost

    def closure_axioms(o, r, nw, loc):
        cell["free"] = loc.ghost.free
        return []

    def mk_batch_res(n):
        """what executing the batch (new_tape,) returns: one entry, the scalar result of a single measurement / the tuple of results"""
        def mk(ctx, name):
            rs = [FloatV(z3.Real(ctx.fresh_name(f"{name}{i}"))) for i in range(n)]
            return (rs[0],) if n == 1 else (tuple(rs),)
        return mk

    def closure_post(o, r, nw):
        if isinstance(o.res, tuple) and not isinstance(o.res, dict) and "free" in cell and not isinstance(o.res[0] if o.res else None, dict) \
                and (not o.res or not isinstance(o.res[0], str)):
            free = cell["free"]
            n = len(free["single_term_obs_mps"].entries)
            flat = list(o.res) if n == 1 else list(o.res[0])
            return tuple_post(r, expected_no_grouping(free["single_term_obs_mps"], free["offsets"], flat))
        return False

    # replay: the REAL closure only exists inside a call of split_to_single_terms -- the native run is end to end on a generated tape:
    # transform, execute the new tape, apply the closure, compare with the direct execution of the original tape
    def native_closure(mod, a):
        import pennylane as qp
        from vf.pyvc.contract import realize
        tape = realize(w, a["res"]["tape"], __import__("importlib").import_module("pennylane.transforms.split_non_commuting"))
        dev = qp.device("default.qubit")
        (new_tape,), fn = mod.split_to_single_terms(tape)
        a["res"] = {"direct": dev.execute(tape), "n": len(tape.measurements)}
        return fn(dev.execute((new_tape,)))

    def native_closure_post(o, r, nw):
        direct, n = nw.res["direct"], nw.res["n"]
        if n == 1:
            return close(r, direct)
        return isinstance(r, tuple) and len(r) == n and all(close(x, y) for x, y in zip(r, direct))

    def gen_closure(rng, m):
        import random
        rng = rng or random.Random(repr(m)[:200])
        pool = [sh for sh in M_SHAPES if sh[0] != "V" or sh[1] == "Obs"]
        shape = tuple(rng.choice(pool) for _ in range(rng.choice([1, 1, 2, 2, 3])))
        return {"res": {"tape": repair_tape(None, gen_tape(shape)(rng))}}
    cl_cases = []
    for m, entries in NG_SHAPES:
        cl_cases.append(Case(f"{m} measurements, index lists {ng_label(entries)}",
                             {"res": T("build", mk_batch_res(len(entries)), gen=lambda rng: None)}, size_bounded=True, max_paths=2000,
                             ghost=closure_ghost(m, entries), axioms=closure_axioms, native_call=native_closure, native_gen=gen_closure,
                             ensures=lambda o, r, nw: native_closure_post(o, r, nw) if isinstance(nw.res, dict) else closure_post(o, r, nw)))
    fc_cl = FnContract(w2, "split_to_single_terms.<locals>.post_processing_split_sums", cl_cases)
    X.use_xinterp(fc_cl)
    plan.fn_under_contract(STS, fc_cl.qualname)
    for ob in obligations_for("C20", fc_cl, tier):
        plan.add(ob)

    # ---- composition: the two contracts give the property (results of each measurement preserved) -------------------------------------------
    v, off, c1, c2, r1, r2, s1, s2 = z3.Reals("v off c1 c2 r1 r2 s1 s2")
    plan.add(lemma("C20", "composition/split-then-process-returns-val", [v, off, c1, c2, r1, r2, s1, s2],
                   z3.Implies(z3.And(v == off + c1 * s1 + c2 * s2,            # splitter contract for measurement j (two contributions)
                                     r1 == s1, r2 == s2),                      # the executed single-term results are the val's
                              off + c1 * r1 + c2 * r2 == v)))                  # what the post-processing contract returns for j
    bp_bounds = add_split_operations(plan, tier)
    dg_bounds = add_diagonalize_bookkeeping(plan, tier)
    plan.explanation += ("  batch_params / batch_input: the real body of the shared helper _split_operations is executed on operator lists of "
                         "enumerated arities with symbolic parameter values, for every subset of parameter slots marked as batched.  "
                         "diagonalize_measurements: the real bodies of _diagonalize_subset_of_pauli_obs and of everything it calls are executed "
                         "on tapes of enumerated measurement shapes with SYMBOLIC wire labels (set membership forks on wire equality); the returned "
                         "rotations and measurements are compared with the conjugation table of single-qubit basis changes.")
    plan.assumed_contracts += bp_bounds["assumed"] + dg_bounds["assumed"]
    plan.assumptions += bp_bounds["assumptions"] + dg_bounds["assumptions"]
    plan.size_bounds = bp_bounds["bounds"] + dg_bounds["bounds"] + [f"_split_all_multi_term_obs_mps: tapes of 1..3 measurements from {len(M_SHAPES)} measurement shapes (sums of up to 3 terms, "
                        "Identity terms at every position, SProd, plain / Identity observables, non-expectation measurements with and without "
                        "observable); all single tapes, pairs over a 7-shape subset (every second ordered pair in the quick tier), 4 triples",
                        "_sum_terms: 0..3 terms; _processing_fn_no_grouping: 12 dictionary shapes (<= 3 measurements, <= 3 single-term "
                        "measurements); _processing_fn_with_grouping: 5 group layouts (<= 3 groups of size <= 2)"]
    plan.unverified = ["grouping strategies (qwc / wires / shot distribution), _split_ham_with_grouping, _split_using_*_grouping",
                       "the tape construction of both transforms (tape.copy / QuantumScript(...)), null_postprocessing shortcuts",
                       "sign_expand, broadcast_expand, execution",
                       "batch_params / batch_input beyond _split_operations: validation of the batch dimensions / argnum, construction of the "
                       "output tapes, the _nested_stack post-processing, bind_new_parameters itself, templates with tensor-valued weights",
                       "diagonalize_measurements beyond the bookkeeping of _diagonalize_subset_of_pauli_obs: the pauli_rep based path "
                       "(_diagonalize_all_pauli_obs, diagonalize_qwc_pauli_words, _change_obs_to_Z), the transform wrapper (supported_base_obs / "
                       "to_eigvals validation, the QuantumFunctionError fallback, tape.copy), to_eigvals=True, SProd / Sum / LinearCombination "
                       "observables (_diagonalize_symbolic_op, _diagonalize_linear_combination), the gates returned by diagonalizing_gates()",
                       "array-valued results, shot vectors (shot_vector_support), broadcast batches (batch_size > 1), autograd / abstract tensors",
                       "tapes containing a non-expectation measurement of Identity are represented by ONE instance (F13: the contract is "
                       "refuted there)"]
    return plan
