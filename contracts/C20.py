"""C20 Measurement splitting preserves results -- the bookkeeping core of split_non_commuting / split_to_single_terms.

`val(mp)` is the (uninterpreted) result of executing a measurement process; the mathematical facts the transform relies on are
hypotheses about `val`:   val(expval(sum_i c_i o_i)) == sum_i c_i val(expval(o_i)),   val(expval(Identity)) == 1,   and obs.terms()
returns the (c_i, o_i) of the observable.  Measurement processes key dictionaries by (measurement class, observable class,
observable identity) -- an uninterpreted equality (qp.equal assumed an equivalence that results respect).

  _split_all_multi_term_obs_mps(tape) -> (single_term_obs_mps, offsets):
        for EVERY original measurement j:   val(mp_j) == offsets[j] + sum over single-term measurements sm and positions k with
        idxs(sm)[k] == j of coeffs(sm)[k] * val(sm)                         (results of each measurement preserved)
  _processing_fn_no_grouping / _processing_fn_with_grouping / _sum_terms: return exactly that sum for each j, in the ORIGINAL order,
        unwrapped for a single measurement.
SIZE-BOUNDED: concrete tape shapes (number / kind of measurements, number of terms, which terms are Identity), every coefficient,
offset, result and every observable IDENTITY symbolic (so sharing of single-term measurements between observables is covered).
"""
import itertools

import z3

from vf.common import Plan
from vf.pyvc.engine import World, T, Int, Float, Label, LabelSort, TupleT, Rec, PyList, FloatV, Opaque, Unsupp, RaiseExc
from vf.pyvc.engine import real_of as _real_of
from vf.pyvc.contract import FnContract, Case, obligations_for, lemma
from vf.pyvc import spec as S
from vf.pyvc import xmaps as X
from vf.pyvc.spec import And, Or, Not, Implies, If

def real_of(x):
    """real term of a numeric value (z3 reals pass through)"""
    if isinstance(x, z3.ArithRef) and x.is_real():
        return x
    return _real_of(x)


SNC = "pennylane/transforms/split_non_commuting.py"
STS = "pennylane/transforms/split_to_single_terms.py"

MP_SRC = "class {0}:\n    def __eq__(self, other):\n        return __mp_eq__(self, other)\n"
OBS_SRC = "class {0}:\n    pass\n"
COMP_SRC = "class {0}:\n    def terms(self):\n        return (self.terms_c, self.terms_o)\n    def simplify(self):\n        return self.simplified\n"
MP_TAG = {"ExpectationMP": 0, "VarianceMP": 1, "ProbabilityMP": 2}
OBS_TAG = {None: 0, "Obs": 1, "Identity": 2, "Sum": 3, "SProd": 4, "Prod": 5}
KEY_T = TupleT(Int, Int, Label)

# measurement shapes: (measurement kind, observable kind, terms)   terms: 'o' = a non-identity single-term operator, 'i' = Identity
E_SUMS = [("E", "Sum", t) for t in ("o", "i", "oo", "oi", "io", "ooo", "oio")]
M_SHAPES = E_SUMS + [("E", "SProd", "o"), ("E", "Obs", ""), ("E", "Identity", ""), ("V", "Obs", ""), ("V", "SProd", "o"), ("P", None, "")]
M_PAIRS = [("E", "Sum", "oo"), ("E", "Sum", "oi"), ("E", "Sum", "ooo"), ("E", "Obs", ""), ("E", "Identity", ""), ("V", "Obs", ""), ("P", None, "")]
M_TRIPLES = [(("E", "Sum", "oo"), ("E", "Sum", "oi"), ("E", "Obs", "")), (("V", "Obs", ""), ("E", "Sum", "oo"), ("V", "Obs", "")),
             (("E", "Identity", ""), ("P", None, ""), ("E", "Sum", "io")), (("E", "Obs", ""), ("E", "Obs", ""), ("E", "Sum", "ooo"))]
M_RAISING = [(("V", "Sum", "oo"),), (("E", "Obs", ""), ("V", "Sum", "o"))]
F13_TAPE = (("V", "Identity", ""), ("E", "Obs", ""), ("E", "Obs", ""))       # [var(I), expval(X), expval(Z)]: DESIGN section 5, F13


def shape_label(tape_shape):
    return "[" + ", ".join(f"{m}:{o or 'none'}{('(' + t + ')') if t else ''}" for m, o, t in tape_shape) + "]"


def build(tier, seed):
    plan = Plan("C20", level="other")
    try:
        import pennylane  # noqa: F401  (loaded once here: the forked obligation workers replay counter-models on the real code)
    except Exception:  # pylint: disable=broad-except
        pass
    plan.explanation = ("The real bodies of the splitter and of the post-processing functions are executed symbolically on concrete tape "
                        "SHAPES with symbolic coefficients, offsets, results and observable identities (dictionary lookups fork on the "
                        "equality of measurement keys); each returned dictionary / tuple is compared with the sum formula over the "
                        "uninterpreted result function val, linear for expectation values.")
    plan.trusted_base = ["vf/pyvc encoder (Python subset semantics) incl. vf/pyvc/xmaps.py (ordered dicts with symbolic key identity)",
                         "z3 (linear / non-linear real arithmetic, datatypes)"]
    plan.assumptions = ["A-linearity: val(expval(sum c_i o_i)) == sum c_i val(expval(o_i)), val(expval(Identity)) == 1; obs.terms() returns "
                        "the (c_i, o_i) of the observable, each o_i a single-term operator or Identity (hypotheses of every splitter case)",
                        "measurement processes are equal (as dictionary keys) iff they have the same class and equal observables; equal "
                        "measurement processes have equal results; observable identity is an uninterpreted label",
                        "A-float-as-real: coefficients, offsets and results are real SCALARS (array-valued results -- probs / sample / counts, "
                        "shot vectors, broadcast batches -- only travel on the pass-through path coeffs == [1], offset == 0)",
                        "every measurement class other than ExpectationMP behaves like the representative VarianceMP / ProbabilityMP stubs "
                        "(the code under contract only tests isinstance(mp, ExpectationMP))"]
    plan.assumed_contracts = ["qp.expval(o): the ExpectationMP of o",
                              "qp.math on real scalars: is_abstract -> False, get_interface -> 'numpy', requires_grad -> False, squeeze / "
                              "array / stack -> identity, dot -> product, sum(axis=0) -> sum, ones(()) -> 1",
                              "Prod/SProd.simplify(): an arbitrary observable given with the input"]
    plan.dropped = ["docstrings, annotations, the message of the RuntimeError"]

    cell = {}

    def b_mp_key(it, args, kw):
        return key_term(args[0])

    def b_expval(it, args, kw):
        (o,) = args
        return Rec(w.classes["ExpectationMP"], {"obs": o, "ident": o.ident})

    def b_mp_eq(it, args, kw):
        a, b = args
        if not (isinstance(a, Rec) and isinstance(b, Rec)):
            return False
        return key_term(a) == key_term(b)

    def b_sum(it, args, kw):
        r = 0
        for x in it.iter_concrete(args[0]):
            r = it.binop(__import__("ast").Add(), r, x)
        return r

    def b_ones(it, args, kw):
        if args[0] != ():
            raise Unsupp("qp.math.ones of a non-scalar shape (broadcast batches are outside the scalar model)")
        return 1
    import ast as _ast
    math_models = {"qp.math.is_abstract": lambda it, a, k: False, "qp.math.get_interface": lambda it, a, k: "numpy",
                   "qp.math.requires_grad": lambda it, a, k: False, "qp.math.array": lambda it, a, k: a[0],
                   "qp.math.squeeze": lambda it, a, k: a[0], "qp.math.stack": lambda it, a, k: a[0],
                   "qp.math.dot": lambda it, a, k: it.binop(_ast.Mult(), a[0], a[1]), "qp.math.sum": b_sum, "qp.math.ones": b_ones}
    stubs = {k: (MP_SRC.format(k), {"obs": Label, "ident": Label}) for k in MP_TAG}
    stubs.update({k: (OBS_SRC.format(k), {"ident": Label}) for k in ("Obs", "Identity")})
    stubs.update({k: (COMP_SRC.format(k), {"ident": Label}) for k in ("Sum", "SProd", "Prod")})
    stubs["Tape"] = (OBS_SRC.format("Tape"), {"measurements": Label})
    w = World(SNC, stubs=stubs, functions=["_sum_terms", "_split_all_multi_term_obs_mps", "_processing_fn_no_grouping"],
              classes={"SingleTermMP": {"indices": Int, "coeffs": Int, "group_idx": Int, "idx_in_group": Int}},
              extra_builtins=dict(math_models, **{"odict_keyfn": b_mp_key, "qp.expval": b_expval, "__mp_eq__": b_mp_eq}))
    KEYs = w.sort_of(KEY_T)
    VALF = z3.Function("val", KEYs, z3.RealSort())          # the result of executing a measurement process

    def key_term(mp):
        obs = mp.f.get("obs")
        return w.box((MP_TAG[mp.cls.name], OBS_TAG[obs.cls.name if obs is not None else None], obs.ident if obs is not None else mp.ident), KEY_T)

    # ---- symbolic tapes of a given shape ---------------------------------------------------------------------------------------------
    def mk_obs(ctx, name, okind, terms):
        lab = lambda s: z3.Const(ctx.fresh_name(f"{name}.{s}"), LabelSort)
        if okind is None:
            return None
        if okind in ("Obs", "Identity"):
            return Rec(w.classes[okind], {"ident": lab("id")})
        cs = [FloatV(z3.Real(ctx.fresh_name(f"{name}.c{i}"))) for i in range(len(terms))]
        os_ = [Rec(w.classes["Identity" if t == "i" else "Obs"], {"ident": lab(f"t{i}")}) for i, t in enumerate(terms)]
        r = Rec(w.classes[okind], {"terms_c": PyList(cs), "terms_o": PyList(os_), "ident": lab("id")})
        # simplify() of a Sum/SProd stays in its class here (V:Sum raises, V:SProd is kept): an equal observable
        r.f["simplified"] = Rec(w.classes[okind], {"terms_c": r.terms_c, "terms_o": r.terms_o, "ident": r.ident, "simplified": None})
        return r

    def mk_tape(shape):
        def mk(ctx, name):
            mps = []
            for j, (mk_, okind, terms) in enumerate(shape):
                cls = {"E": "ExpectationMP", "V": "VarianceMP", "P": "ProbabilityMP"}[mk_]
                obs = mk_obs(ctx, f"{name}.m{j}", okind, terms)
                mps.append(Rec(w.classes[cls], {"obs": obs, "ident": obs.ident if obs is not None
                                                else z3.Const(ctx.fresh_name(f"{name}.m{j}.wires"), LabelSort)}))
            return Rec(w.classes["Tape"], {"measurements": PyList(mps)})
        return mk

    def gen_tape(shape):
        def gen(rng):
            def obs(okind, terms):
                if okind is None:
                    return None
                if okind in ("Obs", "Identity"):
                    return {"__class__": okind, "ident": f"L{rng.randint(0, 5)}"}
                return {"__class__": okind, "terms_c": [rng.choice([1.0, -1.0, 0.5, 2.0, 3.0, -0.25]) for _ in terms],
                        "terms_o": [{"__class__": "Identity" if t == "i" else "Obs", "ident": f"L{rng.randint(0, 5)}"} for t in terms],
                        "ident": f"L{rng.randint(10, 90)}", "simplified": None}
            return {"__class__": "Tape", "measurements": [
                {"__class__": {"E": "ExpectationMP", "V": "VarianceMP", "P": "ProbabilityMP"}[m], "obs": obs(o, t), "ident": f"L{rng.randint(0, 1)}"}
                for m, o, t in shape]}
        return gen

    # ---- real objects for the replay -----------------------------------------------------------------------------------------------------
    def lab_index(lab):
        digits = "".join(ch for ch in str(lab) if ch.isdigit())
        return int(digits) if digits else 0

    def real_obs(fields):
        import pennylane as qp
        pool = [lambda: qp.X(0), lambda: qp.Z(0), lambda: qp.Y(1), lambda: qp.Z(1), lambda: qp.Hadamard(0), lambda: qp.Y(0)]
        return pool[lab_index(fields.get("ident")) % len(pool)]()

    def real_comp(kind):
        def mk(fields):
            import pennylane as qp
            cs, os_ = [float(c) for c in fields["terms_c"]], list(fields["terms_o"])
            if kind == "SProd":
                return qp.s_prod(cs[0], os_[0])
            return qp.sum(*[qp.s_prod(c, o) for c, o in zip(cs, os_)])
        return mk

    def real_mp(kind):
        def mk(fields):
            import pennylane as qp
            if kind == "ExpectationMP":
                return qp.expval(fields["obs"])
            if kind == "VarianceMP":
                return qp.var(fields["obs"])
            return qp.probs(wires=[lab_index(fields.get("ident")) % 2])
        return mk

    def state_prep():
        import pennylane as qp
        return [qp.RX(0.7, 0), qp.RY(0.3, 1), qp.CNOT([0, 1]), qp.RZ(0.4, 0), qp.RX(1.1, 1)]

    def real_tape(fields):
        import pennylane as qp
        return qp.tape.QuantumScript(state_prep(), list(fields["measurements"]))
    w.stub_realize = {"Obs": real_obs, "Identity": lambda f: __import__("pennylane").I(0), "Sum": real_comp("Sum"), "SProd": real_comp("SProd"),
                      "Prod": real_comp("Sum"), "ExpectationMP": real_mp("ExpectationMP"), "VarianceMP": real_mp("VarianceMP"),
                      "ProbabilityMP": real_mp("ProbabilityMP"), "Tape": real_tape}

    def n_val(mp):
        import pennylane as qp
        return qp.device("default.qubit").execute(qp.tape.QuantumScript(state_prep(), [mp]))

    def close(a, b):
        import numpy as np
        return bool(np.allclose(np.asarray(a, dtype=float), np.asarray(b, dtype=float), atol=1e-9, rtol=1e-9)) and np.shape(a) == np.shape(b)

    # ---- views ---------------------------------------------------------------------------------------------------------------------------
    def val(mp):
        return VALF(key_term(mp))

    def val_term(o):
        """val(expval(o)) for a single-term operator o; 1 for Identity"""
        if o.cls.name == "Identity":
            return z3.RealVal(1)
        return VALF(w.box((0, OBS_TAG[o.cls.name], o.ident), KEY_T))

    def linearity(tape):
        """hypotheses about val for the measurements of this tape (A-linearity)"""
        hyps = []
        for mp in tape.measurements.items:
            obs = mp.f.get("obs")
            if mp.cls.name != "ExpectationMP" or obs is None:
                continue
            if obs.cls.name == "Identity":
                hyps.append(val(mp) == 1)
            elif obs.cls.name in ("Sum", "SProd", "Prod"):
                total = z3.RealVal(0)
                for c, o in zip(obs.terms_c.items, obs.terms_o.items):
                    total = total + real_of(c) * val_term(o)
                hyps.append(val(mp) == total)
        return z3.And(*hyps) if hyps else True

    def d_items(d):
        if isinstance(d, X.ODictV):
            return [(k, (v[0].items, v[1].items)) for k, _, v in d.entries]
        return [(k, (list(v[0]), list(v[1]))) for k, v in d.items()]

    def split_post(o, r, nw):
        d, offsets = r
        if isinstance(o.tape, Rec):
            mps = o.tape.measurements.items
            offs = offsets.items
            goals = [len(offs) == len(mps)]
            for j, mp in enumerate(mps):
                total = real_of(offs[j]) if j < len(offs) else z3.RealVal(0)
                for key, (idxs, cs) in d_items(d):
                    for i_, c_ in zip(idxs, cs):
                        if not isinstance(i_, int):
                            raise Unsupp("symbolic measurement index in the result")
                        if i_ == j:
                            total = total + real_of(c_) * val(key)
                goals.append(val(mp) == total)
                goals.append(all(isinstance(i_, int) and 0 <= i_ < len(mps) for _, (idxs, _) in d_items(d) for i_ in idxs))
            return And(*goals)
        mps = list(nw.tape.measurements)
        if len(offsets) != len(mps):
            return False
        ok = True
        for j, mp in enumerate(mps):
            total = offsets[j]
            for key, (idxs, cs) in d_items(d):
                for i_, c_ in zip(idxs, cs):
                    if i_ == j:
                        total = total + c_ * n_val(key)
            ok = ok and close(n_val(mp), total)
        return ok

    def tape_t(shape):
        return T("build", mk_tape(shape), gen=gen_tape(shape))

    def repair_tape(rng, m):
        # composite observables carry `simplified` = themselves in the symbolic run; the real objects do not need the field
        def fix(x):
            if isinstance(x, dict):
                return {k: fix(v) for k, v in x.items() if k != "simplified"}
            if isinstance(x, list):
                return [fix(v) for v in x]
            return x
        return fix(m)

    split_cases = []
    shapes = [(s,) for s in M_SHAPES] + list(itertools.product(M_PAIRS, repeat=2)) + M_TRIPLES
    if tier == "quick":
        shapes = [s for i, s in enumerate(shapes) if len(s) != 2 or i % 2 == 0 or s[0] == s[1]]
    for shape in shapes:
        split_cases.append(Case(shape_label(shape), {"tape": tape_t(shape)}, size_bounded=True, max_paths=3000, native_gen=repair_tape,
                                requires=lambda a: linearity(a.tape) if isinstance(a.tape, Rec) else True, ensures=split_post))
    for shape in M_RAISING:
        split_cases.append(Case(shape_label(shape) + "/rejected", {"tape": tape_t(shape)}, size_bounded=True, native_gen=repair_tape,
                                requires=lambda a: linearity(a.tape) if isinstance(a.tape, Rec) else True,
                                ensures=lambda o, r, nw: False, raises={"RuntimeError": lambda o: True}))
    # DESIGN section 5, F13: a non-expectation measurement of Identity is replaced by the constant 1
    f13_label = shape_label(F13_TAPE)
    split_cases.append(Case(f13_label, {"tape": tape_t(F13_TAPE)}, size_bounded=True, native_gen=repair_tape,
                            requires=lambda a: linearity(a.tape) if isinstance(a.tape, Rec) else True, ensures=split_post))
    fc_split = FnContract(w, "_split_all_multi_term_obs_mps", split_cases)
    X.use_xinterp(fc_split)
    plan.fn_under_contract(SNC, "_split_all_multi_term_obs_mps")
    for ob in obligations_for("C20", fc_split, tier):      # F13 is fixed in the repository: an ordinary obligation now
        plan.add(ob)

    # ---- post-processing: _sum_terms, _processing_fn_no_grouping, _processing_fn_with_grouping ---------------------------------------------
    def reals(ctx, name, n):
        return PyList([FloatV(z3.Real(ctx.fresh_name(f"{name}{i}"))) for i in range(n)])

    def nclose(a, b):
        return abs(float(a) - float(b)) <= 1e-9 * (1 + abs(float(b)))

    def eq_num(a, b):
        if isinstance(a, (tuple, list, PyList)) or isinstance(b, (tuple, list, PyList)):
            return False                 # a container where a single result is expected (or vice versa)
        if isinstance(a, (FloatV, z3.ExprRef)) or isinstance(b, (FloatV, z3.ExprRef)):
            return real_of(a) == real_of(b)
        return nclose(a, b)

    def lin(cs, rs, off):
        total = real_of(off) if isinstance(off, (FloatV, z3.ExprRef)) or any(isinstance(x, FloatV) for x in list(cs) + list(rs)) else off
        for c, r_ in zip(cs, rs):
            total = total + (real_of(c) * real_of(r_) if isinstance(total, z3.ExprRef) else c * r_)
        return total

    def seq(x):
        return x.items if isinstance(x, PyList) else list(x)
    sum_cases = []
    for n in (0, 1, 2, 3):
        sum_cases.append(Case(f"{n} terms", {"res": T("build", lambda ctx, nm, n=n: reals(ctx, nm, n), gen=lambda rng, n=n: [rng.uniform(-2, 2) for _ in range(n)]),
                                             "coeffs": T("build", lambda ctx, nm, n=n: reals(ctx, nm, n),
                                                         gen=lambda rng, n=n: [rng.choice([1.0, 1.0, -0.5, 2.0, 0.0]) for _ in range(n)]),
                                             "offset": Float, "shape": T("const", ())}, size_bounded=True,
                              ensures=lambda o, r, nw: eq_num(r, lin(seq(o.coeffs), seq(o.res), o.offset))))
    # the pass-through of a single result with the integer coefficient list [1] and offset 0 (what the splitter stores for
    # measurements it does not split): the result OBJECT itself is returned
    sum_cases.append(Case("pass-through [1], 0", {"res": T("build", lambda ctx, nm: PyList([z3.Const(ctx.fresh_name("result"), LabelSort)]), gen=lambda rng: [[0.25, 0.75]]),
                                                   "coeffs": T("build", lambda ctx, nm: PyList([1]), gen=lambda rng: [1]),
                                                   "offset": T("const", 0), "shape": T("const", ())}, size_bounded=True,
                          ensures=lambda o, r, nw: (r == seq(o.res)[0]) if isinstance(r, z3.ExprRef) else (r is seq(nw.res)[0] or r == seq(o.res)[0])))
    fc_sum = FnContract(w, "_sum_terms", sum_cases)

    # dictionaries for the post-processing: per single-term measurement the list of original indices (coefficients symbolic)
    NG_SHAPES = [(1, []), (1, [[0]]), (1, [[0], [0]]), (1, [[0, 0]]), (2, [[0], [1]]), (2, [[0, 1]]), (2, [[1], [0, 1]]), (2, [[0]]),
                 (2, [[1, 0], [0]]), (3, [[0, 2], [1], [2, 1]]), (3, [[2], [0]]), (3, [[1], [1], [1]])]

    def ng_label(entries):
        return ".".join("-".join(map(str, e)) for e in entries) or "none"

    def mk_dict(entries):
        def mk(ctx, name):
            d = X.ODictV(lambda k: k)
            for p, idxs in enumerate(entries):
                k = z3.Const(ctx.fresh_name(f"{name}.key{p}"), LabelSort)
                d.entries.append((k, k, (PyList(list(idxs)), reals(ctx, f"{name}.c{p}_", len(idxs)))))
            return d
        return mk

    def gen_dict(entries):
        return lambda rng: {"__odict__": [[f"sm{p}", [list(idxs), [rng.choice([1.0, -1.0, 0.5, 2.0]) for _ in idxs]]] for p, idxs in enumerate(entries)]}

    def native_dict(x):
        return {k: (list(v[0]), list(v[1])) for k, v in x["__odict__"]} if isinstance(x, dict) and "__odict__" in x else x

    def expected_no_grouping(d, offsets, res):
        out = []
        offs = seq(offsets)
        items = d_items(d)
        for j in range(len(offs)):
            cs, rs = [], []
            for p, (_, (idxs, coeffs)) in enumerate(items):
                for i_, c_ in zip(idxs, coeffs):
                    if i_ == j:
                        cs.append(c_)
                        rs.append(seq(res)[p])
            out.append(lin(cs, rs, offs[j]))
        return out

    def tuple_post(r, exp):
        if len(exp) == 1:
            return eq_num(r, exp[0])
        if not isinstance(r, tuple) or len(r) != len(exp):
            return False
        return And(*[eq_num(a, b) for a, b in zip(r, exp)])

    def native_ng(mod, a):
        a["single_term_obs_mps"] = native_dict(a["single_term_obs_mps"])
        return mod._processing_fn_no_grouping(a["res"], a["single_term_obs_mps"], a["offsets"], a["batch_size"])
    ng_cases = []
    for m, entries in NG_SHAPES:
        ng_cases.append(Case(f"{m} measurements, index lists {ng_label(entries)}",
                             {"res": T("build", lambda ctx, nm, n=len(entries): reals(ctx, nm, n), gen=lambda rng, n=len(entries): [rng.uniform(-1, 1) for _ in range(n)]),
                              "single_term_obs_mps": T("build", mk_dict(entries), gen=gen_dict(entries)),
                              "offsets": T("build", lambda ctx, nm, m=m: reals(ctx, nm, m), gen=lambda rng, m=m: [rng.choice([0.0, 0.0, 1.0, -0.5]) for _ in range(m)]),
                              "batch_size": T("const", None)}, size_bounded=True, native_call=native_ng, max_paths=2000,
                             ensures=lambda o, r, nw: tuple_post(r, expected_no_grouping(o.single_term_obs_mps if isinstance(o.single_term_obs_mps, X.ODictV)
                                                                                         else native_dict(o.single_term_obs_mps), o.offsets, o.res))))
    fc_ng = FnContract(w, "_processing_fn_no_grouping", ng_cases)

    # with grouping: every single-term measurement sits at (group_idx, idx_in_group); a group of size 1 returns its result unwrapped
    WG_SHAPES = [(1, [1], [(0, 0, [0])]), (2, [2], [(0, 0, [0]), (0, 1, [1, 0])]), (2, [1, 2], [(1, 1, [0]), (0, 0, [1]), (1, 0, [0, 1])]),
                 (3, [2, 1, 1], [(0, 1, [2]), (1, 0, [0, 0]), (2, 0, [1]), (0, 0, [1, 2])]), (2, [1], [(0, 0, [1])])]

    def mk_terms(terms):
        def mk(ctx, name):
            d = X.ODictV(lambda k: k)
            for p, (g, ig, idxs) in enumerate(terms):
                k = z3.Const(ctx.fresh_name(f"{name}.key{p}"), LabelSort)
                d.entries.append((k, k, Rec(w.classes["SingleTermMP"], {"indices": PyList(list(idxs)), "coeffs": reals(ctx, f"{name}.c{p}_", len(idxs)),
                                                                         "group_idx": g, "idx_in_group": ig})))
            return d
        return mk

    def mk_group_res(sizes):
        return lambda ctx, name: PyList([FloatV(z3.Real(ctx.fresh_name(f"{name}.g{g}"))) if n == 1 else
                                         tuple(FloatV(z3.Real(ctx.fresh_name(f"{name}.g{g}_{i}"))) for i in range(n)) for g, n in enumerate(sizes)])

    def expected_grouping(terms, sizes, offsets, res):
        out = []
        offs, res = seq(offsets), seq(res)
        for j in range(len(offs)):
            cs, rs = [], []
            for (g, ig, idxs, coeffs) in terms:
                sub = res[g] if sizes[g] == 1 else res[g][ig]
                for i_, c_ in zip(idxs, coeffs):
                    if i_ == j:
                        cs.append(c_)
                        rs.append(sub)
            out.append(lin(cs, rs, offs[j]))
        return out

    def terms_of(d):
        if isinstance(d, X.ODictV):
            return [(v.group_idx, v.idx_in_group, v.indices.items, v.coeffs.items) for _, _, v in d.entries]
        return [(v.group_idx, v.idx_in_group, list(v.indices), list(v.coeffs)) for v in d.values()]

    def native_wg(mod, a):
        x = a["single_term_obs_mps"]
        if isinstance(x, dict) and "__odict__" in x:
            a["single_term_obs_mps"] = {k: mod.SingleTermMP(list(v["indices"]), list(v["coeffs"]), v["group_idx"], v["idx_in_group"])
                                        for k, v in x["__odict__"]}
        a["res"] = [r_ if not isinstance(r_, list) else tuple(r_) for r_ in a["res"]]
        return mod._processing_fn_with_grouping(a["res"], a["single_term_obs_mps"], a["offsets"], a["group_sizes"], a["batch_size"])
    wg_cases = []
    for m, sizes, terms in WG_SHAPES:
        wg_cases.append(Case(f"{m} measurements, groups {'-'.join(map(str, sizes))}, terms " + ".".join(f"g{g}i{ig}at{'-'.join(map(str, ix))}" for g, ig, ix in terms),
                             {"res": T("build", mk_group_res(sizes), gen=lambda rng, sizes=sizes: [rng.uniform(-1, 1) if n == 1 else [rng.uniform(-1, 1) for _ in range(n)] for n in sizes]),
                              "single_term_obs_mps": T("build", mk_terms(terms), gen=lambda rng, terms=terms: {"__odict__": [
                                  [f"sm{p}", {"indices": list(idxs), "coeffs": [rng.choice([1.0, -1.0, 0.5, 2.0]) for _ in idxs], "group_idx": g, "idx_in_group": ig}]
                                  for p, (g, ig, idxs) in enumerate(terms)]}),
                              "offsets": T("build", lambda ctx, nm, m=m: reals(ctx, nm, m), gen=lambda rng, m=m: [rng.choice([0.0, 1.0, -0.5]) for _ in range(m)]),
                              "group_sizes": T("const", PyList(list(sizes))), "batch_size": T("const", None)},
                             size_bounded=True, native_call=native_wg, max_paths=2000,
                             ensures=lambda o, r, nw, sizes=sizes: tuple_post(r, expected_grouping(terms_of(nw.single_term_obs_mps), sizes, o.offsets, o.res))))
    fc_wg = FnContract(w, "_processing_fn_with_grouping", wg_cases)
    for fc in (fc_sum, fc_ng, fc_wg):
        X.use_xinterp(fc)
        plan.fn_under_contract(SNC, fc.qualname)
        for ob in obligations_for("C20", fc, tier):
            plan.add(ob)

    # ---- split_to_single_terms.<locals>.post_processing_split_sums: the closure's free variables are ghost values ------------------------------
    from vf.common import find_def
    w2 = World(STS, stubs={"Tape": (OBS_SRC.format("Tape"), {"measurements": Label})},
               extra_builtins=dict(math_models, **{"__free__": lambda it, a, k: it.ctx.ghost["free"][a[0]]}))
    for fn_name in ("_processing_fn_no_grouping", "_sum_terms"):
        w2.functions[fn_name] = find_def(SNC, fn_name)[1]
    for free in ("single_term_obs_mps", "offsets", "tape", "new_tape"):
        w2.module_consts[free] = _ast.parse(f"__free__({free!r})", mode="eval").body

    def closure_ghost(m, entries):
        def ghost(ctx, a):
            d = mk_dict(entries)(ctx, "single_term_obs_mps")
            ctx.ghost["free"] = {"single_term_obs_mps": d, "offsets": reals(ctx, "offsets", m),
                                 "tape": Rec(w2.classes["Tape"], {"measurements": PyList([None] * m), "batch_size": None}),
                                 "new_tape": Rec(w2.classes["Tape"], {"measurements": PyList([k for k, _, _ in d.entries])})}
        return ghost

    def closure_axioms(o, r, nw, loc):
        cell["free"] = loc.ghost.free
        return []

    def mk_batch_res(n):
        """what executing the batch (new_tape,) returns: one entry, the scalar result of a single measurement / the tuple of results"""
        def mk(ctx, name):
            rs = [FloatV(z3.Real(ctx.fresh_name(f"{name}{i}"))) for i in range(n)]
            return (rs[0],) if n == 1 else (tuple(rs),)
        return mk

    def closure_post(o, r, nw):
        if isinstance(o.res, tuple) and not isinstance(o.res, dict) and "free" in cell and not isinstance(o.res[0] if o.res else None, dict) \
                and (not o.res or not isinstance(o.res[0], str)):
            free = cell["free"]
            n = len(free["single_term_obs_mps"].entries)
            flat = list(o.res) if n == 1 else list(o.res[0])
            return tuple_post(r, expected_no_grouping(free["single_term_obs_mps"], free["offsets"], flat))
        return False

    # replay: the REAL closure only exists inside a call of split_to_single_terms -- the native run is end to end on a generated tape:
    # transform, execute the new tape, apply the closure, compare with the direct execution of the original tape
    def native_closure(mod, a):
        import pennylane as qp
        from vf.pyvc.contract import realize
        tape = realize(w, a["res"]["tape"], __import__("importlib").import_module("pennylane.transforms.split_non_commuting"))
        dev = qp.device("default.qubit")
        (new_tape,), fn = mod.split_to_single_terms(tape)
        a["res"] = {"direct": dev.execute(tape), "n": len(tape.measurements)}
        return fn(dev.execute((new_tape,)))

    def native_closure_post(o, r, nw):
        direct, n = nw.res["direct"], nw.res["n"]
        if n == 1:
            return close(r, direct)
        return isinstance(r, tuple) and len(r) == n and all(close(x, y) for x, y in zip(r, direct))

    def gen_closure(rng, m):
        import random
        rng = rng or random.Random(repr(m)[:200])
        pool = [sh for sh in M_SHAPES if sh[0] != "V" or sh[1] == "Obs"]
        shape = tuple(rng.choice(pool) for _ in range(rng.choice([1, 1, 2, 2, 3])))
        return {"res": {"tape": repair_tape(None, gen_tape(shape)(rng))}}
    cl_cases = []
    for m, entries in NG_SHAPES:
        cl_cases.append(Case(f"{m} measurements, index lists {ng_label(entries)}",
                             {"res": T("build", mk_batch_res(len(entries)), gen=lambda rng: None)}, size_bounded=True, max_paths=2000,
                             ghost=closure_ghost(m, entries), axioms=closure_axioms, native_call=native_closure, native_gen=gen_closure,
                             ensures=lambda o, r, nw: native_closure_post(o, r, nw) if isinstance(nw.res, dict) else closure_post(o, r, nw)))
    fc_cl = FnContract(w2, "split_to_single_terms.<locals>.post_processing_split_sums", cl_cases)
    X.use_xinterp(fc_cl)
    plan.fn_under_contract(STS, fc_cl.qualname)
    for ob in obligations_for("C20", fc_cl, tier):
        plan.add(ob)

    # ---- composition: the two contracts give the property (results of each measurement preserved) -------------------------------------------
    v, off, c1, c2, r1, r2, s1, s2 = z3.Reals("v off c1 c2 r1 r2 s1 s2")
    plan.add(lemma("C20", "composition/split-then-process-returns-val", [v, off, c1, c2, r1, r2, s1, s2],
                   z3.Implies(z3.And(v == off + c1 * s1 + c2 * s2,            # splitter contract for measurement j (two contributions)
                                     r1 == s1, r2 == s2),                      # the executed single-term results are the val's
                              off + c1 * r1 + c2 * r2 == v)))                  # what the post-processing contract returns for j
    plan.size_bounds = [f"_split_all_multi_term_obs_mps: tapes of 1..3 measurements from {len(M_SHAPES)} measurement shapes (sums of up to 3 terms, "
                        "Identity terms at every position, SProd, plain / Identity observables, non-expectation measurements with and without "
                        "observable); all single tapes, pairs over a 7-shape subset (every second ordered pair in the quick tier), 4 triples",
                        "_sum_terms: 0..3 terms; _processing_fn_no_grouping: 12 dictionary shapes (<= 3 measurements, <= 3 single-term "
                        "measurements); _processing_fn_with_grouping: 5 group layouts (<= 3 groups of size <= 2)"]
    plan.unverified = ["grouping strategies (qwc / wires / shot distribution), _split_ham_with_grouping, _split_using_*_grouping",
                       "the tape construction of both transforms (tape.copy / QuantumScript(...)), null_postprocessing shortcuts",
                       "diagonalize_measurements, sign_expand, broadcast_expand, batch_params / batch_input, execution",
                       "array-valued results, shot vectors (shot_vector_support), broadcast batches (batch_size > 1), autograd / abstract tensors",
                       "tapes containing a non-expectation measurement of Identity are represented by ONE instance (F13: the contract is "
                       "refuted there)"]
    return plan
