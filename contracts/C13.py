"""C13 Measurement-based decompositions act deterministically.

Every registered rule whose emitted circuit contains mid-circuit (Pauli) measurements and classically controlled
corrections is found at run time; for each, ALL 2^k outcome branches are enumerated: measurements become the projector of the
outcome, conditionals are resolved through the real MeasurementValue.concretize, and the branch operator (exact ring) on a
GENERIC input state of the target wires with zeroed work wires must be  c_b * (U_target (x) |aux_b>)  with c_b != 0 whenever
the branch has non-zero amplitude.  Complete per rule: finite branches, all input states, symbolic gate parameters.
"""
import itertools

import numpy as np
import pennylane as qp
from pennylane.decomposition.utils import _get_decomp_args

from vf.common import Plan, Obligation, Outcome, DISCHARGED, REFUTED, UNDECIDED
from vf.symx import rules as R
from vf.symx.ring import Poly, Cyc, Unsupported
from vf.symx.scalar import poly_matrix, pm_eye, pm_eval
from vf.symx.oblig import sample_point
from contracts.C10 import rule_func, symbolic_target
from refs import gates as G

MEAS = ("PauliMeasure", "MidMeasure", "MidMeasureMP")


def is_meas(op):
    return type(op).__name__ in MEAS


def has_mcm(ops):
    return any(is_meas(o) or type(o).__name__ == "Conditional" for o in ops)


def projector(op, outcome):
    """(I + (-1)^outcome P)/2 for a Pauli measurement, |m><m| for a computational-basis measurement: Poly matrix on op.wires"""
    nm = type(op).__name__
    if nm == "PauliMeasure":
        word = op.hyperparameters["pauli_word"] if hasattr(op, "hyperparameters") and "pauli_word" in op.hyperparameters else op.pauli_word
        P = poly_matrix(G.pauli_word(word))
        d = P.shape[0]
        sgn = Cyc.rat(1 if outcome == 0 else -1)
        half = Cyc.rat(1) * Cyc.rat(1)
        out = np.empty((d, d), dtype=object)
        for i in range(d):
            for j in range(d):
                x = P[i, j].scale(sgn)
                if i == j:
                    x = x + Poly.const(1)
                out[i, j] = x.scale(Cyc.rat(__import__("fractions").Fraction(1, 2)))
        return out
    out = np.empty((2, 2), dtype=object)
    for i in range(2):
        for j in range(2):
            out[i, j] = Poly.const(1) if (i == j == outcome) else Poly()
    return out


def branch_matrix(ops, wire_order, work, outcomes, meas_ops):
    n = len(wire_order)
    posn = {w: i for i, w in enumerate(wire_order)}
    M = pm_eye(2 ** n)
    assign = dict(zip(meas_ops, outcomes))
    for op in ops:
        nm = type(op).__name__
        if nm in ("Allocate", "Deallocate"):
            continue
        wires = [work.get(w, w) for w in op.wires]
        if is_meas(op):
            m = assign[op]
            M = R.apply_small(M, projector(op, m), [posn[w] for w in wires], n)
            if getattr(op, "reset", False) and m == 1:
                M = R.apply_small(M, poly_matrix(G.X), [posn[w] for w in wires], n)
            continue
        if nm == "Conditional":
            val = op.meas_val.concretize(assign)
            if isinstance(val, tuple):
                raise Unsupported("conditional on a tuple-valued measurement value")
            if not val:
                continue
            op = op.base
            wires = [work.get(w, w) for w in op.wires]
        U = R.op_small_matrix(qp.map_wires(op, {w: work[w] for w in op.wires if w in work}) if any(w in work for w in op.wires) else op)
        if not wires:
            c = U[0, 0]
            for idx, x in np.ndenumerate(M):
                M[idx] = c * x
            continue
        M = R.apply_small(M, U, [posn[w] for w in wires], n)
    return M


def make_ob(cfg, rule, seed, pid="C13", strict_phase=False):
    name = f"{pid}/{cfg.opname}{cfg.label}/{rule.name}/post:every-branch==c*U(x)aux" + ("+same-global-phase" if strict_phase else "")

    def analyse(op, numeric_env=None):
        ops = R.run_rule(rule, op)
        work, info = R.work_wire_plan(ops)
        twires = list(op.wires)
        wire_order = twires + [lab for lab, _, _ in info]
        nt, nw = len(twires), len(info)
        meas_ops = [o for o in ops if is_meas(o)]
        T = symbolic_target(op, twires)
        problems, branches, cs = [], 0, []
        for outcomes in itertools.product([0, 1], repeat=len(meas_ops)):
            if any(getattr(m, "postselect", None) not in (None, o) for m, o in zip(meas_ops, outcomes)):
                continue
            B = branch_matrix(ops, wire_order, work, outcomes, meas_ops)
            valid = getattr(cfg, "valid_inputs", None) or list(range(2 ** nt))     # the operator's documented input domain
            cols = [t << nw for t in valid]
            Mz = B[:, cols]
            if all(x.is_zero() for x in Mz.flat):
                continue          # zero-amplitude branch
            branches += 1
            # pivot of the target
            Tv = T[:, valid]
            piv = next(((i, j) for i in range(2 ** nt) for j in range(len(valid)) if not Tv[i, j].is_zero()), None)
            i0, j0 = piv
            fac = [Mz[(i0 << nw) | w, j0] for w in range(2 ** nw)]      # = c_b * aux_w * T[i0,j0]
            ok = True
            for i in range(2 ** nt):
                for j in range(len(valid)):
                    for w in range(2 ** nw):
                        lhs = Mz[(i << nw) | w, j] * Tv[i0, j0]
                        rhs = fac[w] * Tv[i, j]
                        if not (lhs - rhs).is_zero():
                            ok = False
            if not ok or all(f.is_zero() for f in fac):
                problems.append(dict(outcomes=list(outcomes), reason="branch operator is not c * (U_target (x) aux)"))
            cs.append((outcomes, fac))
        if strict_phase and cs:
            # global phase included (C10): branches that leave the work wires in the same state must carry the same scalar
            ref_out, ref = cs[0]
            for outcomes, fac in cs[1:]:
                parallel = all((fac[a] * ref[b] - fac[b] * ref[a]).is_zero() for a in range(len(fac)) for b in range(len(fac)))
                if parallel and any(not (x - y).is_zero() for x, y in zip(fac, ref)):
                    problems.append(dict(outcomes=list(outcomes), reason=f"branch differs from branch {list(ref_out)} by a scalar factor "
                                         "(relative global phase / amplitude) although both leave the same work-wire state"))
        return problems, branches, len(meas_ops), info

    def replay(w):
        try:
            problems, branches, k, _ = analyse(cfg.twin_op(shift=float((w or {}).get("shift", 0.0))))
        except Exception as ex:  # pylint: disable=broad-except
            return dict(confirmed=None, note=f"{type(ex).__name__}: {ex}")
        return dict(confirmed=bool(problems), failing_branches=problems[:4], branches=branches, operator=repr(cfg.twin_op()), rule=rule.name)

    def fn():
        try:
            problems, branches, k, info = analyse(cfg.sym_op())
        except Unsupported as ex:
            return Outcome(UNDECIDED, "trace", f"trace left the fragment: {ex}")
        if problems:
            return Outcome(REFUTED, "branch-enumeration+laurent-normal-form", f"{len(problems)} of {branches} branches fail: {problems[:2]}",
                           witness=dict(shift=0.0, branches=[p["outcomes"] for p in problems[:4]]), replay=replay(dict(shift=0.0)))
        return Outcome(DISCHARGED, "branch-enumeration+laurent-normal-form",
                       f"{branches} non-zero branches of {2 ** k} (k={k} measurements) each equal c*(U (x) aux); work wires {info}",
                       extra=dict(sub_obligations=max(1, branches)))
    return Obligation(name, "post", fn, func=rule_func(rule), replay=replay, timeout=600, size_bounded=cfg.size_bounded,
                      sample="every measurement-outcome branch applies the target unitary up to a scalar and leaves the work wires in a known state")


def build(tier, seed):
    plan = Plan("C13", level="proof")
    plan.explanation = ("Rules with mid-circuit measurements are found by scanning each applicable rule's emitted circuit; all outcome "
                        "branches are enumerated and decided exactly for a generic input state (matrix identity on the work=|0> columns).")
    plan.trusted_base = ["vf/symx exact ring", "projector semantics of PauliMeasure / MidMeasure outcomes (textbook)",
                         "MeasurementValue.concretize (real code) resolves the conditionals"]
    plan.assumptions = ["work wires start in |0> (Allocate state 'zero')", "device-level execution of the branches is not covered"]
    configs, skipped = R.all_configs(tier)
    seen = 0
    for cfg in configs:
        try:
            twin = cfg.twin_op()
            params, _, _ = _get_decomp_args(twin)
            rules = qp.list_decomps(twin)
        except Exception:  # pylint: disable=broad-except
            continue
        for rule in rules:
            try:
                if not rule.is_applicable(**params):
                    continue
                ops = R.run_rule(rule, twin)
            except Exception:  # pylint: disable=broad-except
                continue
            if not has_mcm(ops):
                continue
            ob = make_ob(cfg, rule, seed)
            plan.add(ob)
            seen += 1
            if ob.func:
                plan.fn_under_contract(*ob.func)
    plan.notes["mcm_rule_instances"] = seen
    plan.unverified = ["template rules with measurements whose operators have no instance builder", "postselection semantics on devices"]
    return plan
