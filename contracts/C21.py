"""C21 Mid-circuit measurement values: arithmetic on measurement values is arithmetic on their outcomes.

Denotation of a measurement value under an outcome assignment sigma (measurement -> outcome):
        [[mv]](sigma) = mv.processing_fn(*(sigma(m) for m in mv.measurements))
The real bodies of MeasurementValue.{_merge, _apply, _transform_bin_op, __invert__, concretize, items, branches, __getitem__,
postselected_items} and of every operator dunder are executed on operands whose SHAPE is enumerated (which measurements each operand
depends on, in which order, which are shared: measurement ids are concrete and distinct) while the OUTCOMES, the scalar operands and the
operands' own processing functions are symbolic / uninterpreted.  The resulting object's processing function (a closure built by the
real code) is then CALLED symbolically on a fresh outcome assignment of the merged measurement list and compared with the
specification  [[a op b]](sigma) == [[a]](sigma) op [[b]](sigma).
"""
import itertools
import operator

import z3

from vf.common import Plan
from vf.pyvc.engine import World, T, Int, Float, Rec, PyList, FuncRef, Model, FloatV, Unsupp, RaiseExc, to_int_term, real_of, is_intlike
from vf.pyvc.contract import FnContract, Case, obligations_for
from vf.pyvc.interp import Interp, Closure
from vf.pyvc import spec as S
from vf.pyvc.spec import And

PID = "C21"
MVF = "pennylane/ops/mid_measure/measurement_value.py"
MVMOD = "pennylane.ops.mid_measure.measurement_value"
NoneV = T("const", None)
I_ = z3.IntSort()

MEAS_SRC = "class Meas:\n    pass\n"
OUT_SRC = "class Outcomes:\n    def __getitem__(self, m):\n        return self.table[m.meas_uid]\n"

# library functions of qp.math used by the dunders: assumed (uninterpreted) -- the contracts check how the operands are ROUTED into them
LIB = {name: z3.Function("math_" + name, I_, I_, I_) for name in ("logical_and", "logical_or", "logical_xor", "mod", "cast_like")}
LNOT = z3.Function("math_logical_not", I_, I_)
BIN = z3.Function("base_bin", I_, I_, I_)
FN1 = z3.Function("post_fn", I_, I_)


def pf(tag, n):
    """the operand's own processing function: uninterpreted in its n outcome arguments"""
    return z3.Function(f"processing_fn_{tag}{n}", *([I_] * n), I_)


def as_int(v):
    """python value / z3 value -> Int term (bools count as 0/1, as in python arithmetic)"""
    return to_int_term(v)


# ---------------------------------------------------------------------------------------------- native stand-ins
class NMeas:
    """a measurement: identified by its id (equality, hash and ordering agree with it)"""

    def __init__(self, uid, postselect=None):
        self.meas_uid, self.postselect, self.wires = uid, postselect, [uid]

    def __repr__(self):
        return f"m{self.meas_uid}"


def native_pf(tag, n):
    """a concrete processing function: an injective-looking integer combination of its outcome arguments"""
    primes = [3, 5, 7, 11, 13, 17]
    base = {"a": 2, "b": 19}.get(tag, 23)

    def fn(*xs):
        assert len(xs) == n, f"processing function of {n} measurements called with {len(xs)} arguments"
        return base + sum(p * int(x) for p, x in zip(primes, xs))
    return fn


def build(tier, seed):
    plan = Plan(PID, level="other")
    plan.explanation = (
        "Each method is executed on operands of enumerated dependency shape (concrete, distinct measurement ids; shared measurements are "
        "shared objects) with symbolic outcomes / scalars and uninterpreted processing functions; the closure the real code returns is "
        "called symbolically on a fresh outcome assignment and compared with the pointwise specification. Branch enumerations "
        "(items / branches / __getitem__ / postselected_items) are executed concretely for n = 1..3 measurements.")
    plan.trusted_base = ["vf/pyvc encoder (closures, varargs lambdas, star-calls, concrete comprehensions)", "z3 (EUF: equalities between "
                         "applications of uninterpreted processing functions)"]
    plan.assumptions = ["measurement ids are unique: two measurement objects are equal (==, hash) iff they carry the same id, and ids are totally ordered",
                        "outcomes are python ints; processing functions are deterministic functions of their arguments",
                        "qp.math.{logical_and, logical_or, logical_xor, logical_not, mod, cast_like} are the library's (uninterpreted) functions: "
                        "the contracts state how the operands are routed into them"]
    plan.assumed_contracts = ["format(i, f'0{n}b') is the n-digit binary numeral of i (run concretely)", "set / set.union / list(set) (any order) / "
                              "list.sort(key) / list.index on measurement objects", "iter / next on a tuple"]
    plan.dropped = ["docstrings, annotations, __str__/__repr__, wires, map_wires, __hash__"]
    plan.size_bounds = ["operands depending on 0..3 measurements: every dependency shape with at most 2 measurements per operand (all orders, all "
                        "sharing patterns) and selected shapes with 3; branch enumerations for n = 1..3 measurements (all postselection patterns "
                        "for n <= 2, selected for n = 3); outcomes, scalar operands and processing functions are symbolic"]
    plan.unverified = ["deferred measurement, tree-traversal and one-shot execution of dynamic circuits (device semantics)", "postselection modes",
                       "the numerical semantics of the qp.math functions on arrays / tracers", "MeasurementValue.wires / map_wires / __hash__"]

    cell = {}

    # ---------------------------------------------------------------------------------------------- models of library calls
    class CSet(Model):
        """python set of measurement objects (concrete membership by identity)"""

        def __init__(self, items):
            self.items = []
            for x in items:
                if not any(x is y for y in self.items):
                    self.items.append(x)
            outer = self

            class _Union(Model):
                def vf_call(self, it, args, kw):
                    return CSet(outer.items + list(args[0].items))
            self.union = _Union()

    def b_set(it, args, kw):
        return CSet(it.iter_concrete(args[0]) if args else [])

    def b_list(it, args, kw):
        if args and isinstance(args[0], CSet):
            # iteration order of a set is unspecified: an adversarial order (descending ids) that any later code must not rely on
            return PyList(sorted(args[0].items, key=lambda m: -m.f["meas_uid"]))
        if args and isinstance(args[0], IterM):
            return PyList(args[0].rest())
        return it.b_list(args, kw, None)

    def b_sort(it, args, kw):
        lst = args[0]
        if not isinstance(lst, PyList) or "key" not in kw:
            raise Unsupp("sort of this value")
        keys = [it.call(kw["key"], [x], {}) for x in lst.items]
        if not all(isinstance(k, int) for k in keys):
            raise Unsupp("sort with symbolic keys")
        lst.items = [x for _, x in sorted(zip(keys, lst.items), key=lambda p: p[0])]
        return None

    def b_sorted(it, args, kw):
        src = args[0]
        items = list(src.items) if isinstance(src, (CSet, PyList)) else it.iter_concrete(src)
        if isinstance(src, CSet):
            items = sorted(items, key=lambda m: -m.f["meas_uid"])          # arbitrary (adversarial) iteration order of a set
        if "key" not in kw:
            return it.b_sorted(args, kw, None)
        lst = PyList(items)
        b_sort(it, [lst], {"key": kw["key"]})
        if kw.get("reverse"):
            lst.items.reverse()
        return lst

    def lib2(name):
        return lambda it, args, kw: LIB[name](as_int(args[0]), as_int(args[1]))

    def b_fstring(it, args, kw):
        node, env = args

        def render(n):
            out = ""
            for part in n.values:
                if isinstance(part, __import__("ast").Constant):
                    out += str(part.value)
                else:
                    v = it.eval(part.value, env)
                    if not isinstance(v, (int, str)) or part.conversion != -1:
                        return None
                    spec = render(part.format_spec) if part.format_spec is not None else ""
                    if spec is None:
                        return None
                    out += format(v, spec)
            return out
        try:
            s = render(node)
        except (Unsupp, RaiseExc):
            s = None
        from vf.pyvc.engine import Opaque
        return s if s is not None else Opaque("str")

    def b_int(it, args, kw):
        if len(args) == 1 and isinstance(args[0], str):
            return int(args[0])
        return it.b_int(args, kw, None)

    class IterM(Model):
        """iter(tuple): a consumable iterator"""

        def __init__(self, items):
            self.items, self.pos = list(items), 0

        def rest(self):
            r, self.pos = self.items[self.pos:], len(self.items)
            return r

    def b_iter(it, args, kw):
        return IterM(it.iter_concrete(args[0]))

    def b_next(it, args, kw):
        i = args[0]
        if not isinstance(i, IterM):
            raise Unsupp("next of this value")
        if i.pos >= len(i.items):
            raise RaiseExc("StopIteration")
        i.pos += 1
        return i.items[i.pos - 1]

    def pf_model(tag):
        def fn(it, args, kw):
            if kw or not all(is_intlike(a) for a in args):
                raise RaiseExc("TypeError")
            cell.setdefault("pf_calls", []).append((tag, len(args)))
            return pf(tag, len(args))(*[as_int(a) for a in args])
        return fn

    xb = {"set": b_set, "list": b_list, "method:sort": b_sort, "sorted": b_sorted, "fstring": b_fstring, "int": b_int, "iter": b_iter, "next": b_next,
          "pf_a": pf_model("a"), "pf_b": pf_model("b"),
          "base_bin": lambda it, a, k: BIN(as_int(a[0]), as_int(a[1])), "post_fn": lambda it, a, k: FN1(as_int(a[0])),
          "math.logical_not": lambda it, a, k: LNOT(as_int(a[0]))}
    for nm in LIB:
        xb["math." + nm] = lib2(nm)
    w = World(MVF, classes={"MeasurementValue": {"measurements": NoneV, "_processing_fn": NoneV}}, functions=["no_processing"],
              stubs={"Meas": (MEAS_SRC, {"meas_uid": NoneV, "postselect": NoneV}), "Outcomes": (OUT_SRC, {"table": NoneV})}, extra_builtins=xb)

    # ---------------------------------------------------------------------------------------------- building operands
    def ghost(ctx, a):
        cell["ctx"] = ctx

    def meas_pool(ctx):
        if cell.get("pool_ctx") is not ctx:
            cell["pool_ctx"], cell["pool"], cell["pf_calls"] = ctx, {}, []
        return cell["pool"]

    def meas(ctx, uid, ps=None):
        pool = meas_pool(ctx)
        if uid not in pool:
            pool[uid] = Rec(w.classes["Meas"], {"meas_uid": uid, "postselect": ps})
        return pool[uid]

    def mv_type(tag, uids, processed=True, ps=None):
        """operand depending on the measurements `uids` (in this order); `processed=False`: a bare measurement value (no processing)"""
        def ctor(ctx, name):
            fn = FuncRef("builtin", "pf_" + tag) if processed else None
            return Rec(w.classes["MeasurementValue"], {"measurements": PyList([meas(ctx, u, (ps or {}).get(u)) for u in uids]), "_processing_fn": fn})
        return T("build", ctor, gen=lambda rng: {"__mv__": tag})

    def mlist(r):
        ms = r.f["measurements"] if isinstance(r, Rec) else r.measurements
        return list(ms.items) if isinstance(ms, PyList) else list(ms)

    def uid_of(m):
        return m.f["meas_uid"] if isinstance(m, Rec) else m.meas_uid

    def sigma_for(uids):
        return {u: z3.Int(f"outcome_of_m{u}") for u in uids}

    def denote_sym(mv, sigma):
        """[[mv]](sigma): call the object's processing function (a closure built by the real code) on the outcomes of its measurements"""
        it = Interp(cell["ctx"], None)
        fn = it.getattr(mv, "processing_fn")
        return it.call(fn, [sigma[uid_of(m)] for m in mlist(mv)], {})

    def operand_sym(tag, uids, processed, sigma):
        """specification side: the operand's value under sigma"""
        if not processed:
            return sigma[uids[0]]
        return pf(tag, len(uids))(*[sigma[u] for u in uids])

    def same_val(got, want):
        if isinstance(got, tuple) and isinstance(want, tuple) and len(got) == len(want):
            return And(True, *[same_val(g, x) for g, x in zip(got, want)])
        if isinstance(got, FloatV) or isinstance(want, FloatV):
            return real_of(got) == real_of(want)
        if isinstance(got, z3.BoolRef) or isinstance(want, z3.BoolRef) or isinstance(got, bool) or isinstance(want, bool):
            g = got if isinstance(got, (z3.BoolRef, bool)) else None
            x = want if isinstance(want, (z3.BoolRef, bool)) else None
            if g is None or x is None:
                return False
            return S._t(g) == S._t(x)
        if is_intlike(got) and is_intlike(want):
            return as_int(got) == as_int(want)
        return False

    # ---------------------------------------------------------------------------------------------- native operands
    def native_mv(tag, uids, processed, pool, ps=None):
        mod = __import__("importlib").import_module(MVMOD)
        ms = []
        for u in uids:
            if u not in pool:
                pool[u] = NMeas(u, (ps or {}).get(u))
            ms.append(pool[u])
        return mod.MeasurementValue(ms, native_pf(tag, len(uids)) if processed else None)

    def native_operand(tag, uids, processed, sig):
        return native_pf(tag, len(uids))(*[sig[u] for u in uids]) if processed else sig[uids[0]]

    def all_sigmas(uids):
        uids = sorted(set(uids))
        for bits in itertools.product((0, 1), repeat=len(uids)):
            yield dict(zip(uids, bits))

    class Raised:
        """native evaluation of a produced processing function raised: compares unequal to every specified value"""

        def __init__(self, exc):
            self.exc = exc

    def native_denote(mv, sig):
        try:
            return mv.processing_fn(*[sig[m.meas_uid] for m in mv.measurements])
        except ZeroDivisionError:
            raise
        except Exception as ex:  # pylint: disable=broad-except
            return Raised(ex)

    contracts = []

    # ---------------------------------------------------------------------------------------------- dependency shapes
    def shapes(max_each):
        """all pairs (A, B) of duplicate-free id sequences, up to order isomorphism, whose union is {1..k}"""
        out = []
        for k in range(0, 2 * max_each + 1):
            labels = list(range(1, k + 1))
            seqs = [p for n in range(0, max_each + 1) for c in itertools.combinations(labels, n) for p in itertools.permutations(c)]
            for A in seqs:
                for B in seqs:
                    if set(A) | set(B) == set(labels):
                        out.append((A, B))
        return out
    SMALL = shapes(2)
    BIG = [((1, 3, 5), (2, 3, 6)), ((5, 1, 3), (6, 3, 1)), ((1, 2, 3), (1, 2, 3)), ((3, 2, 1), (4,)), ((2,), (3, 1, 2)), ((1, 2, 3), (4, 5, 6)),
           ((4, 5, 6), (3, 2, 1))]

    def merge_post(A, B, pa, pb):
        def post(o, r, nw):
            native = not isinstance(nw.self, Rec)
            ms = mlist(r)
            uids = [uid_of(m) for m in ms]
            canonical = uids == sorted(set(A) | set(B)) and (native or all(any(m is x for x in mlist(nw.self) + mlist(nw.other)) for m in ms))
            if not canonical:
                return False
            if native:
                return all(native_denote(r, sg) == (native_operand("a", A, pa, sg), native_operand("b", B, pb, sg)) for sg in all_sigmas(uids))
            sg = sigma_for(uids)
            try:
                return same_val(denote_sym(r, sg), (operand_sym("a", A, pa, sg), operand_sym("b", B, pb, sg)))
            except RaiseExc:
                return False          # the merged processing function raises on an outcome assignment
        return post

    def pair_gen(A, B, pa, pb, scalar=None):
        def gen(rng, m):
            pool = {}
            m = dict(m, self=native_mv("a", A, pa, pool))
            if B is not None:
                m["other"] = native_mv("b", B, pb, pool)
            elif rng is not None and "other" in m:
                m["other"] = rng.choice([0, 1, 2, -3, 5])
            return m
        return gen

    def lab(A, B, pa=True, pb=True):
        f = lambda s, p: "[" + ",".join(f"m{u}" for u in s) + "]" + ("" if p else " bare")
        return f"a on {f(A, pa)}, b on {f(B, pb)}"
    for A, B in SMALL + BIG:
        variants = [(True, True)]
        if len(A) == 1 and len(B) == 1:
            variants += [(False, True), (True, False), (False, False)]
        for pa, pb in variants:
            contracts.append(FnContract(w, "MeasurementValue._merge", [
                Case(lab(A, B, pa, pb), {"self": mv_type("a", A, pa), "other": mv_type("b", B, pb)}, ghost=ghost, ensures=merge_post(A, B, pa, pb),
                     native_gen=pair_gen(A, B, pa, pb), size_bounded=True)]))

    # ---- _apply / __invert__
    def apply_post(A, pa, spec_sym, spec_nat):
        def post(o, r, nw):
            native = not isinstance(nw.self, Rec)
            if [uid_of(m) for m in mlist(r)] != list(A):
                return False
            if native:
                return all(native_denote(r, sg) == spec_nat(native_operand("a", A, pa, sg)) for sg in all_sigmas(A))
            sg = sigma_for(A)
            try:
                return same_val(denote_sym(r, sg), spec_sym(operand_sym("a", A, pa, sg)))
            except RaiseExc:
                return False
        return post

    def nat_fn(x):
        return 1000 - 7 * x
    for A, pa in (((), True), ((1,), True), ((1,), False), ((2, 1), True), ((1, 2, 3), True)):
        contracts.append(FnContract(w, "MeasurementValue._apply", [
            Case(lab(A, (), pa), {"self": mv_type("a", A, pa), "fn": T("const", FuncRef("builtin", "post_fn"))}, ghost=ghost,
                 ensures=apply_post(A, pa, FN1, nat_fn), native_gen=lambda rng, m, A=A, pa=pa: dict(pair_gen(A, None, pa, True)(rng, m), fn=nat_fn),
                 size_bounded=True)]))
        contracts.append(FnContract(w, "MeasurementValue.__invert__", [
            Case(lab(A, (), pa), {"self": mv_type("a", A, pa)}, ghost=ghost,
                 ensures=apply_post(A, pa, LNOT, lambda x: __import__("pennylane").math.logical_not(x)),
                 native_gen=pair_gen(A, None, pa, True), size_bounded=True)]))

    # ---- _transform_bin_op with an uninterpreted binary function: MeasurementValue operand / scalar operand
    def nat_bin(x, y):
        return 31 * x - 17 * y + 4

    def bin_post(A, B, pa, pb, spec_sym, spec_nat, swap=False):
        """[[r]](sigma) == spec([[a]](sigma), [[b]](sigma) or the scalar) on the merged measurements (`swap`: scalar is the LEFT operand)"""
        def post(o, r, nw):
            native = not isinstance(nw.self, Rec)
            uids = [uid_of(m) for m in mlist(r)]
            want_uids = sorted(set(A) | set(B)) if B is not None else list(A)
            if uids != want_uids:
                return False
            if native:
                for sg in all_sigmas(uids):
                    x = native_operand("a", A, pa, sg)
                    y = native_operand("b", B, pb, sg) if B is not None else nw.other
                    try:
                        want = spec_nat(y, x) if swap else spec_nat(x, y)
                    except ZeroDivisionError:
                        try:
                            native_denote(r, sg)
                            return False
                        except ZeroDivisionError:
                            continue
                    got = native_denote(r, sg)
                    if not (got == want and (isinstance(got, bool) or not isinstance(want, bool))):
                        return False
                return True
            sg = sigma_for(uids)
            x = operand_sym("a", A, pa, sg)
            y = operand_sym("b", B, pb, sg) if B is not None else nw.other
            try:
                got = denote_sym(r, sg)
            except RaiseExc as e:
                # lazy evaluation raises exactly what python raises: division by a zero divisor
                if e.name != "ZeroDivisionError":
                    return False
                den = x if swap else y
                return real_of(den) == 0
            want = spec_sym(y, x) if swap else spec_sym(x, y)
            return same_val(got, want)
        return post
    for A, B, pa, pb in [(A, B, True, True) for A, B in SMALL if len(A) + len(B) <= 3] + [((1,), (2,), False, False), ((1,), (1,), False, False),
                                                                                          ((1, 3, 5), (2, 3, 6), True, True)]:
        contracts.append(FnContract(w, "MeasurementValue._transform_bin_op", [
            Case(lab(A, B, pa, pb), {"self": mv_type("a", A, pa), "base_bin": T("const", FuncRef("builtin", "base_bin")), "other": mv_type("b", B, pb)},
                 ghost=ghost, ensures=bin_post(A, B, pa, pb, BIN, nat_bin),
                 native_gen=lambda rng, m, A=A, B=B, pa=pa, pb=pb: dict(pair_gen(A, B, pa, pb)(rng, m), base_bin=nat_bin), size_bounded=True)]))
    for A, pa in (((1,), False), ((2, 1), True), ((), True)):
        contracts.append(FnContract(w, "MeasurementValue._transform_bin_op", [
            Case(lab(A, ()) + " -> scalar other", {"self": mv_type("a", A, pa), "base_bin": T("const", FuncRef("builtin", "base_bin")), "other": Int},
                 ghost=ghost, ensures=bin_post(A, None, pa, True, lambda x, y: BIN(as_int(x), as_int(y)), nat_bin),
                 native_gen=lambda rng, m, A=A, pa=pa: dict(pair_gen(A, None, pa, True)(rng, m), base_bin=nat_bin), size_bounded=True)]))

    # ---- the operator dunders
    def z(f):
        return lambda x, y: f(as_int(x), as_int(y))

    def div_sym(x, y):
        return FloatV(real_of(x) / real_of(y))
    qm = lambda name: (lambda x, y: getattr(__import__("pennylane").math, name)(x, y))
    BINOPS = {
        "__add__": (z(operator.add), operator.add), "__sub__": (z(operator.sub), operator.sub), "__mul__": (z(operator.mul), operator.mul),
        "__truediv__": (div_sym, operator.truediv),
        "__eq__": (z(operator.eq), operator.eq), "__ne__": (z(operator.ne), operator.ne), "__lt__": (z(operator.lt), operator.lt),
        "__le__": (z(operator.le), operator.le), "__gt__": (z(operator.gt), operator.gt), "__ge__": (z(operator.ge), operator.ge),
        "__and__": (z(LIB["logical_and"]), qm("logical_and")), "__or__": (z(LIB["logical_or"]), qm("logical_or")),
        "__xor__": (z(LIB["logical_xor"]), qm("logical_xor")), "__mod__": (z(LIB["mod"]), qm("mod")),
    }
    DUNDER_SHAPES = [((1,), (2,), False, False), ((2, 3), (1, 3), True, True), ((1,), (1,), True, False)]
    for name, (ssym, snat) in BINOPS.items():
        for A, B, pa, pb in DUNDER_SHAPES:
            contracts.append(FnContract(w, f"MeasurementValue.{name}", [
                Case(lab(A, B, pa, pb), {"self": mv_type("a", A, pa), "other": mv_type("b", B, pb)}, ghost=ghost,
                     ensures=bin_post(A, B, pa, pb, ssym, snat), native_gen=pair_gen(A, B, pa, pb), size_bounded=True)]))
        for A, pa in (((1,), False), ((2, 1), True)):
            contracts.append(FnContract(w, f"MeasurementValue.{name}", [
                Case(lab(A, ()) + " -> scalar other", {"self": mv_type("a", A, pa), "other": Int}, ghost=ghost,
                     ensures=bin_post(A, None, pa, True, ssym, snat), native_gen=pair_gen(A, None, pa, True), size_bounded=True)]))
    # scalar on the LEFT: other + mv, other - mv, other * mv, other / mv
    ROPS = {"__radd__": (z(operator.add), operator.add), "__rsub__": (z(operator.sub), operator.sub),
            "__rmul__": (lambda o_, v: as_int(o_) * LIB["cast_like"](as_int(v), as_int(o_)), lambda o_, v: o_ * v),
            "__rtruediv__": (div_sym, operator.truediv)}
    for name, (ssym, snat) in ROPS.items():
        for A, pa in (((1,), False), ((2, 1), True)):
            contracts.append(FnContract(w, f"MeasurementValue.{name}", [
                Case("scalar other on the left, " + lab(A, (), pa), {"self": mv_type("a", A, pa), "other": Int}, ghost=ghost,
                     ensures=bin_post(A, None, pa, True, ssym, snat, swap=True), native_gen=pair_gen(A, None, pa, True), size_bounded=True)]))

    # ---- concretize
    def conc_post(A, pa):
        def post(o, r, nw):
            if not isinstance(nw.self, Rec):
                return r == native_operand("a", A, pa, {m.meas_uid: v for m, v in nw.measurements.items()})
            sg = {u: nw.measurements.f["table"][u] for u in A}
            return same_val(r, operand_sym("a", A, pa, sg))
        return post

    def outcomes_type(uids):
        return T("build", lambda ctx, name: Rec(w.classes["Outcomes"], {"table": {u: z3.Int(ctx.fresh_name(f"sigma_m{u}")) for u in uids}}),
                 gen=lambda rng: {"__outcomes__": True})

    def conc_gen(A, pa, universe):
        def gen(rng, m):
            pool = {}
            mv = native_mv("a", A, pa, pool)
            for u in universe:
                pool.setdefault(u, NMeas(u))
            import random
            r = rng or random.Random(0)
            return dict(m, self=mv, measurements={pool[u]: r.choice([0, 1]) for u in universe})
        return gen
    for A, pa, universe in (((1,), False, (1, 2)), ((3, 1), True, (1, 2, 3)), ((), True, (1,)), ((2, 3, 1), True, (1, 2, 3, 4))):
        contracts.append(FnContract(w, "MeasurementValue.concretize", [
            Case(lab(A, (), pa), {"self": mv_type("a", A, pa), "measurements": outcomes_type(universe)}, ghost=ghost, ensures=conc_post(A, pa),
                 native_gen=conc_gen(A, pa, universe), size_bounded=True)]))

    # ---- branch enumerations
    def bits_of(i, n):
        return tuple((i >> (n - 1 - j)) & 1 for j in range(n))

    def collect_yields(ctx, a):
        ghost(ctx, a)
        ys = cell["yields"] = []
        ctx.yield_hook = lambda it, value, env: ys.append(value)

    def items_post(A, pa):
        n = len(A)

        def post(o, r, nw):
            native = not isinstance(nw.self, Rec)
            got = list(r) if native else cell["yields"]
            if len(got) != 2 ** n:
                return False
            ok = True
            for i, pair in enumerate(got):
                if not (isinstance(pair, tuple) and len(pair) == 2 and tuple(pair[0]) == bits_of(i, n)):
                    return False
                sg = dict(zip(A, bits_of(i, n)))
                want = native_operand("a", A, pa, sg) if native else operand_sym("a", A, pa, {u: z3.IntVal(v) for u, v in sg.items()})
                ok = And(ok, (pair[1] == want) if native else same_val(pair[1], want))
            return ok
        return post

    def branches_post(A, pa):
        n = len(A)

        def post(o, r, nw):
            native = not isinstance(nw.self, Rec)
            if not isinstance(r, dict) or list(r.keys()) != [bits_of(i, n) for i in range(2 ** n)]:
                return False
            ok = True
            for i in range(2 ** n):
                sg = dict(zip(A, bits_of(i, n)))
                want = native_operand("a", A, pa, sg) if native else operand_sym("a", A, pa, {u: z3.IntVal(v) for u, v in sg.items()})
                ok = And(ok, (r[bits_of(i, n)] == want) if native else same_val(r[bits_of(i, n)], want))
            return ok
        return post
    # n = 0 is outside the domain of the enumerations: format(0, "00b") == "0", so a value depending on NO measurement would be
    # enumerated with the one-bit branch (0,) and its 0-ary processing function called with one argument (reported as an observation)
    ENUM_SHAPES = [((1,), False), ((1,), True), ((2, 1), True), ((1, 2, 3), True)]
    for A, pa in ENUM_SHAPES:
        contracts.append(FnContract(w, "MeasurementValue.items", [
            Case(lab(A, (), pa), {"self": mv_type("a", A, pa)}, ghost=collect_yields, ensures=items_post(A, pa), native_gen=pair_gen(A, None, pa, True),
                 size_bounded=True)]))
        contracts.append(FnContract(w, "MeasurementValue.branches", [
            Case(lab(A, (), pa), {"self": mv_type("a", A, pa)}, ghost=ghost, ensures=branches_post(A, pa), native_gen=pair_gen(A, None, pa, True),
                 size_bounded=True)]))
        for i in range(2 ** len(A)):
            def gi_post(o, r, nw, A=A, pa=pa, i=i):
                sg = dict(zip(A, bits_of(i, len(A))))
                if not isinstance(nw.self, Rec):
                    return r == native_operand("a", A, pa, sg)
                return same_val(r, operand_sym("a", A, pa, {u: z3.IntVal(v) for u, v in sg.items()}))
            contracts.append(FnContract(w, "MeasurementValue.__getitem__", [
                Case(lab(A, (), pa) + f", i = {i}", {"self": mv_type("a", A, pa), "i": T("const", i)}, ghost=ghost, ensures=gi_post,
                     native_gen=pair_gen(A, None, pa, True), size_bounded=True)]))

    # ---- postselected_items: the sub-enumeration consistent with the postselected outcomes
    def ps_post(A, ps):
        free = [u for u in A if u not in ps]
        k = len(free)

        def post(o, r, nw):
            native = not isinstance(nw.self, Rec)
            got = list(r) if native else cell["yields"]
            if len(got) != (2 ** k if k else 1):
                return False
            ok = True
            for i, pair in enumerate(got):
                if not (isinstance(pair, tuple) and len(pair) == 2 and tuple(pair[0]) == bits_of(i, k)):
                    return False
                sg = dict(zip(free, bits_of(i, k)))
                if native:
                    full = {u: (nw.self.measurements[A.index(u)].postselect if u in ps else sg[u]) for u in A}
                    ok = ok and pair[1] == native_operand("a", A, True, full)
                else:
                    full = {u: (cell["ps_vals"][u] if u in ps else z3.IntVal(sg[u])) for u in A}
                    ok = And(ok, same_val(pair[1], operand_sym("a", A, True, full)))
            return ok
        return post

    def ps_type(A, ps):
        def ctor(ctx, name):
            vals = cell["ps_vals"] = {u: z3.Int(ctx.fresh_name(f"postselect_m{u}")) for u in ps}
            meas_pool(ctx)
            return Rec(w.classes["MeasurementValue"], {"measurements": PyList([meas(ctx, u, vals.get(u)) for u in A]),
                                                       "_processing_fn": FuncRef("builtin", "pf_a")})
        return T("build", ctor, gen=lambda rng: {"__mv__": "a"})

    def ps_gen(A, ps):
        def gen(rng, m):
            import random
            r = rng or random.Random(1)
            return dict(m, self=native_mv("a", A, True, {}, {u: r.choice([0, 1]) for u in ps}))
        return gen
    PS_SHAPES = [(A, ps) for n in range(0, 3) for A in [tuple(range(1, n + 1))] for k in range(0, n + 1) for ps in itertools.combinations(A, k)]
    PS_SHAPES += [((1, 2, 3), (2,)), ((1, 2, 3), (1, 3)), ((1, 2, 3), (1, 2, 3)), ((3, 1, 2), (3,))]
    for A, ps in PS_SHAPES:
        contracts.append(FnContract(w, "MeasurementValue.postselected_items", [
            Case(f"measurements {list(A)}, postselected {list(ps)}", {"self": ps_type(A, ps)}, ghost=collect_yields, ensures=ps_post(A, ps),
                 native_gen=ps_gen(A, ps), size_bounded=True)]))

    for fc in contracts:
        plan.fn_under_contract(fc.world.file, fc.qualname)
        for ob in obligations_for(PID, fc, tier):
            plan.add(ob)
    return plan
