"""C21 Mid-circuit measurement values: arithmetic on measurement values is arithmetic on their outcomes.

Denotation of a measurement value under an outcome assignment sigma (measurement -> outcome):
        [[mv]](sigma) = mv.processing_fn(*(sigma(m) for m in mv.measurements))
The real bodies of MeasurementValue.{_merge, _apply, _transform_bin_op, __invert__, concretize, items, branches, __getitem__,
postselected_items} and of every operator dunder are executed on operands whose SHAPE is enumerated (which measurements each operand
depends on, in which order, which are shared: measurement ids are concrete and distinct) while the OUTCOMES, the scalar operands and the
operands' own processing functions are symbolic / uninterpreted.  The resulting object's processing function (a closure built by the
real code) is then CALLED symbolically on a fresh outcome assignment of the merged measurement list and compared with the
specification  [[a op b]](sigma) == [[a]](sigma) op [[b]](sigma).
"""
import itertools
import operator

import z3

from vf.common import Plan
from vf.pyvc.engine import World, T, Int, Float, Rec, PyList, FuncRef, Model, FloatV, Unsupp, RaiseExc, to_int_term, real_of, is_intlike
from vf.pyvc.contract import FnContract, Case, obligations_for
from vf.pyvc.interp import Interp, Closure, BreakExc, ContinueExc
from vf.pyvc import spec as S
from vf.pyvc.spec import And

PID = "C21"
MVF = "pennylane/ops/mid_measure/measurement_value.py"
MVMOD = "pennylane.ops.mid_measure.measurement_value"
NoneV = T("const", None)
I_ = z3.IntSort()

MEAS_SRC = "class Meas:\n    pass\n"
OUT_SRC = "class Outcomes:\n    def __getitem__(self, m):\n        return self.table[m.meas_uid]\n"

# library functions of qp.math used by the dunders: assumed (uninterpreted) -- the contracts check how the operands are ROUTED into them
LIB = {name: z3.Function("math_" + name, I_, I_, I_) for name in ("logical_and", "logical_or", "logical_xor", "mod", "cast_like")}
LNOT = z3.Function("math_logical_not", I_, I_)
BIN = z3.Function("base_bin", I_, I_, I_)
FN1 = z3.Function("post_fn", I_, I_)


def pf(tag, n):
    """the operand's own processing function: uninterpreted in its n outcome arguments"""
    return z3.Function(f"processing_fn_{tag}{n}", *([I_] * n), I_)


def as_int(v):
    """python value / z3 value -> Int term (bools count as 0/1, as in python arithmetic)"""
    return to_int_term(v)


# ---------------------------------------------------------------------------------------------- native stand-ins
class NMeas:
    """a measurement: identified by its id (equality, hash and ordering agree with it)"""

    def __init__(self, uid, postselect=None):
        self.meas_uid, self.postselect, self.wires = uid, postselect, [uid]

    def __repr__(self):
        return f"m{self.meas_uid}"


def native_pf(tag, n):
    """a concrete processing function: an injective-looking integer combination of its outcome arguments"""
    primes = [3, 5, 7, 11, 13, 17]
    base = {"a": 2, "b": 19}.get(tag, 23)

    def fn(*xs):
        assert len(xs) == n, f"processing function of {n} measurements called with {len(xs)} arguments"
        return base + sum(p * int(x) for p, x in zip(primes, xs))
    return fn


def build(tier, seed):
    plan = Plan(PID, level="other")
    plan.explanation = (
        "Each method is executed on operands of enumerated dependency shape (concrete, distinct measurement ids; shared measurements are "
        "shared objects) with symbolic outcomes / scalars and uninterpreted processing functions; the closure the real code returns is "
        "called symbolically on a fresh outcome assignment and compared with the pointwise specification. Branch enumerations "
        "(items / branches / __getitem__ / postselected_items) are executed concretely for n = 1..3 measurements.  "
        "variance_transform (E1): the whole real body incl. the returned post-processing closure is executed on measurement sequences of enumerated "
        "kinds; the closure is applied to one symbolic real per measured quantity of the executed tape and must return <O^2> - <O>^2 for every var(O).  "
        "_postselection_postprocess (E1): real body on states of enumerated size with symbolic amplitudes and symbolic shot vectors; every binomial "
        "draw is recorded and must be Binomial(s_i, <state|state>) once per shot-vector entry (hw-like / default), none in fill-shots mode.  "
        "defer_measurements (E2): the real transform is run on real tapes with exact symbolic rotation angles; the circuit it returns is evaluated "
        "exactly and compared, as Laurent polynomials, with an independent branch enumeration (reduced density matrix on the observed wires and "
        "measurement-value statistics, unnormalised).")
    plan.trusted_base = ["vf/pyvc encoder (closures, varargs lambdas, star-calls, concrete comprehensions)", "z3 (EUF: equalities between "
                         "applications of uninterpreted processing functions)"]
    plan.assumptions = ["measurement ids are unique: two measurement objects are equal (==, hash) iff they carry the same id, and ids are totally ordered",
                        "outcomes are python ints; processing functions are deterministic functions of their arguments",
                        "qp.math.{logical_and, logical_or, logical_xor, logical_not, mod, cast_like} are the library's (uninterpreted) functions: "
                        "the contracts state how the operands are routed into them"]
    plan.assumed_contracts = ["format(i, f'0{n}b') is the n-digit binary numeral of i (run concretely)", "set / set.union / list(set) (any order) / "
                              "list.sort(key) / list.index on measurement objects", "iter / next on a tuple"]
    plan.dropped = ["docstrings, annotations, __str__/__repr__, wires, map_wires, __hash__"]
    plan.size_bounds = ["operands depending on 0..3 measurements: every dependency shape with at most 2 measurements per operand (all orders, all "
                        "sharing patterns) and selected shapes with 3; branch enumerations for n = 1..3 measurements (all postselection patterns "
                        "for n <= 2, selected for n = 3); outcomes, scalar operands and processing functions are symbolic"]
    plan.unverified = ["tree-traversal execution itself (simulate_tree_mcm: branching, pruning, combination of branch results; only its variance_transform "
                       "is under contract) and one-shot execution (dynamic_one_shot, gather_mcm, apply_mid_measure)",
                       "statistical consistency of sampling (that the generators draw from the stated distributions)",
                       "defer_measurements beyond the enumerated circuit shapes (more than 2 measurements, broadcasting, non-integer wire labels, "
                       "sample / counts measurements of measurement-value lists); the device's execution of the deferred circuit",
                       "_postselection_postprocess with a jax prng_key / abstract (traced) state; postselection in tree-traversal (prune_mcm_samples) and "
                       "one-shot mode",
                       "the numerical semantics of the qp.math functions on arrays / tracers", "MeasurementValue.wires / map_wires / __hash__"]

    cell = {}

    # ---------------------------------------------------------------------------------------------- models of library calls
    class CSet(Model):
        """python set of measurement objects (concrete membership by identity)"""

        def __init__(self, items):
            self.items = []
            for x in items:
                if not any(x is y for y in self.items):
                    self.items.append(x)
            outer = self

            class _Union(Model):
                def vf_call(self, it, args, kw):
                    return CSet(outer.items + list(args[0].items))
            self.union = _Union()

    def b_set(it, args, kw):
        return CSet(it.iter_concrete(args[0]) if args else [])

    def b_list(it, args, kw):
        if args and isinstance(args[0], CSet):
            # iteration order of a set is unspecified: an adversarial order (descending ids) that any later code must not rely on
            return PyList(sorted(args[0].items, key=lambda m: -m.f["meas_uid"]))
        if args and isinstance(args[0], IterM):
            return PyList(args[0].rest())
        return it.b_list(args, kw, None)

    def b_sort(it, args, kw):
        lst = args[0]
        if not isinstance(lst, PyList) or "key" not in kw:
            raise Unsupp("sort of this value")
        keys = [it.call(kw["key"], [x], {}) for x in lst.items]
        if not all(isinstance(k, int) for k in keys):
            raise Unsupp("sort with symbolic keys")
        lst.items = [x for _, x in sorted(zip(keys, lst.items), key=lambda p: p[0])]
        return None

    def b_sorted(it, args, kw):
        src = args[0]
        items = list(src.items) if isinstance(src, (CSet, PyList)) else it.iter_concrete(src)
        if isinstance(src, CSet):
            items = sorted(items, key=lambda m: -m.f["meas_uid"])          # arbitrary (adversarial) iteration order of a set
        if "key" not in kw:
            return it.b_sorted(args, kw, None)
        lst = PyList(items)
        b_sort(it, [lst], {"key": kw["key"]})
        if kw.get("reverse"):
            lst.items.reverse()
        return lst

    def lib2(name):
        return lambda it, args, kw: LIB[name](as_int(args[0]), as_int(args[1]))

    def b_fstring(it, args, kw):
        node, env = args

        def render(n):
            out = ""
            for part in n.values:
                if isinstance(part, __import__("ast").Constant):
                    out += str(part.value)
                else:
                    v = it.eval(part.value, env)
                    if not isinstance(v, (int, str)) or part.conversion != -1:
                        return None
                    spec = render(part.format_spec) if part.format_spec is not None else ""
                    if spec is None:
                        return None
                    out += format(v, spec)
            return out
        try:
            s = render(node)
        except (Unsupp, RaiseExc):
            s = None
        from vf.pyvc.engine import Opaque
        return s if s is not None else Opaque("str")

    def b_int(it, args, kw):
        if len(args) == 1 and isinstance(args[0], str):
            return int(args[0])
        return it.b_int(args, kw, None)

    class IterM(Model):
        """iter(tuple): a consumable iterator"""

        def __init__(self, items):
            self.items, self.pos = list(items), 0

        def rest(self):
            r, self.pos = self.items[self.pos:], len(self.items)
            return r

    def b_iter(it, args, kw):
        return IterM(it.iter_concrete(args[0]))

    def b_next(it, args, kw):
        i = args[0]
        if not isinstance(i, IterM):
            raise Unsupp("next of this value")
        if i.pos >= len(i.items):
            raise RaiseExc("StopIteration")
        i.pos += 1
        return i.items[i.pos - 1]

    def pf_model(tag):
        def fn(it, args, kw):
            if kw or not all(is_intlike(a) for a in args):
                raise RaiseExc("TypeError")
            cell.setdefault("pf_calls", []).append((tag, len(args)))
            return pf(tag, len(args))(*[as_int(a) for a in args])
        return fn

    xb = {"set": b_set, "list": b_list, "method:sort": b_sort, "sorted": b_sorted, "fstring": b_fstring, "int": b_int, "iter": b_iter, "next": b_next,
          "pf_a": pf_model("a"), "pf_b": pf_model("b"),
          "base_bin": lambda it, a, k: BIN(as_int(a[0]), as_int(a[1])), "post_fn": lambda it, a, k: FN1(as_int(a[0])),
          "math.logical_not": lambda it, a, k: LNOT(as_int(a[0]))}
    for nm in LIB:
        xb["math." + nm] = lib2(nm)
    w = World(MVF, classes={"MeasurementValue": {"measurements": NoneV, "_processing_fn": NoneV}}, functions=["no_processing"],
              stubs={"Meas": (MEAS_SRC, {"meas_uid": NoneV, "postselect": NoneV}), "Outcomes": (OUT_SRC, {"table": NoneV})}, extra_builtins=xb)

    # ---------------------------------------------------------------------------------------------- building operands
    def ghost(ctx, a):
        cell["ctx"] = ctx

    def meas_pool(ctx):
        if cell.get("pool_ctx") is not ctx:
            cell["pool_ctx"], cell["pool"], cell["pf_calls"] = ctx, {}, []
        return cell["pool"]

    def meas(ctx, uid, ps=None):
        pool = meas_pool(ctx)
        if uid not in pool:
            pool[uid] = Rec(w.classes["Meas"], {"meas_uid": uid, "postselect": ps})
        return pool[uid]

    def mv_type(tag, uids, processed=True, ps=None):
        """operand depending on the measurements `uids` (in this order); `processed=False`: a bare measurement value (no processing)"""
        def ctor(ctx, name):
            fn = FuncRef("builtin", "pf_" + tag) if processed else None
            return Rec(w.classes["MeasurementValue"], {"measurements": PyList([meas(ctx, u, (ps or {}).get(u)) for u in uids]), "_processing_fn": fn})
        return T("build", ctor, gen=lambda rng: {"__mv__": tag})

    def mlist(r):
        ms = r.f["measurements"] if isinstance(r, Rec) else r.measurements
        return list(ms.items) if isinstance(ms, PyList) else list(ms)

    def uid_of(m):
        return m.f["meas_uid"] if isinstance(m, Rec) else m.meas_uid

    def sigma_for(uids):
        return {u: z3.Int(f"outcome_of_m{u}") for u in uids}

    def denote_sym(mv, sigma):
        """[[mv]](sigma): call the object's processing function (a closure built by the real code) on the outcomes of its measurements"""
        it = Interp(cell["ctx"], None)
        fn = it.getattr(mv, "processing_fn")
        return it.call(fn, [sigma[uid_of(m)] for m in mlist(mv)], {})

    def operand_sym(tag, uids, processed, sigma):
        """specification side: the operand's value under sigma"""
        if not processed:
            return sigma[uids[0]]
        return pf(tag, len(uids))(*[sigma[u] for u in uids])

    def same_val(got, want):
        if isinstance(got, tuple) and isinstance(want, tuple) and len(got) == len(want):
            return And(True, *[same_val(g, x) for g, x in zip(got, want)])
        if isinstance(got, FloatV) or isinstance(want, FloatV):
            return real_of(got) == real_of(want)
        if isinstance(got, z3.BoolRef) or isinstance(want, z3.BoolRef) or isinstance(got, bool) or isinstance(want, bool):
            g = got if isinstance(got, (z3.BoolRef, bool)) else None
            x = want if isinstance(want, (z3.BoolRef, bool)) else None
            if g is None or x is None:
                return False
            return S._t(g) == S._t(x)
        if is_intlike(got) and is_intlike(want):
            return as_int(got) == as_int(want)
        return False

    # ---------------------------------------------------------------------------------------------- native operands
    def native_mv(tag, uids, processed, pool, ps=None):
        mod = __import__("importlib").import_module(MVMOD)
        ms = []
        for u in uids:
            if u not in pool:
                pool[u] = NMeas(u, (ps or {}).get(u))
            ms.append(pool[u])
        return mod.MeasurementValue(ms, native_pf(tag, len(uids)) if processed else None)

    def native_operand(tag, uids, processed, sig):
        return native_pf(tag, len(uids))(*[sig[u] for u in uids]) if processed else sig[uids[0]]

    def all_sigmas(uids):
        uids = sorted(set(uids))
        for bits in itertools.product((0, 1), repeat=len(uids)):
            yield dict(zip(uids, bits))

    class Raised:
        """native evaluation of a produced processing function raised: compares unequal to every specified value"""

        def __init__(self, exc):
            self.exc = exc

    def native_denote(mv, sig):
        try:
            return mv.processing_fn(*[sig[m.meas_uid] for m in mv.measurements])
        except ZeroDivisionError:
            raise
        except Exception as ex:  # pylint: disable=broad-except
            return Raised(ex)

    contracts = []

    # ---------------------------------------------------------------------------------------------- dependency shapes
    def shapes(max_each):
        """all pairs (A, B) of duplicate-free id sequences, up to order isomorphism, whose union is {1..k}"""
        out = []
        for k in range(0, 2 * max_each + 1):
            labels = list(range(1, k + 1))
            seqs = [p for n in range(0, max_each + 1) for c in itertools.combinations(labels, n) for p in itertools.permutations(c)]
            for A in seqs:
                for B in seqs:
                    if set(A) | set(B) == set(labels):
                        out.append((A, B))
        return out
    SMALL = shapes(2)
    BIG = [((1, 3, 5), (2, 3, 6)), ((5, 1, 3), (6, 3, 1)), ((1, 2, 3), (1, 2, 3)), ((3, 2, 1), (4,)), ((2,), (3, 1, 2)), ((1, 2, 3), (4, 5, 6)),
           ((4, 5, 6), (3, 2, 1))]

    def merge_post(A, B, pa, pb):
        def post(o, r, nw):
            native = not isinstance(nw.self, Rec)
            ms = mlist(r)
            uids = [uid_of(m) for m in ms]
            canonical = uids == sorted(set(A) | set(B)) and (native or all(any(m is x for x in mlist(nw.self) + mlist(nw.other)) for m in ms))
            if not canonical:
                return False
            if native:
                return all(native_denote(r, sg) == (native_operand("a", A, pa, sg), native_operand("b", B, pb, sg)) for sg in all_sigmas(uids))
            sg = sigma_for(uids)
            try:
                return same_val(denote_sym(r, sg), (operand_sym("a", A, pa, sg), operand_sym("b", B, pb, sg)))
            except RaiseExc:
                return False          # the merged processing function raises on an outcome assignment
        return post

    def pair_gen(A, B, pa, pb, scalar=None):
        def gen(rng, m):
            pool = {}
            m = dict(m, self=native_mv("a", A, pa, pool))
            if B is not None:
                m["other"] = native_mv("b", B, pb, pool)
            elif rng is not None and "other" in m:
                m["other"] = rng.choice([0, 1, 2, -3, 5])
            return m
        return gen

    def lab(A, B, pa=True, pb=True):
        f = lambda s, p: "[" + ",".join(f"m{u}" for u in s) + "]" + ("" if p else " bare")
        return f"a on {f(A, pa)}, b on {f(B, pb)}"
    for A, B in SMALL + BIG:
        variants = [(True, True)]
        if len(A) == 1 and len(B) == 1:
            variants += [(False, True), (True, False), (False, False)]
        for pa, pb in variants:
            contracts.append(FnContract(w, "MeasurementValue._merge", [
                Case(lab(A, B, pa, pb), {"self": mv_type("a", A, pa), "other": mv_type("b", B, pb)}, ghost=ghost, ensures=merge_post(A, B, pa, pb),
                     native_gen=pair_gen(A, B, pa, pb), size_bounded=True)]))

    # ---- _apply / __invert__
    def apply_post(A, pa, spec_sym, spec_nat):
        def post(o, r, nw):
            native = not isinstance(nw.self, Rec)
            if [uid_of(m) for m in mlist(r)] != list(A):
                return False
            if native:
                return all(native_denote(r, sg) == spec_nat(native_operand("a", A, pa, sg)) for sg in all_sigmas(A))
            sg = sigma_for(A)
            try:
                return same_val(denote_sym(r, sg), spec_sym(operand_sym("a", A, pa, sg)))
            except RaiseExc:
                return False
        return post

    def nat_fn(x):
        return 1000 - 7 * x
    for A, pa in (((), True), ((1,), True), ((1,), False), ((2, 1), True), ((1, 2, 3), True)):
        contracts.append(FnContract(w, "MeasurementValue._apply", [
            Case(lab(A, (), pa), {"self": mv_type("a", A, pa), "fn": T("const", FuncRef("builtin", "post_fn"))}, ghost=ghost,
                 ensures=apply_post(A, pa, FN1, nat_fn), native_gen=lambda rng, m, A=A, pa=pa: dict(pair_gen(A, None, pa, True)(rng, m), fn=nat_fn),
                 size_bounded=True)]))
        contracts.append(FnContract(w, "MeasurementValue.__invert__", [
            Case(lab(A, (), pa), {"self": mv_type("a", A, pa)}, ghost=ghost,
                 ensures=apply_post(A, pa, LNOT, lambda x: __import__("pennylane").math.logical_not(x)),
                 native_gen=pair_gen(A, None, pa, True), size_bounded=True)]))

    # ---- _transform_bin_op with an uninterpreted binary function: MeasurementValue operand / scalar operand
    def nat_bin(x, y):
        return 31 * x - 17 * y + 4

    def bin_post(A, B, pa, pb, spec_sym, spec_nat, swap=False):
        """[[r]](sigma) == spec([[a]](sigma), [[b]](sigma) or the scalar) on the merged measurements (`swap`: scalar is the LEFT operand)"""
        def post(o, r, nw):
            native = not isinstance(nw.self, Rec)
            uids = [uid_of(m) for m in mlist(r)]
            want_uids = sorted(set(A) | set(B)) if B is not None else list(A)
            if uids != want_uids:
                return False
            if native:
                for sg in all_sigmas(uids):
                    x = native_operand("a", A, pa, sg)
                    y = native_operand("b", B, pb, sg) if B is not None else nw.other
                    try:
                        want = spec_nat(y, x) if swap else spec_nat(x, y)
                    except ZeroDivisionError:
                        try:
                            native_denote(r, sg)
                            return False
                        except ZeroDivisionError:
                            continue
                    got = native_denote(r, sg)
                    if not (got == want and (isinstance(got, bool) or not isinstance(want, bool))):
                        return False
                return True
            sg = sigma_for(uids)
            x = operand_sym("a", A, pa, sg)
            y = operand_sym("b", B, pb, sg) if B is not None else nw.other
            try:
                got = denote_sym(r, sg)
            except RaiseExc as e:
                # lazy evaluation raises exactly what python raises: division by a zero divisor
                if e.name != "ZeroDivisionError":
                    return False
                den = x if swap else y
                return real_of(den) == 0
            want = spec_sym(y, x) if swap else spec_sym(x, y)
            return same_val(got, want)
        return post
    for A, B, pa, pb in [(A, B, True, True) for A, B in SMALL if len(A) + len(B) <= 3] + [((1,), (2,), False, False), ((1,), (1,), False, False),
                                                                                          ((1, 3, 5), (2, 3, 6), True, True)]:
        contracts.append(FnContract(w, "MeasurementValue._transform_bin_op", [
            Case(lab(A, B, pa, pb), {"self": mv_type("a", A, pa), "base_bin": T("const", FuncRef("builtin", "base_bin")), "other": mv_type("b", B, pb)},
                 ghost=ghost, ensures=bin_post(A, B, pa, pb, BIN, nat_bin),
                 native_gen=lambda rng, m, A=A, B=B, pa=pa, pb=pb: dict(pair_gen(A, B, pa, pb)(rng, m), base_bin=nat_bin), size_bounded=True)]))
    for A, pa in (((1,), False), ((2, 1), True), ((), True)):
        contracts.append(FnContract(w, "MeasurementValue._transform_bin_op", [
            Case(lab(A, ()) + " -> scalar other", {"self": mv_type("a", A, pa), "base_bin": T("const", FuncRef("builtin", "base_bin")), "other": Int},
                 ghost=ghost, ensures=bin_post(A, None, pa, True, lambda x, y: BIN(as_int(x), as_int(y)), nat_bin),
                 native_gen=lambda rng, m, A=A, pa=pa: dict(pair_gen(A, None, pa, True)(rng, m), base_bin=nat_bin), size_bounded=True)]))

    # ---- the operator dunders
    def z(f):
        return lambda x, y: f(as_int(x), as_int(y))

    def div_sym(x, y):
        return FloatV(real_of(x) / real_of(y))
    qm = lambda name: (lambda x, y: getattr(__import__("pennylane").math, name)(x, y))
    BINOPS = {
        "__add__": (z(operator.add), operator.add), "__sub__": (z(operator.sub), operator.sub), "__mul__": (z(operator.mul), operator.mul),
        "__truediv__": (div_sym, operator.truediv),
        "__eq__": (z(operator.eq), operator.eq), "__ne__": (z(operator.ne), operator.ne), "__lt__": (z(operator.lt), operator.lt),
        "__le__": (z(operator.le), operator.le), "__gt__": (z(operator.gt), operator.gt), "__ge__": (z(operator.ge), operator.ge),
        "__and__": (z(LIB["logical_and"]), qm("logical_and")), "__or__": (z(LIB["logical_or"]), qm("logical_or")),
        "__xor__": (z(LIB["logical_xor"]), qm("logical_xor")), "__mod__": (z(LIB["mod"]), qm("mod")),
    }
    DUNDER_SHAPES = [((1,), (2,), False, False), ((2, 3), (1, 3), True, True), ((1,), (1,), True, False)]
    for name, (ssym, snat) in BINOPS.items():
        for A, B, pa, pb in DUNDER_SHAPES:
            contracts.append(FnContract(w, f"MeasurementValue.{name}", [
                Case(lab(A, B, pa, pb), {"self": mv_type("a", A, pa), "other": mv_type("b", B, pb)}, ghost=ghost,
                     ensures=bin_post(A, B, pa, pb, ssym, snat), native_gen=pair_gen(A, B, pa, pb), size_bounded=True)]))
        for A, pa in (((1,), False), ((2, 1), True)):
            contracts.append(FnContract(w, f"MeasurementValue.{name}", [
                Case(lab(A, ()) + " -> scalar other", {"self": mv_type("a", A, pa), "other": Int}, ghost=ghost,
                     ensures=bin_post(A, None, pa, True, ssym, snat), native_gen=pair_gen(A, None, pa, True), size_bounded=True)]))
    # scalar on the LEFT: other + mv, other - mv, other * mv, other / mv
    ROPS = {"__radd__": (z(operator.add), operator.add), "__rsub__": (z(operator.sub), operator.sub),
            "__rmul__": (lambda o_, v: as_int(o_) * LIB["cast_like"](as_int(v), as_int(o_)), lambda o_, v: o_ * v),
            "__rtruediv__": (div_sym, operator.truediv)}
    for name, (ssym, snat) in ROPS.items():
        for A, pa in (((1,), False), ((2, 1), True)):
            contracts.append(FnContract(w, f"MeasurementValue.{name}", [
                Case("scalar other on the left, " + lab(A, (), pa), {"self": mv_type("a", A, pa), "other": Int}, ghost=ghost,
                     ensures=bin_post(A, None, pa, True, ssym, snat, swap=True), native_gen=pair_gen(A, None, pa, True), size_bounded=True)]))

    # ---- concretize
    def conc_post(A, pa):
        def post(o, r, nw):
            if not isinstance(nw.self, Rec):
                return r == native_operand("a", A, pa, {m.meas_uid: v for m, v in nw.measurements.items()})
            sg = {u: nw.measurements.f["table"][u] for u in A}
            return same_val(r, operand_sym("a", A, pa, sg))
        return post

    def outcomes_type(uids):
        return T("build", lambda ctx, name: Rec(w.classes["Outcomes"], {"table": {u: z3.Int(ctx.fresh_name(f"sigma_m{u}")) for u in uids}}),
                 gen=lambda rng: {"__outcomes__": True})

    def conc_gen(A, pa, universe):
        def gen(rng, m):
            pool = {}
            mv = native_mv("a", A, pa, pool)
            for u in universe:
                pool.setdefault(u, NMeas(u))
            import random
            r = rng or random.Random(0)
            return dict(m, self=mv, measurements={pool[u]: r.choice([0, 1]) for u in universe})
        return gen
    for A, pa, universe in (((1,), False, (1, 2)), ((3, 1), True, (1, 2, 3)), ((), True, (1,)), ((2, 3, 1), True, (1, 2, 3, 4))):
        contracts.append(FnContract(w, "MeasurementValue.concretize", [
            Case(lab(A, (), pa), {"self": mv_type("a", A, pa), "measurements": outcomes_type(universe)}, ghost=ghost, ensures=conc_post(A, pa),
                 native_gen=conc_gen(A, pa, universe), size_bounded=True)]))

    # ---- branch enumerations
    def bits_of(i, n):
        return tuple((i >> (n - 1 - j)) & 1 for j in range(n))

    def collect_yields(ctx, a):
        ghost(ctx, a)
        ys = cell["yields"] = []
        ctx.yield_hook = lambda it, value, env: ys.append(value)

    def items_post(A, pa):
        n = len(A)

        def post(o, r, nw):
            native = not isinstance(nw.self, Rec)
            got = list(r) if native else cell["yields"]
            if len(got) != 2 ** n:
                return False
            ok = True
            for i, pair in enumerate(got):
                if not (isinstance(pair, tuple) and len(pair) == 2 and tuple(pair[0]) == bits_of(i, n)):
                    return False
                sg = dict(zip(A, bits_of(i, n)))
                want = native_operand("a", A, pa, sg) if native else operand_sym("a", A, pa, {u: z3.IntVal(v) for u, v in sg.items()})
                ok = And(ok, (pair[1] == want) if native else same_val(pair[1], want))
            return ok
        return post

    def branches_post(A, pa):
        n = len(A)

        def post(o, r, nw):
            native = not isinstance(nw.self, Rec)
            if not isinstance(r, dict) or list(r.keys()) != [bits_of(i, n) for i in range(2 ** n)]:
                return False
            ok = True
            for i in range(2 ** n):
                sg = dict(zip(A, bits_of(i, n)))
                want = native_operand("a", A, pa, sg) if native else operand_sym("a", A, pa, {u: z3.IntVal(v) for u, v in sg.items()})
                ok = And(ok, (r[bits_of(i, n)] == want) if native else same_val(r[bits_of(i, n)], want))
            return ok
        return post
    # n = 0 is outside the domain of the enumerations: format(0, "00b") == "0", so a value depending on NO measurement would be
    # enumerated with the one-bit branch (0,) and its 0-ary processing function called with one argument (reported as an observation)
    ENUM_SHAPES = [((1,), False), ((1,), True), ((2, 1), True), ((1, 2, 3), True)]
    for A, pa in ENUM_SHAPES:
        contracts.append(FnContract(w, "MeasurementValue.items", [
            Case(lab(A, (), pa), {"self": mv_type("a", A, pa)}, ghost=collect_yields, ensures=items_post(A, pa), native_gen=pair_gen(A, None, pa, True),
                 size_bounded=True)]))
        contracts.append(FnContract(w, "MeasurementValue.branches", [
            Case(lab(A, (), pa), {"self": mv_type("a", A, pa)}, ghost=ghost, ensures=branches_post(A, pa), native_gen=pair_gen(A, None, pa, True),
                 size_bounded=True)]))
        for i in range(2 ** len(A)):
            def gi_post(o, r, nw, A=A, pa=pa, i=i):
                sg = dict(zip(A, bits_of(i, len(A))))
                if not isinstance(nw.self, Rec):
                    return r == native_operand("a", A, pa, sg)
                return same_val(r, operand_sym("a", A, pa, {u: z3.IntVal(v) for u, v in sg.items()}))
            contracts.append(FnContract(w, "MeasurementValue.__getitem__", [
                Case(lab(A, (), pa) + f", i = {i}", {"self": mv_type("a", A, pa), "i": T("const", i)}, ghost=ghost, ensures=gi_post,
                     native_gen=pair_gen(A, None, pa, True), size_bounded=True)]))

    # ---- postselected_items: the sub-enumeration consistent with the postselected outcomes
    def ps_post(A, ps):
        free = [u for u in A if u not in ps]
        k = len(free)

        def post(o, r, nw):
            native = not isinstance(nw.self, Rec)
            got = list(r) if native else cell["yields"]
            if len(got) != (2 ** k if k else 1):
                return False
            ok = True
            for i, pair in enumerate(got):
                if not (isinstance(pair, tuple) and len(pair) == 2 and tuple(pair[0]) == bits_of(i, k)):
                    return False
                sg = dict(zip(free, bits_of(i, k)))
                if native:
                    full = {u: (nw.self.measurements[A.index(u)].postselect if u in ps else sg[u]) for u in A}
                    ok = ok and pair[1] == native_operand("a", A, True, full)
                else:
                    full = {u: (cell["ps_vals"][u] if u in ps else z3.IntVal(sg[u])) for u in A}
                    ok = And(ok, same_val(pair[1], operand_sym("a", A, True, full)))
            return ok
        return post

    def ps_type(A, ps):
        def ctor(ctx, name):
            vals = cell["ps_vals"] = {u: z3.Int(ctx.fresh_name(f"postselect_m{u}")) for u in ps}
            meas_pool(ctx)
            return Rec(w.classes["MeasurementValue"], {"measurements": PyList([meas(ctx, u, vals.get(u)) for u in A]),
                                                       "_processing_fn": FuncRef("builtin", "pf_a")})
        return T("build", ctor, gen=lambda rng: {"__mv__": "a"})

    def ps_gen(A, ps):
        def gen(rng, m):
            import random
            r = rng or random.Random(1)
            return dict(m, self=native_mv("a", A, True, {}, {u: r.choice([0, 1]) for u in ps}))
        return gen
    PS_SHAPES = [(A, ps) for n in range(0, 3) for A in [tuple(range(1, n + 1))] for k in range(0, n + 1) for ps in itertools.combinations(A, k)]
    PS_SHAPES += [((1, 2, 3), (2,)), ((1, 2, 3), (1, 3)), ((1, 2, 3), (1, 2, 3)), ((3, 1, 2), (3,))]
    for A, ps in PS_SHAPES:
        contracts.append(FnContract(w, "MeasurementValue.postselected_items", [
            Case(f"measurements {list(A)}, postselected {list(ps)}", {"self": ps_type(A, ps)}, ghost=collect_yields, ensures=ps_post(A, ps),
                 native_gen=ps_gen(A, ps), size_bounded=True)]))

    for fc in contracts:
        plan.fn_under_contract(fc.world.file, fc.qualname)
        for ob in obligations_for(PID, fc, tier):
            plan.add(ob)
    add_variance_transform(plan, tier)
    add_postselection(plan, tier)
    add_defer_measurements(plan, tier, seed)
    return plan


# ============================================================================================== variance_transform (simulate.py)
SIMF = "pennylane/devices/qubit/simulate.py"

VT_STUBS = {
    "Obs": ("class Obs:\n    def __matmul__(self, other):\n        return ObsProd(self, other)\n", {"oid": NoneV}),
    "ObsProd": ("class ObsProd:\n    def __init__(self, a, b):\n        self.a = a\n        self.b = b\n", {"a": NoneV, "b": NoneV}),
    "MV": ("class MV:\n    def __mul__(self, other):\n        return MVProd(self, other)\n", {"oid": NoneV}),
    "MVProd": ("class MVProd:\n    def __init__(self, a, b):\n        self.a = a\n        self.b = b\n", {"a": NoneV, "b": NoneV}),
    "VarianceMP": ("class VarianceMP:\n    pass\n", {"obs": NoneV, "mv": NoneV}),
    "ProbabilityMP": ("class ProbabilityMP:\n    pass\n", {"obs": NoneV, "mv": NoneV, "pid": NoneV}),
    "ExpectationMP": ("class ExpectationMP:\n    def __init__(self, obs=None):\n        if isinstance(obs, (MV, MVProd)):\n            self.mv = obs\n"
                      "            self.obs = None\n        else:\n            self.obs = obs\n            self.mv = None\n", {"obs": NoneV, "mv": NoneV}),
    "QuantumScript": ("class QuantumScript:\n    def __init__(self, ops=None, measurements=None, shots=None):\n        self.operations = ops\n"
                      "        self.measurements = measurements\n        self.shots = shots\n", {"operations": NoneV, "measurements": NoneV, "shots": NoneV}),
}
# measurement kinds of a shape: VO = var(observable), VM = var(measurement value), EO = expval(observable), EM = expval(measurement value),
# PR = probs(wires)
VT_KINDS = ("VO", "VM", "EO", "PR")


class LazyZipInterp(Interp):
    """`for ... in enumerate(zip(live_list, ...))` with python's LAZY iterator semantics (a list iterator reads the live list by index, zip
    (strict) checks exhaustion when the first iterator stops): variance_post_processing pops from the list it is iterating over"""

    def s_For(self, s, env):
        it = self.eval(s.iter, env)
        if not isinstance(it, LazyIter):
            # (the iterable was evaluated once already: evaluation of enumerate/zip/name expressions has no side effect)
            return Interp.s_For(self, s, env)
        self.next_loop()
        broke = False
        for x in it.run(self, s):
            self.assign(s.target, x, env)
            try:
                self.exec_block(s.body, env)
            except BreakExc:
                broke = True
                break
            except ContinueExc:
                continue
        if not broke:
            self.exec_block(s.orelse, env)


class LazyIter(Model):
    def __init__(self, kind, parts, strict=False, start=0):
        self.kind, self.parts, self.strict, self.start = kind, parts, strict, start

    def cursor(self, interp):
        """python iterator protocol over live containers: returns next() -> (ok, value)"""
        if self.kind == "enumerate":
            inner, n = as_cursor(self.parts[0], interp), [self.start]

            def nxt():
                ok, v = inner()
                if not ok:
                    return False, None
                n[0] += 1
                return True, (n[0] - 1, v)
            return nxt
        curs = [as_cursor(p, interp) for p in self.parts]

        def nxt():
            vals = []
            for k, c in enumerate(curs):
                ok, v = c()
                if not ok:
                    if self.strict:
                        if k > 0:
                            raise RaiseExc("ValueError")        # argument k+1 is shorter than the arguments before it
                        for c2 in curs[1:]:
                            if c2()[0]:
                                raise RaiseExc("ValueError")    # a later argument is longer
                    return False, None
                vals.append(v)
            return True, tuple(vals)
        return nxt

    def run(self, interp, node):
        nxt = self.cursor(interp)
        for _ in range(64):
            ok, v = nxt()
            if not ok:
                return
            yield v
        raise Unsupp("lazy iteration did not stop within 64 steps")


def as_cursor(v, interp):
    if isinstance(v, LazyIter):
        return v.cursor(interp)
    if isinstance(v, PyList):
        pos = [0]

        def nxt():                     # list iterator: index into the LIVE list
            if pos[0] >= len(v.items):
                return False, None
            pos[0] += 1
            return True, v.items[pos[0] - 1]
        return nxt
    items, pos = list(interp.iter_concrete(v)), [0]

    def nxt2():
        if pos[0] >= len(items):
            return False, None
        pos[0] += 1
        return True, items[pos[0] - 1]
    return nxt2


def mlist_of(t):
    ms = t.f["measurements"]
    return list(ms.items) if isinstance(ms, PyList) else list(ms)


def _flat(k):
    for x in k:
        if isinstance(x, tuple):
            yield from _flat(x)
        else:
            yield x


def _same_real(g, x):
    if not isinstance(g, (FloatV, float, int)) or isinstance(g, bool):
        return False
    return real_of(g) == real_of(x)


def vt_native_tape(shape):
    """a real tape whose measurements have the given kinds (distinct observables / measurement values)"""
    import pennylane as qp
    m0, m1 = qp.measure(0), qp.measure(1)
    obs_pool = [lambda: qp.Z(0) + 0.5 * qp.X(1), lambda: qp.X(1) - 0.3 * qp.Y(2), lambda: qp.Y(2) + 0.2 * qp.Z(0), lambda: qp.Z(1),
                lambda: 0.7 * qp.X(0) + qp.Z(2), lambda: qp.X(2)]
    mv_pool = [lambda: m0, lambda: m1, lambda: m0 + 2 * m1, lambda: 3 * m0 - m1, lambda: m0 * m1 + 1, lambda: 2 * m1 + 5]
    ms = []
    for i, kd in enumerate(shape):
        if kd == "VO":
            ms.append(qp.var(obs_pool[i % 6]()))
        elif kd == "VM":
            ms.append(qp.var(mv_pool[i % 6]()))
        elif kd == "EO":
            ms.append(qp.expval(obs_pool[i % 6]()))
        elif kd == "EM":
            ms.append(qp.expval(mv_pool[i % 6]()))
        else:
            ms.append(qp.probs(wires=[i % 3, (i + 1) % 3]))
    tape = qp.tape.QuantumScript([qp.RY(0.3, 0), qp.CNOT([0, 1])], ms, shots=None)
    return tape, (m0.measurements[0], m1.measurements[0])


def vt_exact_value(mp, mcms):
    """independent exact evaluation of a measurement process on a fixed 3-qubit state and a fixed joint distribution of two mid-circuit
    outcomes: expectation values from the observable's matrix, variances as <M^2> - <M>^2 from that same matrix"""
    import numpy as np
    import pennylane as qp
    rs = np.random.RandomState(1234)
    psi = rs.normal(size=8) + 1j * rs.normal(size=8)
    psi = psi / np.linalg.norm(psi)
    joint = {(0, 0): 0.1, (0, 1): 0.2, (1, 0): 0.3, (1, 1): 0.4}
    kind = type(mp).__name__
    if kind == "ProbabilityMP":
        p = (np.abs(psi) ** 2).reshape(2, 2, 2)
        ws = list(mp.wires)
        p = p.sum(axis=tuple(a for a in range(3) if a not in ws))
        if ws != sorted(ws):
            p = p.T
        return p.reshape(-1)
    if mp.mv is not None:
        f = {s: float(mp.mv.concretize(dict(zip(mcms, s)))) for s in joint}
        e1 = sum(joint[s] * f[s] for s in joint)
        e2 = sum(joint[s] * f[s] ** 2 for s in joint)
    else:
        M = qp.matrix(mp.obs, wire_order=[0, 1, 2])
        e1 = float(np.real(np.vdot(psi, M @ psi)))
        e2 = float(np.real(np.vdot(psi, M @ (M @ psi))))
    if kind == "ExpectationMP":
        return e1
    if kind == "VarianceMP":
        return e2 - e1 ** 2
    raise ValueError(kind)


def add_variance_transform(plan, tier):
    """variance_transform (used by simulate_tree_mcm): the executed tape carries no variance measurement, and the post-processing function applied to
    the exact values of the executed tape's measurements returns, for every original measurement, its exact value; for var(O) that is
    <O^2> - <O>^2 (property: every method returns the exact branch-averaged result -- a variance is not additive over branches)"""
    import numpy as np
    xb = {"zip": lambda it, a, k: LazyIter("zip", list(a), strict=bool(k.get("strict"))),
          "enumerate": lambda it, a, k: LazyIter("enumerate", [a[0]], start=(a[1] if len(a) > 1 else k.get("start", 0)))}
    w = World(SIMF, stubs=VT_STUBS, extra_builtins=xb)
    C = w.classes
    cell = {}
    OPREF = z3.DeclareSort("OpRef")

    def mk_circuit(shape):
        def ctor(ctx, name):
            ms = []
            for i, kd in enumerate(shape):
                if kd == "VO":
                    ms.append(Rec(C["VarianceMP"], {"obs": Rec(C["Obs"], {"oid": i}), "mv": None}))
                elif kd == "VM":
                    ms.append(Rec(C["VarianceMP"], {"obs": None, "mv": Rec(C["MV"], {"oid": i})}))
                elif kd == "EO":
                    ms.append(Rec(C["ExpectationMP"], {"obs": Rec(C["Obs"], {"oid": i}), "mv": None}))
                elif kd == "EM":
                    ms.append(Rec(C["ExpectationMP"], {"obs": None, "mv": Rec(C["MV"], {"oid": i})}))
                else:
                    ms.append(Rec(C["ProbabilityMP"], {"obs": None, "mv": None, "pid": i}))
            cell["vals"], cell["ctx"] = {}, ctx
            return Rec(C["QuantumScript"], {"operations": PyList([z3.Const(ctx.fresh_name("op"), OPREF)]), "measurements": PyList(ms),
                                            "shots": z3.Int(ctx.fresh_name("shots"))})
        return T("build", ctor, gen=lambda rng: {"__shape__": shape})

    def okey(o):
        """structural key of what is measured"""
        if not isinstance(o, Rec):
            return None
        nm = o.cls.name
        if nm in ("Obs", "MV"):
            return (nm, o.f["oid"])
        if nm in ("ObsProd", "MVProd"):
            a, b = okey(o.f["a"]), okey(o.f["b"])
            return None if a is None or b is None else (nm, a, b)
        return None

    def mkey(m):
        if not isinstance(m, Rec) or m.cls.name not in ("ProbabilityMP", "VarianceMP", "ExpectationMP"):
            return None
        nm = m.cls.name
        if nm == "ProbabilityMP":
            return ("probs", m.f["pid"])
        if (m.f.get("obs") is None) == (m.f.get("mv") is None):
            return None
        k = okey(m.f["obs"]) if m.f.get("mv") is None else okey(m.f["mv"])
        return None if k is None else ({"VarianceMP": "var", "ExpectationMP": "expval"}[nm], k)

    def val(key):
        """the exact (branch-averaged) value of a measurement of the executed tape: one symbolic real per measured quantity"""
        vals = cell["vals"]
        if key not in vals:
            vals[key] = FloatV(z3.Real(cell["ctx"].fresh_name("value_" + "_".join(str(x) for x in _flat(key)))))
        return vals[key]

    def expected(m):
        kind, k = mkey(m)
        if kind != "var":
            return val((kind, k))
        prod = ("ObsProd" if k[0] == "Obs" else "MVProd", k, k)
        ex2, ex = val(("expval", prod)), val(("expval", k))
        return FloatV(real_of(ex2) - real_of(ex) * real_of(ex))

    def post_native(r, nw):
        want, out = r["exact"], r["returned"]
        return r["structure_ok"] and len(out) == len(want) and all(np.shape(g) == np.shape(x) and np.allclose(g, x, atol=1e-9, rtol=0)
                                                                    for g, x in zip(out, want))

    def post(case_ref):
        def ensures(o, r, nw):
            if not isinstance(nw.circuit, Rec):
                return post_native(r, nw)
            if not (isinstance(r, tuple) and len(r) == 2 and isinstance(r[0], tuple) and len(r[0]) == 1):
                return False
            tape, fn = r[0][0], r[1]
            orig = mlist_of(nw.circuit)
            if tape is nw.circuit:
                # nothing to transform: only allowed when the circuit has no variance measurement
                if any(mkey(m)[0] == "var" for m in orig):
                    return False
            elif not isinstance(tape, Rec) or tape.cls.name != "QuantumScript":
                return False
            elif tape.f["operations"] is not nw.circuit.f["operations"] or tape.f["shots"] is not nw.circuit.f["shots"]:
                return False         # operations and shots of the executed tape are the circuit's
            keys = [mkey(m) for m in mlist_of(tape)]
            if any(k is None or k[0] == "var" for k in keys):
                return False         # the executed tape carries no variance measurement
            results = tuple(val(k) for k in keys)
            try:
                out = case_ref[0].interp.call(fn, [(results if len(results) > 1 else results[0],)], {})
            except RaiseExc:
                return False
            want = [expected(m) for m in orig]
            if len(want) == 1:
                return _same_real(out, want[0])
            if not isinstance(out, (PyList, tuple)):
                return False
            got = out.items if isinstance(out, PyList) else list(out)
            return len(got) == len(want) and And(True, *[_same_real(g, x) for g, x in zip(got, want)])
        return ensures

    def native_call(mod, a):
        """the REAL transform on a real tape; the executed tape is evaluated by an independent exact evaluator, the real post-processing applied"""
        tape, mcms = vt_native_tape(tuple(a["circuit"]["measurement_kinds"]))
        batch, fn = mod.variance_transform(tape)
        new = batch[0]
        ok = len(batch) == 1 and list(new.operations) == list(tape.operations) and new.shots == tape.shots \
            and not any(type(m).__name__ == "VarianceMP" for m in new.measurements)
        res = tuple(vt_exact_value(m, mcms) for m in new.measurements) if ok else ()
        out = fn((res if len(res) > 1 else res[0],)) if ok else []
        want = [vt_exact_value(m, mcms) for m in tape.measurements]
        if len(want) == 1:
            out = [out]
        elif not isinstance(out, (list, tuple)):
            ok = False
        return {"measurements": [repr(m) for m in tape.measurements], "executed": [repr(m) for m in new.measurements], "structure_ok": ok,
                "returned": [np.asarray(x).tolist() for x in out] if ok else [], "exact": [np.asarray(x).tolist() for x in want]}

    def gen(shape):
        def g(rng, m):
            return {"circuit": {"measurement_kinds": list(shape)}}       # the real tape of this shape is built by vt_native_tape
        return g
    full = 3 if tier == "quick" else 4
    shapes = [s for n in range(1, full + 1) for s in itertools.product(VT_KINDS, repeat=n)]
    shapes += [("EM",), ("EM", "VM"), ("VM", "EM", "VO"), ("VO", "EO", "VM", "VO"), ("VO", "VO", "VO", "VO"), ("VM", "VO", "VM", "VO"),
               ("EO", "VO", "PR", "VM", "VO"), ("VO", "PR", "VO", "EM", "VM"), ("VM", "VM", "VO", "VO", "VM", "VO")]
    shapes = list(dict.fromkeys(shapes))
    cases = []
    for shape in shapes:
        ref = []
        c = Case("measurements " + ",".join(shape), {"circuit": mk_circuit(shape)}, ensures=post(ref), native_call=native_call, native_gen=gen(shape),
                 native_raw=True, size_bounded=True)
        c.interp_cls = LazyZipInterp
        ref.append(c)
        cases.append(c)
    fc = FnContract(w, "variance_transform", cases)
    plan.fn_under_contract(SIMF, "variance_transform")
    plan.fn_under_contract(SIMF, "variance_transform.<locals>.variance_post_processing")
    for ob in obligations_for(PID, fc, tier):
        plan.add(ob)
    plan.size_bounds.append(f"variance_transform: every sequence of 1..{full} measurements over var(observable) / var(measurement value) / expval / probs "
                            "plus selected sequences of 4..6 (expval of measurement values included); observables, the executed tape's exact "
                            "values, operations and shots are symbolic")
    plan.assumed_contracts += ["observable @ observable / measurement value * measurement value denote the square of the measured quantity",
                               "ExpectationMP(obs=x) measures x (stub constructor: a measurement value goes to .mv, an operator to .obs)",
                               "python iterator protocol of enumerate / zip(strict=True) over a list that is mutated during iteration (modelled lazily: "
                               "list iterators index the live list)"]


# ============================================================================================== _postselection_postprocess (simulate.py)
PS_STUBS = {
    "Shots": ("class Shots:\n    def __bool__(self):\n        return self.total_shots is not None\n\n    def __iter__(self):\n        return self.entries\n",
              {"total_shots": NoneV, "entries": NoneV}),
    "_FlexShots": ("class _FlexShots:\n    def __init__(self, shots=None):\n        self.arg = shots\n", {"arg": NoneV}),
    "Rng": ("class Rng:\n    pass\n", {"binomial": NoneV}),
}


class Vec(Model):
    """a state vector: concrete number of real components (real and imaginary parts of the amplitudes), symbolic values"""

    def __init__(self, items, invalid=False):
        self.items, self.invalid = list(items), invalid

    def vf_binop(self, interp, name, other, swapped, node):
        if name != "truediv" or swapped or isinstance(other, (Vec, Rec)):
            raise Unsupp(f"state vector operation {name}")
        d = real_of(other)
        if interp.ctx.branch(d != 0):
            return Vec([FloatV(real_of(x) / d) for x in self.items], self.invalid)
        return Vec(self.items, invalid=True)           # numpy: division by zero gives nan / inf entries (no exception)

    def concretize_with(self, world, model):
        from vf.pyvc.engine import concretize
        return [concretize(world, x, model) for x in self.items]

    def snapshot(self):
        return self


def add_postselection(plan, tier):
    """_postselection_postprocess: documented hw-like / fill-shots semantics.  With P = <state|state> the Born probability of the postselected
    outcome (state = the projected, unnormalised state): hw-like (and the default mode) keeps each shot with probability P, i.e. every entry s of
    the shot vector is replaced by ONE draw Binomial(s, P); fill-shots keeps the shot vector and refuses P = 0; the state is renormalised."""
    import numpy as np
    cell = {}

    def m_norm(it, a, k):
        v = a[0]
        if not isinstance(v, Vec) or len(a) != 1 or k:
            raise Unsupp("math.norm of this value")
        n = z3.Real(it.ctx.fresh_name("norm"))
        sq = z3.Sum([real_of(x) * real_of(x) for x in v.items])
        it.ctx.assume(z3.And(n >= 0, n * n == sq))
        return FloatV(n)

    def m_allclose(it, a, k):
        return real_of(a[0]) == real_of(a[1])

    def binom(it, a, k):
        if len(a) != 2 or k:
            raise RaiseExc("TypeError")
        s, q = a
        if not is_intlike(s) or not isinstance(q, (FloatV, float, int)):
            raise RaiseExc("TypeError")
        d = z3.Int(it.ctx.fresh_name("binomial_draw"))
        it.ctx.assume(z3.And(d >= 0, d <= as_int(s)))
        cell["draws"].append((as_int(s), real_of(q), d))
        return d
    xb = {"math.norm": m_norm, "math.is_abstract": lambda it, a, k: False, "math.allclose": m_allclose, "np.random.binomial": binom, "rng_binomial": binom}
    w = World(SIMF, stubs=PS_STUBS, extra_builtins=xb)
    C = w.classes

    def ghost(ctx, a):
        cell["draws"], cell["ctx"] = [], ctx
        P = z3.Sum([real_of(x) * real_of(x) for x in a.state.items])
        root = z3.Real(ctx.fresh_name("sqrt_of_P"))
        ctx.assume(z3.And(root >= 0, root * root == P))        # specification constant: the square root of the non-negative real P
        cell["P"], cell["root"] = P, root

    def state_t(d):
        return T("build", lambda ctx, name: Vec([FloatV(z3.Real(ctx.fresh_name(f"{name}{i}"))) for i in range(d)]), gen=lambda rng: None)

    def shots_t(n):
        def ctor(ctx, name):
            if n is None:
                return Rec(C["Shots"], {"total_shots": None, "entries": PyList([])})
            es = [z3.Int(ctx.fresh_name(f"shots{i}")) for i in range(n)]
            for e in es:
                ctx.assume(e >= 0)
            return Rec(C["Shots"], {"total_shots": z3.Sum(es) if n > 1 else es[0], "entries": PyList(es)})
        return T("build", ctor, gen=lambda rng: None)

    def rng_t(present):
        if not present:
            return NoneV
        return T("build", lambda ctx, name: Rec(C["Rng"], {"binomial": FuncRef("builtin", "rng_binomial")}), gen=lambda rng: None)

    def entries_of(sh):
        return list(sh.f["entries"].items)

    # ---- native side: real arrays, real Shots, a recording random generator ----------------------------------------------------------------
    class FakeRng:
        def __init__(self):
            self.draws = []

        def binomial(self, n, p):
            k = int(round(int(n) * min(max(float(p), 0.0), 1.0) * 0.75))
            self.draws.append((int(n), float(p), k))
            return k

    def native_call(mod, a):
        from pennylane.core.shots import Shots
        amps = np.asarray(a["state"], dtype=float)
        state = (amps[0::2] + 1j * amps[1::2]).reshape((2,) * int(np.log2(len(amps) // 2))) if a["complex"] else amps.reshape((2,) * int(np.log2(len(amps))))
        shots = Shots(None) if a["shots"] is None else (mod._FlexShots(list(a["shots"])) if (0 in a["shots"] or a["flex"]) else Shots(list(a["shots"])))
        rec = FakeRng()
        kw = {}
        if a["rng"]:
            kw["rng"] = rec
        if a["mode_given"]:
            kw["postselect_mode"] = a["mode"]
        saved = np.random.binomial
        np.random.binomial = rec.binomial          # rng=None: the function draws from numpy's global generator
        try:
            out_state, out_shots = mod._postselection_postprocess(state, a["is_state_batched"], shots, **kw)
        finally:
            np.random.binomial = saved
        with np.errstate(all="ignore"):
            flat = np.asarray(out_state).reshape(-1)
        return {"state": [complex(x) for x in flat], "same_shots_object": out_shots is shots, "shots": None if not out_shots else [int(s) for s in out_shots],
                "shots_type": type(out_shots).__name__, "draws": rec.draws, "input_state": [complex(x) for x in state.reshape(-1)]}

    def post_native(r, a):
        x = np.asarray(r["input_state"])
        P = float(np.sum(np.abs(x) ** 2))
        ok = True
        if P > 1e-12:
            ok = ok and np.allclose(np.asarray(r["state"]), x / np.sqrt(P), atol=1e-9, rtol=0)
        if a["shots"] is None:
            return bool(ok and r["same_shots_object"] and r["draws"] == [])
        if a["mode"] == "fill-shots":
            return bool(ok and r["draws"] == [] and r["shots"] == list(a["shots"]))
        ok = ok and len(r["draws"]) == len(a["shots"]) and all(n == s and abs(p - P) <= 1e-9 for (n, p, _), s in zip(r["draws"], a["shots"]))
        return bool(ok and r["shots"] == [k for _, _, k in r["draws"]])

    def gen(d, nshots, mode, mode_given, rng_present, batched, cplx):
        def g(rng, m):
            import random
            r = rng or random.Random(repr(m)[:300])
            amps = m.get("state") if rng is None and isinstance(m.get("state"), list) and len(m["state"]) == d else None
            if amps is None:
                amps = [r.choice([0.0, 0.5, -0.5, r.uniform(-1, 1)]) for _ in range(d)]
                if r.random() < 0.15:
                    amps = [0.0] * d
            sh = None
            if nshots is not None:
                msh = m.get("shots") if rng is None and isinstance(m.get("shots"), dict) else None
                sh = [max(0, int(s)) for s in msh["entries"]] if msh else [r.choice([1, 7, 100, 1000]) for _ in range(nshots)]
            return {"state": [float(x) for x in amps], "is_state_batched": batched, "shots": sh, "rng": rng_present, "mode": mode, "mode_given": mode_given,
                    "complex": cplx, "flex": bool(r.random() < 0.3) if rng is not None else False}
        return g

    def ensures_for(nshots, mode):
        def ensures(o, r, nw):
            if isinstance(nw.state, list):
                return post_native(r, dict(nw.__dict__)) if hasattr(nw, "__dict__") else False
            if not (isinstance(r, tuple) and len(r) == 2 and isinstance(r[0], Vec)):
                return False
            st, sh = r
            P, root = cell["P"], cell["root"]
            xs = nw.state.items
            # the returned state is the normalised input (whenever the postselected outcome is possible at all)
            good_state = S.Implies(P > 0, And(not st.invalid, *[real_of(y) * root == real_of(x) for y, x in zip(st.items, xs)]))
            draws = cell["draws"]
            if nshots is None:
                return And(good_state, sh is nw.shots, len(draws) == 0)
            es = entries_of(nw.shots)
            if not (isinstance(sh, Rec) and sh.cls.name == "_FlexShots"):
                return False
            arg = sh.f["arg"]
            if isinstance(arg, Rec):
                got = entries_of(arg) if arg.cls.name == "Shots" else None
            else:
                got = list(arg.items) if isinstance(arg, PyList) else (list(arg) if isinstance(arg, tuple) else None)
            if got is None or len(got) != len(es):
                return False
            if mode == "fill-shots":
                return And(good_state, len(draws) == 0, *[as_int(g) == as_int(e) for g, e in zip(got, es)])
            if len(draws) != len(es):
                return False
            return And(good_state, *[And(s == as_int(e), q == P, as_int(g) == k) for (s, q, k), e, g in zip(draws, es, got)])
        return ensures

    def fill_zero(o):
        return cell["P"] == 0 if not isinstance(o.state, list) else sum(x * x for x in o.state) <= 1e-16

    cases = []
    dims = (2, 4)          # (8 components: the non-linear VCs are beyond the solver budget; not claimed)
    for d in dims:
        for nshots in (None, 1, 2, 3):
            for mode, mode_given in ((None, False), (None, True), ("hw-like", True), ("fill-shots", True)):
                for rng_present in (False, True):
                    if nshots == 3 and (d != dims[0] or not mode_given):
                        continue
                    if d > 2 and ((rng_present and nshots != 1) or not mode_given):
                        continue         # larger states: the rng / absent-keyword variants are covered with 2 components
                    params = {"state": state_t(d), "is_state_batched": T("const", False), "shots": shots_t(nshots), "rng": rng_t(rng_present),
                              "prng_key": NoneV}
                    km = {"rng": "rng", "prng_key": "prng_key"}
                    if mode_given:
                        params["mode"] = T("const", mode)
                        km["postselect_mode"] = "mode"
                    lab = (f"{d} real components, " + ("analytic" if nshots is None else f"shot vector of {nshots}") + ", postselect_mode "
                           + (repr(mode) if mode_given else "absent") + (", rng given" if rng_present else ", rng None"))
                    raises = {}
                    kwargs = dict(must_return=None)
                    if mode == "fill-shots" and nshots is not None:
                        raises = {"RuntimeError": fill_zero}
                        kwargs["must_return"] = lambda o: S.Not(fill_zero(o))
                    c = Case(lab, params, ghost=ghost, ensures=ensures_for(nshots, mode), raises=raises, kwargs_map=km, native_call=native_call,
                             native_gen=gen(d, nshots, mode, mode_given, rng_present, False, d >= 4), native_raw=True, size_bounded=True, **kwargs)
                    cases.append(c)
    # broadcasting is refused
    cases.append(Case("batched state is refused", {"state": state_t(2), "is_state_batched": T("const", True), "shots": shots_t(1), "rng": NoneV, "prng_key": NoneV},
                      ghost=ghost, ensures=lambda o, r, nw: False, raises={"ValueError": lambda o: True}, kwargs_map={"rng": "rng", "prng_key": "prng_key"},
                      native_call=native_call, native_gen=gen(2, 1, None, False, False, True, False), native_raw=True, size_bounded=True))
    fc = FnContract(w, "_postselection_postprocess", cases)
    plan.fn_under_contract(SIMF, "_postselection_postprocess")
    for ob in obligations_for(PID, fc, tier):
        plan.add(ob)
    plan.size_bounds.append(f"_postselection_postprocess: states of {dims} real components, shot vectors of 0..3 entries (symbolic shot counts >= 0), "
                            "postselect_mode absent / None / 'hw-like' / 'fill-shots', rng given / None; amplitudes symbolic reals")
    plan.assumed_contracts += ["qp.math.norm(state) is the non-negative n with n^2 = sum of squared components; state / n divides every component; "
                               "qp.math.allclose(n, 0.0) iff n == 0 (tolerance dropped: A-float-as-real)",
                               "binomial(s, q) returns an integer in [0, s] (the contract states WHICH (s, q) are drawn, once per shot-vector entry, in order; "
                               "that numpy's generator samples Binomial(s, q) is assumed)",
                               "_FlexShots(list of ints) is the shot vector with those per-entry counts (stub; the real class is used in the native replay)",
                               "float(x) / int(x) of a real / integer value are the identity"]
    plan.assumptions.append("A-float-as-real: floating-point amplitudes and probabilities are real numbers")


# ============================================================================================== defer_measurements (E2: exact symbolic parameters)
DMF = "pennylane/transforms/defer_measurements.py"

# A dynamic circuit is DESCRIBED independently of PennyLane objects:
#   ("g", gate name, [parameter names], [wires])                     a gate
#   ("m", measurement id, wire, reset, postselect)                   a mid-circuit measurement
#   ("c", predicate name, [measurement ids], gate name, [parameter names], [wires])   a classically controlled gate
# plus the terminal part: the wires whose reduced density matrix is observed and measurement-value statistics ("mv", predicate/arith name, ids).
DM_PRED = {      # outcome tuple -> value (python, the specification side)
    "m": lambda s: s[0], "not": lambda s: 1 - s[0], "and": lambda s: s[0] & s[1], "or": lambda s: s[0] | s[1], "sum1": lambda s: int(s[0] + s[1] == 1),
    "eq": lambda s: int(s[0] == s[1]), "m+2m": lambda s: s[0] + 2 * s[1], "sum2": lambda s: int(s[0] + s[1] + s[2] == 2),
}


def dm_mv(name, ms):
    """the same value written with PennyLane's measurement-value arithmetic"""
    if name == "m":
        return ms[0]
    if name == "not":
        return ~ms[0]
    if name == "and":
        return ms[0] & ms[1]
    if name == "or":
        return ms[0] | ms[1]
    if name == "sum1":
        return ms[0] + ms[1] == 1
    if name == "eq":
        return ms[0] == ms[1]
    if name == "m+2m":
        return ms[0] + 2 * ms[1]
    if name == "sum2":
        return ms[0] + ms[1] + ms[2] == 2
    raise KeyError(name)


def dm_build_tape(desc, terminal, P):
    """the real tape of a described circuit; P: parameter name -> value (Sym or float)"""
    import pennylane as qp
    ops, mvs = [], {}
    for item in desc:
        if item[0] == "g":
            _, nm, ps, ws = item
            ops.append(getattr(qp, nm)(*[P[p] for p in ps], wires=ws))
        elif item[0] == "m":
            _, mid, wire, reset, post = item
            mv = qp.measure(wire, reset=reset, postselect=post)
            mvs[mid] = mv
            ops.append(mv.measurements[0])
        else:
            _, pred, ids, nm, ps, ws = item
            ops.append(qp.ops.Conditional(dm_mv(pred, [mvs[i] for i in ids]), getattr(qp, nm)(*[P[p] for p in ps], wires=ws)))
    ms = [qp.probs(wires=list(terminal["wires"]))] if terminal["wires"] else []
    for (pred, ids) in terminal.get("mv", ()):
        ms.append(qp.expval(dm_mv(pred, [mvs[i] for i in ids])))
    return qp.tape.QuantumScript(ops, ms)


class _Num:
    """scalar adapter: exact Poly entries or complex floats"""

    def __init__(self, exact):
        self.exact = exact

    def zero(self):
        from vf.symx.ring import Poly
        return Poly() if self.exact else 0j

    def one(self):
        from vf.symx.ring import Poly
        return Poly.const(1) if self.exact else 1 + 0j

    def const(self, k):
        from vf.symx.ring import Poly
        return Poly.const(k) if self.exact else complex(k)

    def is_zero(self, x):
        return x.is_zero() if self.exact else x == 0

    def conj(self, x):
        return x.conj() if self.exact else complex(x).conjugate()

    def matrix(self, m):
        import numpy as np
        from vf.symx.scalar import poly_matrix
        return poly_matrix(m) if self.exact else np.asarray(m).astype(complex)


def dm_apply(num, state, M, axes):
    """apply the 2^k x 2^k matrix M to the tensor `state` (one axis per wire) on `axes` (first = most significant)"""
    import numpy as np
    n, k = state.ndim, len(axes)
    other = [a for a in range(n) if a not in axes]
    new = np.empty(state.shape, dtype=object)
    sub = list(itertools.product((0, 1), repeat=k))
    for rest in itertools.product((0, 1), repeat=len(other)):
        idx = [0] * n
        for a, b in zip(other, rest):
            idx[a] = b
        vec = []
        for bits in sub:
            for a, b in zip(axes, bits):
                idx[a] = b
            vec.append(state[tuple(idx)])
        live = [j for j, v in enumerate(vec) if not num.is_zero(v)]
        for r, bits in enumerate(sub):
            acc = num.zero()
            for j in live:
                if not num.is_zero(M[r, j]):
                    acc = acc + M[r, j] * vec[j]
            for a, b in zip(axes, bits):
                idx[a] = b
            new[tuple(idx)] = acc
    return new


def dm_zero_state(num, n):
    import numpy as np
    st = np.empty((2,) * n, dtype=object)
    for idx in itertools.product((0, 1), repeat=n):
        st[idx] = num.zero()
    st[(0,) * n] = num.one()
    return st


def dm_reduced(num, states, keep):
    """sum over the given pure (unnormalised) states of their reduced density matrices on the axes `keep`"""
    import numpy as np
    d = 2 ** len(keep)
    rho = np.empty((d, d), dtype=object)
    for i in range(d):
        for j in range(d):
            rho[i, j] = num.zero()
    kb = list(itertools.product((0, 1), repeat=len(keep)))
    for st in states:
        n = st.ndim
        other = [a for a in range(n) if a not in keep]
        for rest in itertools.product((0, 1), repeat=len(other)):
            idx = [0] * n
            for a, b in zip(other, rest):
                idx[a] = b
            col = []
            for bits in kb:
                for a, b in zip(keep, bits):
                    idx[a] = b
                col.append(st[tuple(idx)])
            live = [i for i, v in enumerate(col) if not num.is_zero(v)]
            for i in live:
                for j in live:
                    rho[i, j] = rho[i, j] + col[i] * num.conj(col[j])
    return rho


def dm_norm2(num, st):
    acc = num.zero()
    for x in st.flat:
        if not num.is_zero(x):
            acc = acc + x * num.conj(x)
    return acc


def dm_reference(desc, terminal, P, exact=True):
    """SPECIFICATION: branch enumeration.  A mid-circuit measurement splits every branch into its outcomes (only the postselected one survives), the
    branch state is projected (not renormalised: its squared norm is the branch weight), reset flips an outcome-1 wire back to |0>, a classically
    controlled gate is applied in the branches whose outcomes satisfy its predicate.  Result: the sum over branches of the reduced density matrices on the
    observed wires, then for each measurement-value statistic the weight-averaged value.  Gates come from refs/gates.py (documented matrices)."""
    from refs import gates as G
    import numpy as np
    num = _Num(exact)
    wires = sorted({w for it in desc for w in (it[3] if it[0] == "g" else [it[2]] if it[0] == "m" else it[5])} | set(terminal["wires"]))
    ax = {w: i for i, w in enumerate(wires)}
    n = len(wires)

    def gate(nm, ps):
        npar, _, builder = G.REF[nm]
        if exact:
            return num.matrix(builder(*[P[p] for p in ps]))
        from vf.symx.scalar import sym, pm_eval, poly_matrix
        return pm_eval(poly_matrix(builder(*[sym(p) for p in ps])), {p: P[p] for p in ps})
    PROJ = {v: num.matrix(np.array([[1 - v, 0], [0, v]])) for v in (0, 1)}
    XM = num.matrix(np.array([[0, 1], [1, 0]]))
    branches = [(dm_zero_state(num, n), {})]
    for it in desc:
        if it[0] == "g":
            M = gate(it[1], it[2])
            branches = [(dm_apply(num, st, M, [ax[w] for w in it[3]]), sg) for st, sg in branches]
        elif it[0] == "m":
            _, mid, wire, reset, post = it
            nxt = []
            for st, sg in branches:
                for v in ((0, 1) if post is None else (post,)):
                    s2 = dm_apply(num, st, PROJ[v], [ax[wire]])
                    if reset and v == 1:
                        s2 = dm_apply(num, s2, XM, [ax[wire]])
                    nxt.append((s2, {**sg, mid: v}))
            branches = nxt
        else:
            _, pred, ids, nm, ps, ws = it
            M = gate(nm, ps)
            branches = [((dm_apply(num, st, M, [ax[w] for w in ws]) if DM_PRED[pred](tuple(sg[i] for i in ids)) else st), sg) for st, sg in branches]
    out = list(dm_reduced(num, [st for st, _ in branches], [ax[w] for w in terminal["wires"]]).reshape(-1)) if terminal["wires"] else []
    for pred, ids in terminal.get("mv", ()):
        acc = num.zero()
        for st, sg in branches:
            val = DM_PRED[pred](tuple(sg[i] for i in ids))
            if val:
                acc = acc + dm_norm2(num, st) * num.const(int(val))
        out.append(acc)
    res = np.empty(len(out), dtype=object)
    for i, x in enumerate(out):
        res[i] = x
    return res


def dm_deferred(desc, terminal, P, exact=True, **kw):
    """the REAL defer_measurements on the real tape; the circuit it returns (no mid-circuit measurement left) is evaluated gate by gate with the
    operators' own matrices: reduced density matrix on the observed wires of the final (unnormalised) state, and the measurement-value statistics read
    off the wires the transform mapped them to"""
    import numpy as np
    import pennylane as qp
    num = _Num(exact)
    tape = dm_build_tape(desc, terminal, P)
    batch, fn = qp.defer_measurements(tape, **kw)
    if len(batch) != 1:
        raise ValueError(f"defer_measurements returned {len(batch)} tapes")
    new = batch[0]
    if any(type(op).__name__ in ("MidMeasure", "Conditional") for op in new.operations):
        raise ValueError("mid-circuit measurement / conditional left in the deferred tape")
    wires = list(new.wires)
    for w in terminal["wires"]:
        if w not in wires:
            wires.append(w)
    ax = {w: i for i, w in enumerate(wires)}
    st = dm_zero_state(num, len(wires))
    for op in new.operations:
        st = dm_apply(num, st, num.matrix(qp.matrix(op)), [ax[w] for w in op.wires])
    out = []
    nmv = 0
    for mp in new.measurements:
        if mp.mv is None:
            if type(mp).__name__ != "ProbabilityMP" or list(mp.wires) != list(terminal["wires"]):
                raise ValueError(f"terminal measurement changed: {mp}")
            out += list(dm_reduced(num, [st], [ax[w] for w in mp.wires]).reshape(-1))
        else:
            nmv += 1
            mws = [m.wires[0] for m in mp.mv.measurements]
            rho = dm_reduced(num, [st], [ax[w] for w in mws])
            acc = num.zero()
            for i, bits in enumerate(itertools.product((0, 1), repeat=len(mws))):
                val = mp.mv.processing_fn(*bits) if mp.mv.has_processing else bits[0]
                if val:
                    acc = acc + rho[i, i] * num.const(int(val))
            out.append(acc)
    if nmv != len(terminal.get("mv", ())) or len(new.measurements) != nmv + (1 if terminal["wires"] else 0):
        raise ValueError("number of terminal measurements changed")
    res = np.empty(len(out), dtype=object)
    for i, x in enumerate(out):
        res[i] = x
    return res


def dm_circuits(tier):
    """enumerated circuit shapes (gate parameters a, b, c stay symbolic): label -> (description, terminal, transform kwargs)"""
    out = {}
    RP = [(r, p) for r in (False, True) for p in (None, 0, 1)]

    def rp(r, p):
        return ("reset" if r else "no reset") + ", " + ("no postselection" if p is None else f"postselect {p}")
    # ---- one measurement on an entangled pair; the measured wire is reused by a gate / only observed / not touched again
    for r, p in RP:
        for reuse in ("gate", "observed", "untouched"):
            for pred in ("m", "not"):
                if pred == "not" and reuse != "gate":
                    continue
                d = [("g", "RY", ["a"], [0]), ("g", "CNOT", [], [0, 1]), ("m", 0, 0, r, p)]
                if reuse == "gate":
                    d.append(("g", "RY", ["b"], [0]))
                d.append(("c", pred, [0], "RX", ["c"], [1]))
                term = {"wires": [1] if reuse == "untouched" else [0, 1], "mv": [("m", [0])] if reuse != "observed" else []}
                out[f"one measurement ({rp(r, p)}), measured wire {reuse} afterwards, gate applied if {pred}"] = (d, term, {})
    # ---- the measured wire is the TARGET of the conditional gate afterwards
    for r, p in RP:
        d = [("g", "RY", ["a"], [0]), ("m", 0, 0, r, p), ("c", "m", [0], "RY", ["b"], [0]), ("g", "RX", ["c"], [0])]
        out[f"one measurement ({rp(r, p)}), conditional gate on the measured wire itself"] = (d, {"wires": [0], "mv": [("m", [0])]}, {})
    # ---- postselection information not used for the controls (reduce_postselected=False)
    for r, p in ((False, 0), (True, 1), (False, 1), (True, 0)):
        d = [("g", "RY", ["a"], [0]), ("g", "CNOT", [], [0, 1]), ("m", 0, 0, r, p), ("g", "RY", ["b"], [0]), ("c", "m", [0], "RX", ["c"], [1])]
        out[f"one measurement ({rp(r, p)}), reduce_postselected=False"] = (d, {"wires": [0, 1], "mv": []}, {"reduce_postselected": False})
    # ---- two measurements: distinct wires / the same wire twice; conditions on both outcomes
    two = [((False, None), (False, None)), ((True, None), (True, None)), ((True, 1), (False, None)), ((False, None), (True, 1)), ((True, 1), (True, 1)),
           ((True, 0), (True, None)), ((False, 1), (True, 0)), ((True, None), (False, 1))]
    if tier != "quick":
        two = [(x, y) for x in RP for y in RP]
    for (r0, p0), (r1, p1) in two:
        for pred in ("and", "sum1"):
            d = [("g", "RY", ["a"], [0]), ("g", "RY", ["b"], [1]), ("g", "CNOT", [], [0, 2]), ("m", 0, 0, r0, p0), ("m", 1, 1, r1, p1),
                 ("c", pred, [0, 1], "RX", ["c"], [2]), ("g", "CNOT", [], [0, 1])]
            out[f"two measurements on two wires ({rp(r0, p0)}; {rp(r1, p1)}), gate applied if {pred}"] = (d, {"wires": [0, 1, 2], "mv": [("m+2m", [0, 1])]}, {})
        d = [("g", "RY", ["a"], [0]), ("g", "CNOT", [], [0, 1]), ("m", 0, 0, r0, p0), ("g", "RY", ["b"], [0]), ("m", 1, 0, r1, p1),
             ("c", "eq", [0, 1], "RX", ["c"], [1])]
        out[f"the same wire measured twice ({rp(r0, p0)}; {rp(r1, p1)}), gate applied if outcomes equal"] = (d, {"wires": [0, 1], "mv": [("m+2m", [0, 1])]}, {})
    return out


def add_defer_measurements(plan, tier, seed):
    """defer_measurements returns a circuit without mid-circuit measurements whose exact result is the branch-averaged result of the dynamic circuit
    (property: deferred measurement returns the exact branch-averaged result, with reset and postselection)"""
    from vf.symx.oblig import identity_obligation
    import pennylane  # noqa: F401  pylint: disable=unused-import   (imported once, before the obligation workers are forked)
    names = ["a", "b", "c"]
    circuits = dm_circuits(tier)
    for label, (desc, term, kw) in circuits.items():
        used = [n for n in names if any(n in (it[2] if it[0] == "g" else it[4] if it[0] == "c" else ()) for it in desc)]
        plan.add(identity_obligation(
            f"{PID}/defer_measurements:defer_measurements/{label}", "post", used,
            traced=lambda S, desc=desc, term=term, kw=kw: dm_deferred(desc, term, S, True, **kw),
            reference=lambda S, desc=desc, term=term: dm_reference(desc, term, S, True),
            native=lambda env, desc=desc, term=term, kw=kw: dm_deferred(desc, term, env, False, **kw).astype(complex),
            seed=seed, func=(DMF, "defer_measurements"), size_bounded=True,
            sample="reduced density matrix on the observed wires + measurement-value statistics of the deferred circuit == branch enumeration, "
                   "for all real gate parameters"))
    for q in ("defer_measurements", "_collect_mid_measure_info", "_add_control_gate"):
        plan.fn_under_contract(DMF, q)
    plan.size_bounds.append(f"defer_measurements: {len(circuits)} circuit shapes on 2-3 wires (1 measurement: every reset / postselect combination x measured "
                            "wire reused by a gate / only observed / untouched / target of the conditional; 2 measurements on two wires or twice on one wire for "
                            "selected reset / postselect combinations, conditions m, ~m, m0 & m1, m0 + m1 == 1, m0 == m1, statistic m0 + 2*m1); rotation angles symbolic")
    plan.trusted_base += ["vf/symx (exact Laurent-polynomial arithmetic); refs/gates.py (documented gate matrices) for the branch-enumerating reference",
                          "qp.matrix of the operators the deferred circuit consists of (RX, RY, CNOT, PauliX, Projector, Controlled with control values): "
                          "executed on exact scalars, their own contracts are C02 / C08"]
    plan.assumptions.append("defer_measurements: the deferred circuit is evaluated as the product of its operators' matrices (the device's execution of that "
                            "static circuit, including the normalisation after a Projector, is not part of this contract)")
