"""C25 Noise insertion and error mitigation follow their definitions -- the folding half: noise/mitigate.py fold_global, _divmod.

The real body of fold_global is executed symbolically on an operation list of SYMBOLIC length over abstract letters (an uninterpreted
sort; adjoint(.) an uninterpreted function on letters) and a REAL scale factor lambda >= 1.  Postcondition, from the property statement:
  * folds = floor((lambda-1)/2), k = round_half_even(frac * n / 2) with frac = (lambda-1) - 2*folds, 0 <= k <= n;
  * the new operation list is  U ++ (rev(U+) ++ U)^folds ++ (rev(U+[n-k:]) ++ U[n-k:] if k else [])   (U+ = the letterwise adjoints);
  * gate count  len == n*(1 + 2*folds) + 2k  and  |len - lambda*n| <= 1   ("gate count matching the scale factor");
  * same unitary: in EVERY group in which the image of adjoint(x) is the inverse of the image of x, the product of the new list equals
    the product of U  (equivalently: the word reduces to U in the free group over the letters).
rev, repetition, letterwise adjoint and the group product are recursively defined spec functions; the laws used about them are proved
as explicit induction lemmas (base + step obligations each).
"""
import math as pymath
from fractions import Fraction

import z3

from vf.common import Plan, Obligation, Outcome, DISCHARGED, REFUTED, FAULT
from vf.pyvc.engine import (World, T, Int, Float, Label, LabelSort, SeqT, Rec, SeqV, PyList, FloatV, Unsupp, to_int_term, real_of, s_at)
from vf.pyvc.contract import FnContract, Case, LoopSpec, obligations_for
from vf.pyvc.contract import lemma as _lemma
from vf.pyvc.interp import Interp
from vf.pyvc import spec as S
from vf.pyvc.spec import And

MIT = "pennylane/noise/mitigate.py"
LEMMA_HYPS = []


def lemma(pid, name, vars_, goal, *, assumptions=(), **kw):
    """contract.lemma, remembering the hypotheses (their joint satisfiability is checked by an obligation of its own: a lemma
    proved from contradictory hypotheses would be vacuous)"""
    LEMMA_HYPS.append((name, list(assumptions)))
    return _lemma(pid, name, vars_, goal, assumptions=assumptions, **kw)

SL = z3.SeqSort(LabelSort)
EMPTY = z3.Empty(SL)
G = z3.DeclareSort("GroupElem")

REV = z3.Function("rev", SL, SL)                        # reversed list
REP = z3.Function("rep", SL, z3.IntSort(), SL)          # python list * int
MA = z3.Function("adjoints", SL, SL)                    # [adjoint(x) for x in s]
ADJ = z3.Function("adjoint", LabelSort, LabelSort)
EV = z3.Function("product", SL, G)                      # product of the images of the letters, in list order
MUL = z3.Function("mul", G, G, G)
E = z3.Const("unit", G)
IMG = z3.Function("image", LabelSort, G)


def snoc(s, x):
    return z3.Concat(s, z3.Unit(x))


# ---- defining equations (instances) ------------------------------------------------------------------------------------------
def rev_def(s, x):
    return [REV(EMPTY) == EMPTY, REV(snoc(s, x)) == z3.Concat(z3.Unit(x), REV(s))]


def ma_def(s, x):
    return [MA(EMPTY) == EMPTY, MA(snoc(s, x)) == snoc(MA(s), ADJ(x))]


def rep_def(w, m):
    return [z3.Implies(m <= 0, REP(w, m) == EMPTY), z3.Implies(m > 0, REP(w, m) == z3.Concat(REP(w, m - 1), w))]


def ev_def(s, x):
    return [EV(EMPTY) == E, EV(snoc(s, x)) == MUL(EV(s), IMG(x))]


def group_axioms():
    a, b, c = z3.Consts("ga gb gc", G)
    x = z3.Const("gx", LabelSort)
    return [z3.ForAll([a, b, c], MUL(MUL(a, b), c) == MUL(a, MUL(b, c))), z3.ForAll([a], MUL(E, a) == a), z3.ForAll([a], MUL(a, E) == a),
            # assumed contract (C03): adjoint(op) is the inverse of op
            z3.ForAll([x], z3.And(MUL(IMG(ADJ(x)), IMG(x)) == E, MUL(IMG(x), IMG(ADJ(x))) == E))]


# ---- the laws (instances of lemmas proved below by explicit induction) ----------------------------------------------------------
def len_rev(s):
    return z3.Length(REV(s)) == z3.Length(s)


def len_ma(s):
    return z3.Length(MA(s)) == z3.Length(s)


def len_rep(w, m):
    return z3.Implies(m >= 0, z3.Length(REP(w, m)) == m * z3.Length(w))


def ma_concat(a, b):
    return MA(z3.Concat(a, b)) == z3.Concat(MA(a), MA(b))


def ev_concat(a, b):
    return EV(z3.Concat(a, b)) == MUL(EV(a), EV(b))


def inv_word(s):
    """rev(adjoints(s)) ++ s is trivial"""
    return EV(z3.Concat(REV(MA(s)), s)) == E


def ev_rep(w, m):
    return z3.Implies(z3.And(EV(w) == E, m >= 0), EV(REP(w, m)) == E)


def snoc_slice(s, k):
    return z3.Implies(z3.And(k >= 0, k < z3.Length(s)), z3.Extract(s, 0, k + 1) == snoc(z3.Extract(s, 0, k), s[k]))


def split_at(s, k):
    return z3.Implies(z3.And(k >= 0, k <= z3.Length(s)), s == z3.Concat(z3.Extract(s, 0, k), z3.Extract(s, k, z3.Length(s) - k)))


def rev_slice_term(term, hi):
    """python  s[:hi:-1]  (hi None:  s[::-1]) -- slice.indices semantics for step -1 and default start"""
    n = z3.Length(term)
    if hi is None:
        return REV(term)                                   # the whole list, reversed
    h = to_int_term(hi)
    stop = z3.If(h < 0, z3.If(h + n < -1, z3.IntVal(-1), h + n), z3.If(h > n - 1, n - 1, h))
    return REV(z3.Extract(term, stop + 1, n - 1 - stop))


def rev_slice_term_general(term, lo, hi):
    """python  s[lo:hi:-1]  for ANY lo / hi (None or integer terms) -- slice.indices semantics for step -1:
    start = n-1 (None) | clamp(lo + n if lo < 0 else lo, -1, n-1);  stop = -1 (None) | clamp(hi + n if hi < 0 else hi, -1, n-1);
    the elements start, start-1, ..., stop+1 (none when start <= stop)"""
    n = z3.Length(term)

    def clamp(v, default):
        if v is None:
            return default
        t = to_int_term(v)
        return z3.If(t < 0, z3.If(t + n < 0, z3.IntVal(-1), t + n), z3.If(t > n - 1, n - 1, t))
    start, stop = clamp(lo, n - 1), clamp(hi, z3.IntVal(-1))
    return REV(z3.Extract(term, stop + 1, z3.If(start - stop > 0, start - stop, z3.IntVal(0))))


def last_k_reversed(s, k):
    """for 1 <= k <= len(s):  s[:-k-1:-1]  is the reverse of the last k elements"""
    n = z3.Length(s)
    return z3.Implies(z3.And(k >= 1, k <= n), rev_slice_term(s, -k - 1) == REV(z3.Extract(s, n - k, k)))


def last_k(s, k):
    """for 1 <= k <= len(s):  s[-k:]  (the interpreter's term for it) is extract(s, len - k, k)"""
    n = z3.Length(s)
    code = Interp.slice(None, SeqV(s, Label), -k, None, None).term
    return z3.Implies(z3.And(k >= 1, k <= n), code == z3.Extract(s, n - k, k))


class FoldInterp(Interp):
    """additive value semantics needed by fold_global: reversed slices and repetition of symbolic-length lists as spec-function terms"""

    def slice(self, obj, lo, hi, st):
        if isinstance(obj, SeqV) and isinstance(st, int) and st == -1 and lo is None and obj.term.sort() == SL:
            return SeqV(rev_slice_term(obj.term, hi), obj.elem, obj.is_tuple)
        if isinstance(obj, SeqV) and isinstance(st, int) and st == -1 and obj.term.sort() == SL and not isinstance(lo, (SeqV, PyList, tuple)) \
                and not isinstance(hi, (SeqV, PyList, tuple)):
            return SeqV(rev_slice_term_general(obj.term, lo, hi), obj.elem, obj.is_tuple)          # explicit start index
        return super().slice(obj, lo, hi, st)

    def sym_map(self, it, i, val):
        """[adjoint(x) for x in s] over a symbolic-length list of letters IS adjoints(s): the comprehension of a pure letterwise function
        is the recursively defined map (its defining equations are the comprehension's append semantics)"""
        if isinstance(val, z3.ExprRef) and isinstance(it, SeqV) and it.term.sort() == SL:
            try:
                if z3.is_true(z3.simplify(val == ADJ(s_at(it.term, i)))):
                    return SeqV(MA(it.term), Label, False)
            except z3.Z3Exception:
                pass
        return super().sym_map(it, i, val)

    def seq_binop(self, op, a, b):
        import ast
        if isinstance(op, ast.Mult):
            seq, k = (a, b) if isinstance(a, SeqV) else (b, a)
            if isinstance(seq, SeqV) and seq.term.sort() == SL and not isinstance(k, (SeqV, PyList, tuple)):
                return SeqV(REP(seq.term, to_int_term(k)), seq.elem, seq.is_tuple)
        return super().seq_binop(op, a, b)


def build(tier, seed):
    del LEMMA_HYPS[:]
    plan = Plan("C25", level="proof")
    plan.explanation = (
        "fold_global's real body is executed symbolically for an operation list of symbolic length over abstract letters and a real scale "
        "factor; floor / round-half-even / int are modelled exactly as the code applies them, over the reals; reversed slices, list "
        "repetition and the adjoint comprehension become terms of recursively defined spec functions (python slice.indices semantics, "
        "cross-checked against CPython on every run). Program obligation: the returned tape's operations are EXACTLY "
        "U ++ (rev(U+) ++ U)^folds ++ (rev(U+[n-k:]) ++ U[n-k:] if k) with folds / k the program-text counts. Lemma obligations (no program "
        "involved): those counts are floor((lambda-1)/2) and round_half_even(frac*n/2) with 0 <= k <= n; the shape has n*(1+2*folds)+2k "
        "operations, which is within 1 of lambda*n; the shape has the same product as U in every group where adjoint(x) maps to the "
        "inverse of x. The laws about the spec functions are base + step lemma pairs; channels are rejected (ValueError).")
    plan.trusted_base = ["vf/pyvc encoder (Python subset semantics)", "z3 sequences, linear/nonlinear arithmetic, EUF with quantified group axioms",
                         "induction principle over naturals / finite sequences (meta-level) for the lemma pairs base + step",
                         "the defining equations of rev / rep / adjoints / product in this file"]
    plan.assumptions = ["A-float-as-real: the scale factor and the quantities derived from it are real numbers (binary64 rounding of (lambda-1)/2 and "
                        "frac*n/2 is not modelled)",
                        "A-letters: operations are opaque letters; adjoint is a function on letters",
                        "pennylane.math.floor / round on a python or numpy float are floor and round-half-to-even (numpy semantics)"]
    plan.assumed_contracts = ["adjoint(op) is the inverse of op (C03): image(adjoint(x)) * image(x) == image(x) * image(adjoint(x)) == 1 in the group "
                              "of unitaries -- used only for the same-unitary conclusion",
                              "QuantumScript.copy(ops=...) returns a tape with exactly these operations; tape.operations is a python list"]
    plan.dropped = ["docstrings, annotations, the @transform decoration (the function is applied to a single tape)"]

    STUBS = ("class Tape:\n    def copy(self, ops=None):\n        return Tape(ops)\n\n\nclass Channel:\n    pass\n")

    def m_floor(it, args, kw):
        x = real_of(args[0])
        if z3.is_rational_value(z3.simplify(x)):                      # a concrete argument: a concrete result
            q = z3.simplify(x)
            k = q.numerator_as_long() // q.denominator_as_long()
            return FloatV(z3.RealVal(k), k)
        k = z3.ToInt(x)
        return FloatV(z3.ToReal(k), k)

    def m_round(it, args, kw):
        r = it.b_round([args[0]], {}, None)
        if isinstance(r, z3.ExprRef) and z3.is_int_value(z3.simplify(r)):
            r = z3.simplify(r).as_long()
        return r if isinstance(r, int) else FloatV(z3.ToReal(r), r)

    def m_adjoint(it, args, kw):
        x = args[0]
        if isinstance(x, z3.ExprRef) and x.sort() == LabelSort:
            return ADJ(x)
        return z3.Const(it.ctx.fresh_name("adjoint_of_nonletter"), LabelSort)      # e.g. of a channel: some operator

    w = World(MIT, functions=["_divmod"], stubs={"Tape": (STUBS, {"operations": SeqT(Label)}), "Channel": (STUBS, {})},
              extra_builtins={"math.floor": m_floor, "math.round": m_round, "adjoint": m_adjoint})

    # ---- bounded cross-check of the slice model against CPython -------------------------------------------------------------------
    def slice_selfcheck():
        bad = []
        for n in range(0, 6):
            lst = list(range(n))
            for hi in [None] + list(range(-8, 8)):
                want = lst[:hi:-1] if hi is not None else lst[::-1]
                s = z3.Solver()
                s.set("timeout", 5000)
                s.set("rlimit", 200000000)
                t = z3.Const("t", SL)
                labs = [z3.Const(f"l{i}", LabelSort) for i in range(n)]
                s.add(t == (z3.Concat(*[z3.Unit(x) for x in labs]) if n > 1 else (z3.Unit(labs[0]) if n == 1 else EMPTY)))
                term = rev_slice_term(t, hi)
                inner = term.arg(0)             # the (sub)list whose reverse is taken
                exp_inner = [labs[i] for i in reversed(want)]
                e = z3.Concat(*[z3.Unit(x) for x in exp_inner]) if len(exp_inner) > 1 else (z3.Unit(exp_inner[0]) if exp_inner else EMPTY)
                s.add(inner != e)
                if s.check() != z3.unsat:
                    bad.append((n, hi))
        if bad:
            return Outcome(FAULT, "z3", f"reversed-slice model disagrees with CPython on (len, stop) = {bad[:5]}")
        return Outcome(DISCHARGED, "z3", "s[:stop:-1] / s[::-1] model agrees with CPython for len 0..5, stop in -8..7 and None")
    plan.add(Obligation("C25/encoder:reversed-slice-model-agrees-with-CPython", "lemma", slice_selfcheck, bounded=True, timeout=240,
                        sample="python slice.indices semantics of s[:stop:-1] on lists of length 0..5"))

    def slice_selfcheck_general():
        bad, cnt = [], 0
        t = z3.Const("t", SL)
        for n in range(0, 6):
            lst = list(range(n))
            labs = [z3.Const(f"l{i}", LabelSort) for i in range(n)]

            def lit(xs):
                return z3.Concat(*[z3.Unit(x) for x in xs]) if len(xs) > 1 else (z3.Unit(xs[0]) if xs else EMPTY)
            tv = lit(labs)
            for lo in [None] + list(range(-8, 8)):
                for hi in [None] + list(range(-8, 8)):
                    want = lst[lo:hi:-1]
                    inner = z3.substitute(rev_slice_term_general(t, lo, hi).arg(0), (t, tv))     # the (sub)list whose reverse is taken
                    cnt += 1
                    if z3.is_true(z3.simplify(inner == lit([labs[i] for i in reversed(want)]))):
                        continue
                    sv = z3.Solver()
                    sv.set("timeout", 5000)
                    sv.set("rlimit", 200000000)
                    sv.add(inner != lit([labs[i] for i in reversed(want)]))
                    if sv.check() != z3.unsat:
                        bad.append((n, lo, hi))
        if bad:
            return Outcome(FAULT, "z3", f"general reversed-slice model disagrees with CPython on (len, start, stop) = {bad[:5]}")
        return Outcome(DISCHARGED, "z3", f"s[start:stop:-1] model agrees with CPython on {cnt} (len, start, stop) combinations")
    plan.add(Obligation("C25/encoder:general-reversed-slice-model-agrees-with-CPython", "lemma", slice_selfcheck_general, bounded=True, timeout=300,
                        sample="python slice.indices semantics of s[start:stop:-1] on lists of length 0..5, start/stop in -8..7 and None"))

    # ---- lemmas: each law by base + step ----------------------------------------------------------------------------------------
    s_, a_, b_, w_ = z3.Consts("s a b w", SL)
    x_ = z3.Const("x", LabelSort)
    m_, k_ = z3.Ints("m k")
    GA = group_axioms()
    L = []
    L.append(lemma("C25", "len-rev/base", [], len_rev(EMPTY), assumptions=rev_def(s_, x_)))
    L.append(lemma("C25", "len-rev/step", [s_, x_], len_rev(snoc(s_, x_)), assumptions=rev_def(s_, x_) + [len_rev(s_)]))
    L.append(lemma("C25", "len-adjoints/base", [], len_ma(EMPTY), assumptions=ma_def(s_, x_)))
    L.append(lemma("C25", "len-adjoints/step", [s_, x_], len_ma(snoc(s_, x_)), assumptions=ma_def(s_, x_) + [len_ma(s_)]))
    L.append(lemma("C25", "len-rep/base", [w_], z3.Length(REP(w_, 0)) == 0, assumptions=rep_def(w_, z3.IntVal(0))))
    L.append(lemma("C25", "len-rep/step", [w_, m_], z3.Length(REP(w_, m_ + 1)) == (m_ + 1) * z3.Length(w_),
                   assumptions=rep_def(w_, m_ + 1) + [m_ >= 0, z3.Length(REP(w_, m_)) == m_ * z3.Length(w_)]))
    L.append(lemma("C25", "adjoints-concat/base", [a_], ma_concat(a_, EMPTY), assumptions=ma_def(s_, x_)))
    L.append(lemma("C25", "adjoints-concat/step", [a_, b_, x_], ma_concat(a_, snoc(b_, x_)),
                   assumptions=ma_def(z3.Concat(a_, b_), x_) + ma_def(b_, x_) + [ma_concat(a_, b_)]))
    L.append(lemma("C25", "product-concat/base", [a_], ev_concat(a_, EMPTY), assumptions=ev_def(s_, x_) + GA))
    L.append(lemma("C25", "product-concat/step", [a_, b_, x_], ev_concat(a_, snoc(b_, x_)),
                   assumptions=ev_def(z3.Concat(a_, b_), x_) + ev_def(b_, x_) + GA + [ev_concat(a_, b_)]))
    L.append(lemma("C25", "inverse-word/base", [], inv_word(EMPTY), assumptions=ev_def(s_, x_) + ma_def(s_, x_) + rev_def(s_, x_)))
    W0 = z3.Concat(REV(MA(s_)), s_)
    L.append(lemma("C25", "inverse-word/step", [s_, x_], inv_word(snoc(s_, x_)),
                   assumptions=ma_def(s_, x_) + rev_def(MA(s_), ADJ(x_)) + ev_def(z3.Concat(z3.Unit(ADJ(x_)), W0), x_) + ev_def(EMPTY, ADJ(x_)) + GA +
                   [inv_word(s_), ev_concat(z3.Unit(ADJ(x_)), W0)]))        # product-concat is used as a proved lemma (instance)
    L.append(lemma("C25", "product-rep/base", [w_], EV(REP(w_, 0)) == E, assumptions=rep_def(w_, z3.IntVal(0)) + ev_def(s_, x_)))
    L.append(lemma("C25", "product-rep/step", [w_, m_], EV(REP(w_, m_ + 1)) == E,
                   assumptions=rep_def(w_, m_ + 1) + GA + [m_ >= 0, EV(w_) == E, EV(REP(w_, m_)) == E, ev_concat(REP(w_, m_), w_)]))
    L.append(lemma("C25", "seq/snoc-slice", [s_, k_], snoc_slice(s_, k_)))
    L.append(lemma("C25", "seq/split-at", [s_, k_], split_at(s_, k_)))
    L.append(lemma("C25", "slice/last-k-reversed", [s_, k_], last_k_reversed(s_, k_)))
    L.append(lemma("C25", "slice/last-k", [s_, k_], last_k(s_, k_)))
    for ob in L:
        plan.add(ob)

    # ---- fold_global ---------------------------------------------------------------------------------------------------------------
    def spec_counts(lam, n):
        """(folds, frac, y, k) of the specification; n an int term, lam a real term"""
        folds = z3.ToInt((lam - 1) / 2)                                       # floor
        frac = (lam - 1) - 2 * z3.ToReal(folds)
        y = frac * z3.ToReal(n) / 2
        up = z3.ToInt(y + z3.RealVal("1/2"))                                  # round half up ...
        k = z3.If(z3.And(z3.IsInt(y + z3.RealVal("1/2")), up % 2 == 1), up - 1, up)    # ... corrected to the even neighbour on ties
        return folds, frac, y, k

    def shape(U, A, n, folds, k):
        tail = z3.If(k != 0, z3.Concat(REV(z3.Extract(A, n - k, k)), z3.Extract(U, n - k, k)), EMPTY)
        return z3.Concat(U, REP(z3.Concat(REV(A), U), folds), tail)

    def ops_of_result(r):
        if not (isinstance(r, tuple) and len(r) == 2 and isinstance(r[0], PyList) and len(r[0].items) == 1 and isinstance(r[0].items[0], Rec)):
            return None
        v = r[0].items[0].f.get("operations")
        return v.term if isinstance(v, SeqV) else None

    def native_counts(lam, n):
        F = Fraction(lam)
        folds = pymath.floor((F - 1) / 2)
        frac = F - 1 - 2 * folds
        return folds, round(frac * n / 2), F           # round(Fraction) is round-half-even

    HALF = z3.RealVal("1/2")

    def code_round(y):
        """the term the engine builds for round(y) (python / numpy round-half-even), rebuilt on an arbitrary real term"""
        return Interp.b_round(None, [FloatV(y)], {}, None)

    def spec_round(y):
        up = z3.ToInt(y + HALF)
        return z3.If(z3.And(z3.IsInt(y + HALF), up % 2 == 1), up - 1, up)

    # arithmetic lemmas (over fresh variables; instantiated in the function's verification conditions)
    yv, av, bv = z3.Reals("y a b")
    nv = z3.Int("n")

    def round_law(y):
        return z3.And(code_round(y) == spec_round(y), y - z3.ToReal(spec_round(y)) <= HALF, z3.ToReal(spec_round(y)) - y <= HALF)

    def round_range(y, n):
        return z3.And(z3.Implies(y >= 0, spec_round(y) >= 0), z3.Implies(y <= z3.ToReal(n), spec_round(y) <= n))

    def expand_scale(l, F, N):
        """lambda * n written over the monomials the fold counts use (a polynomial identity)"""
        return l * N == N + 2 * F * N + (l - z3.RealVal(1) - F * z3.RealVal(2)) * N

    def fold_counts(lam, n):
        """the fold counts written out as the program text computes them -- floor of (lambda-1)/2, the remainder, round-half-even of
        remainder*n/2 -- term for term as the interpreter builds them, so that the shape / product goals are pure congruence; that
        these ARE floor / remainder / round-half-even (independent formulation spec_counts) is the fold-counts obligation"""
        a = lam - z3.RealVal(1)
        folds = z3.ToInt(a / z3.RealVal(2))
        frac = a - z3.ToReal(folds) * z3.RealVal(2)
        y = (frac * z3.ToReal(n)) / z3.RealVal(2)
        return folds, frac, y, code_round(y)

    def gate_count_law(lam, n):
        """pure arithmetic: the exact count n*(1 + 2*folds) + 2k is within 1 of lambda*n"""
        folds, frac, y, k = fold_counts(lam, n)
        d = z3.ToReal(n * (1 + 2 * folds) + 2 * k) - lam * z3.ToReal(n)
        return z3.Implies(z3.And(lam >= 1, n >= 0), z3.And(d <= 1, d >= -1))

    def mult_bound(a, b):
        return z3.Implies(z3.And(a >= 0, a < 2, b >= 0), z3.And(a * b / 2 >= 0, a * b / 2 <= b))
    for nm_, goal_, vs_ in (("arith/round-half-even-model-equals-spec", round_law(yv), [yv]), ("arith/round-range", round_range(yv, nv), [yv, nv]),
                            ("arith/scaled-fraction-bound", mult_bound(av, bv), [av, bv]),
                            ("arith/scale-factor-expansion", expand_scale(yv, av, bv), [yv, av, bv]),
                            ("arith/gate-count-within-one-of-scale-factor-times-n", gate_count_law(yv, nv), [yv, nv])):
        plan.add(lemma("C25", nm_, vs_, goal_))

    def sym_parts(o, r):
        U = o.tape.f["operations"].term
        n = z3.Length(U)
        lam = o.scale_factor.t
        folds, frac, y, k = fold_counts(lam, n)
        return U, n, lam, folds, frac, y, k, ops_of_result(r)

    def native_parts(o, r, nw):
        U = list(nw.tape.operations)            # the tape object the function was called with (operations are compared by identity)
        n = len(U)
        folds, k, F = native_counts(o.scale_factor, n)
        batch, _fn = r
        return U, n, folds, k, F, (list(batch[0].operations) if len(batch) == 1 else None)

    def ens_counts_shape(o, r, nw, part):
        if isinstance(o.tape, Rec):
            U, n, lam, folds, frac, y, k, ops = sym_parts(o, r)
            if ops is None:
                return False
            return ops == shape(U, MA(U), n, folds, k)
        U, n, folds, k, F, ops = native_parts(o, r, nw)
        if ops is None:
            return False

        def sig(op):
            for j, u in enumerate(U):
                if op is u:
                    return ("b", j)
                if getattr(op, "base", None) is u:
                    return ("a", j)
            return ("?", repr(op))
        exp = [("b", j) for j in range(n)] + ([("a", j) for j in reversed(range(n))] + [("b", j) for j in range(n)]) * folds
        if k:
            exp += [("a", j) for j in reversed(range(n - k, n))] + [("b", j) for j in range(n - k, n)]
        import numpy as np
        import pennylane as qp
        same_u = True
        if n and len(ops) <= 80:
            same_u = bool(np.allclose(qp.matrix(qp.tape.QuantumScript(ops), wire_order=[0, 1]), qp.matrix(nw.tape, wire_order=[0, 1])))
        return (folds >= 0 and 0 <= k <= n and [sig(op) for op in ops] == exp and len(ops) == n * (1 + 2 * folds) + 2 * k
                and abs(len(ops) - F * n) <= 1 and same_u)

    def fold_axioms(o, r, nw, loc, kind):
        """instances of the proved lemmas on the terms of this path -- only what the goal of this case needs"""
        U, n, lam, folds, frac, y, k, ops = sym_parts(o, r)
        bounds = [round_law(y), round_range(y, n), mult_bound(frac, z3.ToReal(n))]              # => 0 <= k <= n, |y - k| <= 1/2
        out = [z3.Extract(U, 0, n) == U, len_ma(U), last_k(U, k)] + bounds
        ca = getattr(loc, "adjoints", None)
        if isinstance(ca, SeqV):
            out.append(last_k_reversed(ca.term, k))
        return out

    def real_tape(f):
        import pennylane as qp
        ops = []
        for j, lab_ in enumerate(f.get("operations") or []):
            ops.append([qp.RX(0.3 + 0.1 * j, 0), qp.CNOT([0, 1]), qp.RY(0.2 + 0.07 * j, 1), qp.S(0)][j % 4] if isinstance(lab_, str) else lab_)
        return qp.tape.QuantumScript(ops, [qp.expval(qp.Z(0))])
    def real_channel(f):
        import pennylane as qp
        return qp.DepolarizingChannel(0.1, wires=0)
    w.stub_realize = {"Tape": real_tape, "Channel": real_channel}

    def call_fold(mod, a):
        return mod.fold_global(a["tape"], a["scale_factor"])

    def fix_lambda(rng, m):
        m = dict(m)
        if rng is not None:
            n = rng.randint(0, 6)
            m["scale_factor"] = rng.choice([1.0, 1.5, 2.0, 2.25, 3.0, 3.5, 4.75, 5.0, 1.0 + rng.random() * 5])
            if n and rng.random() < 0.6:
                # stratified over the fold-count domain: every (folds, k) cell with 0 <= k <= n is as likely as any other
                m["scale_factor"] = cell_scale_factor(n, rng.randint(0, 3), rng.randint(0, n), rng.uniform(-0.45, 0.45))
            m["tape"] = {"__class__": "Tape", "operations": [f"L{j}" for j in range(n)]}
        return m

    def cell_scale_factor(n, folds, k, delta):
        """a scale factor whose specification counts are (folds, k):  lambda = 1 + 2*folds + 2*(k + delta)/n,  |delta| < 1/2,
        kept inside the remainder range [0, 2)"""
        frac = min(max(2.0 * (k + delta) / n, 0.0), 2.0 - 1e-9)
        return 1.0 + 2 * folds + frac

    def fold_case(label, ens, kind):
        return Case(label, {"tape": T("rec", "Tape"), "scale_factor": Float},
                    requires=lambda a: (a.scale_factor.t >= 1) if isinstance(a.scale_factor, FloatV) else a.scale_factor >= 1,
                    ensures=ens, axioms=lambda o, r, nw, loc: fold_axioms(o, r, nw, loc, kind),
                    native_gen=fix_lambda, native_call=call_fold)
    fold = FnContract(w, "fold_global", [
        fold_case("any-length-real-scale-factor/shape-of-the-folded-circuit", lambda o, r, nw: ens_counts_shape(o, r, nw, "shape"), "shape")])

    def fold_enumeration():
        """bounded native stand-in (never counted as proved): the REAL fold_global on real tapes for every fold-count cell
        (n, folds, k) with n <= 5, folds <= 2, 0 <= k <= n (three scale factors per cell), judged by the executable contract"""
        from vf.pyvc.contract import replay_case
        case = fold.cases[0]
        cnt = 0
        for n in range(0, 6):
            for folds in range(0, 3):
                for k in range(0, n + 1):
                    for delta in (-0.3, 0.0, 0.3):
                        lam = cell_scale_factor(n, folds, k, delta) if n else 1.0 + 2 * folds + (delta + 0.3)
                        model = {"tape": {"__class__": "Tape", "operations": [f"L{j}" for j in range(n)]}, "scale_factor": lam, "__generated__": True}
                        rp = replay_case(fold, case, model)
                        cnt += 1
                        if rp.get("confirmed"):
                            return Outcome(REFUTED, "native", f"fold_global violates its contract for n_ops={n}, scale_factor={lam!r}",
                                           witness=dict(n_ops=n, scale_factor=lam, folds=folds, partial_fold=k), replay=rp)
                        if rp.get("confirmed") is None:
                            return Outcome(FAULT, "native", f"executable contract did not evaluate for n_ops={n}, scale_factor={lam!r}: {rp.get('note')}")
        return Outcome(DISCHARGED, "native", f"{cnt} real runs: every (n <= 5, folds <= 2, 0 <= k <= n) cell, 3 scale factors each")
    plan.add(Obligation("C25/mitigate:fold_global/native-enumeration-of-fold-count-cells", "post", fold_enumeration, func=(MIT, "fold_global"), bounded=True,
                        timeout=300, sample="real fold_global on real tapes, all (n_ops <= 5, global folds <= 2, partial fold 0..n_ops) cells: "
                        "exact folded word, gate count within 1 of scale*n, same unitary matrix"))

    # ---- consequences of the shape (no program involved): gate count and same unitary ----------------------------------------------
    Uc = z3.Const("U", SL)
    lc = z3.Real("lam")
    nc = z3.Length(Uc)
    fo_, fr_, y_, kk_ = fold_counts(lc, nc)
    Ac = MA(Uc)
    Wc = z3.Concat(REV(Ac), Uc)
    prec, sufc, asufc = z3.Extract(Uc, 0, nc - kk_), z3.Extract(Uc, nc - kk_, kk_), z3.Extract(Ac, nc - kk_, kk_)
    tailc = z3.Concat(REV(asufc), sufc)
    repc = REP(Wc, fo_)
    SH = shape(Uc, Ac, nc, fo_, kk_)
    bounds_c = [lc >= 1, round_law(y_), round_range(y_, nc), mult_bound(fr_, z3.ToReal(nc))]
    sf_, sfr_, sy_, sk_ = spec_counts(lc, nc)
    plan.add(lemma("C25", "counts/the-program-text-counts-are-floor-remainder-and-round-half-even", [Uc, lc],
                   z3.And(fo_ == sf_, fr_ == sfr_, y_ == sy_, kk_ == sk_, fo_ >= 0, z3.ToReal(fo_) <= (lc - 1) / 2, (lc - 1) / 2 < z3.ToReal(fo_) + 1,
                          fr_ >= 0, fr_ < 2, kk_ >= 0, kk_ <= nc, y_ - z3.ToReal(kk_) <= HALF, z3.ToReal(kk_) - y_ <= HALF),
                   assumptions=bounds_c + [round_law(sy_), sy_ == y_],
                   sample="folds == floor((lambda-1)/2), k == round_half_even(frac*n/2), 0 <= k <= n, |frac*n/2 - k| <= 1/2"))
    lnc = z3.Length(SH)
    dc = z3.ToReal(lnc) - lc * z3.ToReal(nc)
    exact_c = lnc == nc * (1 + 2 * fo_) + 2 * kk_
    plan.add(lemma("C25", "consequence/gate-count-of-the-folded-shape-is-exact", [Uc, lc], exact_c,
                   assumptions=bounds_c + [len_ma(Uc), len_rev(Ac), len_rev(asufc), len_rep(Wc, fo_)],
                   sample="len(U ++ (rev(U+) ++ U)^folds ++ tail) == n*(1 + 2*folds) + 2k"))
    # |len - lambda*n| <= 1 then is the arithmetic lemma arith/gate-count-within-one-of-scale-factor-times-n applied to the exact count
    plan.add(lemma("C25", "consequence/same-unitary-of-the-folded-shape", [Uc, lc], EV(SH) == EV(Uc),
                   assumptions=bounds_c + [len_ma(Uc), split_at(Uc, nc - kk_), ma_concat(prec, sufc), len_ma(prec), len_ma(sufc),
                                           inv_word(Uc), inv_word(sufc), ev_rep(Wc, fo_), ev_concat(Uc, z3.Concat(repc, tailc)), ev_concat(Uc, repc),
                                           ev_concat(repc, tailc), ev_concat(Uc, z3.Concat(repc, EMPTY)), EV(EMPTY) == E, MUL(E, E) == E, MUL(EV(Uc), E) == EV(Uc)],
                   sample="product(folded shape) == product(U) in every group where image(adjoint(x)) is the inverse of image(x)"))

    ch = FnContract(w, "fold_global", [
        Case("circuit-with-a-channel-is-rejected",
             {"tape": T("build", lambda ctx, name: Rec(w.classes["Tape"], {"operations": PyList([z3.Const(ctx.fresh_name("op"), LabelSort),
                                                                                                 Rec(w.classes["Channel"], {})])}),
                        gen=lambda rng: {"__class__": "Tape", "operations": ["L0", {"__class__": "Channel"}]}), "scale_factor": T("const", 3.0)},
             ensures=lambda o, r, nw: False, raises={"ValueError": lambda o: True}, size_bounded=True, native_call=call_fold)])
    dm = FnContract(w, "_divmod", [
        Case("divisor-2", {"a": Float, "b": T("const", 2)},
             ensures=lambda o, r, nw: And(isinstance(r, tuple) and len(r) == 2, r[0] == z3.ToInt(o.a.t / 2), r[1].t == o.a.t - 2 * z3.ToReal(z3.ToInt(o.a.t / 2)),
                                          r[1].t >= 0, r[1].t < 2) if isinstance(o.a, FloatV)
             else (r[0] == pymath.floor(Fraction(o.a) / 2) and abs(r[1] - (o.a - 2 * r[0])) < 1e-12 and 0 <= r[1] < 2))])
    def hyps_consistent(snapshot=tuple(LEMMA_HYPS)):
        bad = []
        from vf.pyvc.engine import set_budget
        for name, asm in snapshot:
            sv = z3.Solver()
            set_budget(sv, 4000)
            # the quantified group axioms (satisfied by the trivial group) are left out: with them z3 only answers `unknown`, slowly
            sv.add(*[h for h in asm if not z3.is_quantifier(h)])
            if sv.check() == z3.unsat:
                bad.append(name)
        if bad:
            return Outcome(FAULT, "z3", f"contradictory lemma hypotheses: {bad}")
        return Outcome(DISCHARGED, "z3", f"hypotheses of {len(snapshot)} lemmas are not refutable (sat / unknown with quantified group axioms)")
    plan.add(Obligation("C25/lemma-hypotheses-are-consistent", "lemma", hyps_consistent, bounded=True, timeout=240,
                        sample="no lemma is proved from contradictory hypotheses"))

    for fc in (fold, ch, dm):
        for case in fc.cases:
            case.interp_cls = FoldInterp
        for ob in obligations_for("C25", fc, tier):
            plan.add(ob)
        plan.fn_under_contract(MIT, fc.qualname)
    plan.size_bounds = ["the channel-rejection case uses a 2-operation circuit (the any() test is element-wise)"]
    plan.unverified = ["add_noise / insert (conditionals, positions), noise models", "the extrapolators (_polyfit via pinv, richardson / exponential "
                       "extrapolation: float linear algebra)", "mitigate_with_zne orchestration; fold_global on QNodes (transform dispatch)",
                       "binary64 rounding of the scale-factor arithmetic; scale factors < 1"]
    return plan
