"""C25 Noise insertion and error mitigation follow their definitions -- the folding half: noise/mitigate.py fold_global, _divmod.

The real body of fold_global is executed symbolically on an operation list of SYMBOLIC length over abstract letters (an uninterpreted
sort; adjoint(.) an uninterpreted function on letters) and a REAL scale factor lambda >= 1.  Postcondition, from the property statement:
  * folds = floor((lambda-1)/2), k = round_half_even(frac * n / 2) with frac = (lambda-1) - 2*folds, 0 <= k <= n;
  * the new operation list is  U ++ (rev(U+) ++ U)^folds ++ (rev(U+[n-k:]) ++ U[n-k:] if k else [])   (U+ = the letterwise adjoints);
  * gate count  len == n*(1 + 2*folds) + 2k  and  |len - lambda*n| <= 1   ("gate count matching the scale factor");
  * same unitary: in EVERY group in which the image of adjoint(x) is the inverse of the image of x, the product of the new list equals
    the product of U  (equivalently: the word reduces to U in the free group over the letters).
rev, repetition, letterwise adjoint and the group product are recursively defined spec functions; the laws used about them are proved
as explicit induction lemmas (base + step obligations each).

Extension (seeds C25_1..3).  fold_global: reversed slices with an explicit start index (s[a:b:-1]) are modelled too (slice.indices
semantics, cross-checked against CPython), the native search is stratified over the fold-count cells (folds, k) with 0 <= k <= n, and a
bounded native enumeration of those cells runs the real function on real tapes.  Extrapolators: the REAL bodies of _polyfit /
poly_extrapolate / richardson_extrapolate are run on sympy-backed exact scalars (symbolic abscissae, symbolic polynomial coefficients,
enumerated (points, order) shapes) with pinv replaced by its assumed contract (inverse of a nonsingular matrix, only for a round-off level
cut-off); the returned coefficients must be the model polynomial's.  A bounded native stand-in runs all four extrapolators in binary64 on
model data.  add_noise: bounded native stand-in only (exact channels at the selected positions, each measurement carried once with its
readout channels, post-processing returns result i at position i, zero strength == noiseless).
"""
import math as pymath
from fractions import Fraction

import z3

from vf.common import Plan, Obligation, Outcome, DISCHARGED, REFUTED, UNDECIDED, FAULT
from vf.pyvc.engine import (World, T, Int, Float, Label, LabelSort, SeqT, Rec, SeqV, PyList, FloatV, Unsupp, to_int_term, real_of, s_at)
from vf.pyvc.contract import FnContract, Case, LoopSpec, obligations_for
from vf.pyvc.contract import lemma as _lemma
from vf.pyvc.interp import Interp
from vf.pyvc import spec as S
from vf.pyvc.spec import And

MIT = "pennylane/noise/mitigate.py"
LEMMA_HYPS = []


def lemma(pid, name, vars_, goal, *, assumptions=(), **kw):
    """contract.lemma, remembering the hypotheses (their joint satisfiability is checked by an obligation of its own: a lemma
    proved from contradictory hypotheses would be vacuous)"""
    LEMMA_HYPS.append((name, list(assumptions)))
    return _lemma(pid, name, vars_, goal, assumptions=assumptions, **kw)

SL = z3.SeqSort(LabelSort)
EMPTY = z3.Empty(SL)
G = z3.DeclareSort("GroupElem")

REV = z3.Function("rev", SL, SL)                        # reversed list
REP = z3.Function("rep", SL, z3.IntSort(), SL)          # python list * int
MA = z3.Function("adjoints", SL, SL)                    # [adjoint(x) for x in s]
ADJ = z3.Function("adjoint", LabelSort, LabelSort)
EV = z3.Function("product", SL, G)                      # product of the images of the letters, in list order
MUL = z3.Function("mul", G, G, G)
E = z3.Const("unit", G)
IMG = z3.Function("image", LabelSort, G)


def snoc(s, x):
    return z3.Concat(s, z3.Unit(x))


# ---- defining equations (instances) ------------------------------------------------------------------------------------------
def rev_def(s, x):
    return [REV(EMPTY) == EMPTY, REV(snoc(s, x)) == z3.Concat(z3.Unit(x), REV(s))]


def ma_def(s, x):
    return [MA(EMPTY) == EMPTY, MA(snoc(s, x)) == snoc(MA(s), ADJ(x))]


def rep_def(w, m):
    return [z3.Implies(m <= 0, REP(w, m) == EMPTY), z3.Implies(m > 0, REP(w, m) == z3.Concat(REP(w, m - 1), w))]


def ev_def(s, x):
    return [EV(EMPTY) == E, EV(snoc(s, x)) == MUL(EV(s), IMG(x))]


def group_axioms():
    a, b, c = z3.Consts("ga gb gc", G)
    x = z3.Const("gx", LabelSort)
    return [z3.ForAll([a, b, c], MUL(MUL(a, b), c) == MUL(a, MUL(b, c))), z3.ForAll([a], MUL(E, a) == a), z3.ForAll([a], MUL(a, E) == a),
            # assumed contract (C03): adjoint(op) is the inverse of op
            z3.ForAll([x], z3.And(MUL(IMG(ADJ(x)), IMG(x)) == E, MUL(IMG(x), IMG(ADJ(x))) == E))]


# ---- the laws (instances of lemmas proved below by explicit induction) ----------------------------------------------------------
def len_rev(s):
    return z3.Length(REV(s)) == z3.Length(s)


def len_ma(s):
    return z3.Length(MA(s)) == z3.Length(s)


def len_rep(w, m):
    return z3.Implies(m >= 0, z3.Length(REP(w, m)) == m * z3.Length(w))


def ma_concat(a, b):
    return MA(z3.Concat(a, b)) == z3.Concat(MA(a), MA(b))


def ev_concat(a, b):
    return EV(z3.Concat(a, b)) == MUL(EV(a), EV(b))


def inv_word(s):
    """rev(adjoints(s)) ++ s is trivial"""
    return EV(z3.Concat(REV(MA(s)), s)) == E


def ev_rep(w, m):
    return z3.Implies(z3.And(EV(w) == E, m >= 0), EV(REP(w, m)) == E)


def snoc_slice(s, k):
    return z3.Implies(z3.And(k >= 0, k < z3.Length(s)), z3.Extract(s, 0, k + 1) == snoc(z3.Extract(s, 0, k), s[k]))


def split_at(s, k):
    return z3.Implies(z3.And(k >= 0, k <= z3.Length(s)), s == z3.Concat(z3.Extract(s, 0, k), z3.Extract(s, k, z3.Length(s) - k)))


def rev_slice_term(term, hi):
    """python  s[:hi:-1]  (hi None:  s[::-1]) -- slice.indices semantics for step -1 and default start"""
    n = z3.Length(term)
    if hi is None:
        return REV(term)                                   # the whole list, reversed
    h = to_int_term(hi)
    stop = z3.If(h < 0, z3.If(h + n < -1, z3.IntVal(-1), h + n), z3.If(h > n - 1, n - 1, h))
    return REV(z3.Extract(term, stop + 1, n - 1 - stop))


def rev_slice_term_general(term, lo, hi):
    """python  s[lo:hi:-1]  for ANY lo / hi (None or integer terms) -- slice.indices semantics for step -1:
    start = n-1 (None) | clamp(lo + n if lo < 0 else lo, -1, n-1);  stop = -1 (None) | clamp(hi + n if hi < 0 else hi, -1, n-1);
    the elements start, start-1, ..., stop+1 (none when start <= stop)"""
    n = z3.Length(term)

    def clamp(v, default):
        if v is None:
            return default
        t = to_int_term(v)
        return z3.If(t < 0, z3.If(t + n < 0, z3.IntVal(-1), t + n), z3.If(t > n - 1, n - 1, t))
    start, stop = clamp(lo, n - 1), clamp(hi, z3.IntVal(-1))
    return REV(z3.Extract(term, stop + 1, z3.If(start - stop > 0, start - stop, z3.IntVal(0))))


def last_k_reversed(s, k):
    """for 1 <= k <= len(s):  s[:-k-1:-1]  is the reverse of the last k elements"""
    n = z3.Length(s)
    return z3.Implies(z3.And(k >= 1, k <= n), rev_slice_term(s, -k - 1) == REV(z3.Extract(s, n - k, k)))


def last_k(s, k):
    """for 1 <= k <= len(s):  s[-k:]  (the interpreter's term for it) is extract(s, len - k, k)"""
    n = z3.Length(s)
    code = Interp.slice(None, SeqV(s, Label), -k, None, None).term
    return z3.Implies(z3.And(k >= 1, k <= n), code == z3.Extract(s, n - k, k))


class FoldInterp(Interp):
    """additive value semantics needed by fold_global: reversed slices and repetition of symbolic-length lists as spec-function terms"""

    def slice(self, obj, lo, hi, st):
        if isinstance(obj, SeqV) and isinstance(st, int) and st == -1 and lo is None and obj.term.sort() == SL:
            return SeqV(rev_slice_term(obj.term, hi), obj.elem, obj.is_tuple)
        if isinstance(obj, SeqV) and isinstance(st, int) and st == -1 and obj.term.sort() == SL and not isinstance(lo, (SeqV, PyList, tuple)) \
                and not isinstance(hi, (SeqV, PyList, tuple)):
            return SeqV(rev_slice_term_general(obj.term, lo, hi), obj.elem, obj.is_tuple)          # explicit start index
        return super().slice(obj, lo, hi, st)

    def sym_map(self, it, i, val):
        """[adjoint(x) for x in s] over a symbolic-length list of letters IS adjoints(s): the comprehension of a pure letterwise function
        is the recursively defined map (its defining equations are the comprehension's append semantics)"""
        if isinstance(val, z3.ExprRef) and isinstance(it, SeqV) and it.term.sort() == SL:
            try:
                if z3.is_true(z3.simplify(val == ADJ(s_at(it.term, i)))):
                    return SeqV(MA(it.term), Label, False)
            except z3.Z3Exception:
                pass
        return super().sym_map(it, i, val)

    def seq_binop(self, op, a, b):
        import ast
        if isinstance(op, ast.Mult):
            seq, k = (a, b) if isinstance(a, SeqV) else (b, a)
            if isinstance(seq, SeqV) and seq.term.sort() == SL and not isinstance(k, (SeqV, PyList, tuple)):
                return SeqV(REP(seq.term, to_int_term(k)), seq.elem, seq.is_tuple)
        return super().seq_binop(op, a, b)


# ==== the extrapolators (noise/mitigate.py: _polyfit, poly_extrapolate, richardson_extrapolate, exponential_extrapolate) =========
def _sym_array(vals):
    import numpy as np
    o = np.empty(len(vals), dtype=object)
    for i, v in enumerate(vals):
        o[i] = v
    return o


class _CalleePre(Exception):
    """a modelled library callee was called outside the precondition of its assumed contract"""


class _LinalgModel:
    """math.linalg as _polyfit sees it: pinv / inv / solve are replaced by their ASSUMED contracts on exact scalars
    (pinv(A) with the default cut-off is the inverse of a nonsingular A); everything else is the real module"""

    def __init__(self, real):
        self._real, self.calls = real, []

    def __getattr__(self, n):
        return getattr(self._real, n)

    @staticmethod
    def _inverse(A):
        import numpy as np
        import sympy as sp
        from vf.symx.sscalar import SS
        mat = sp.Matrix(A.shape[0], A.shape[1], lambda i, j: A[i, j].e if isinstance(A[i, j], SS) else sp.sympify(A[i, j]))
        inv = mat.inv(method="LU")
        out = np.empty(A.shape, dtype=object)
        for i in range(A.shape[0]):
            for j in range(A.shape[1]):
                out[i, j] = SS(inv[i, j])
        return out

    def pinv(self, A, *args, **kw):
        self.calls.append(("pinv", args, dict(kw)))
        cut = [a for a in args[:1]] + [kw[k] for k in ("rcond", "rtol") if kw.get(k) is not None]
        extra = [k for k in kw if k not in ("rcond", "rtol", "hermitian")]
        if extra or len(args) > 2 or any((not isinstance(c, (int, float))) or c > 1e-15 for c in cut):
            # assumed contract: singular values <= cut-off * largest are DISCARDED; only for a cut-off at round-off level (numpy's
            # default 1e-15) is pinv the inverse of every nonsingular matrix in exact arithmetic
            raise _CalleePre(f"pinv called with a truncation cut-off {cut or extra}: above round-off level it discards genuine directions "
                             "of a nonsingular matrix, pinv(A) is then not inverse(A)")
        return self._inverse(A)

    def inv(self, A, *args, **kw):
        self.calls.append(("inv", args, dict(kw)))
        if args or kw:
            raise _CalleePre("inv called with extra arguments")
        return self._inverse(A)


class _MathModel:
    """pennylane.math as _polyfit sees it on exact symbolic scalars: dtype conversions are value-preserving (A-float-as-real), sqrt is
    the exact square root elementwise; every other attribute (vander, stack, sum, transpose, tensordot, ...) is the REAL function"""

    def __init__(self, real):
        self._real = real
        self.linalg = _LinalgModel(real.linalg)

    def __getattr__(self, n):
        return getattr(self._real, n)

    def convert_like(self, x, like):
        return _sym_array(list(x))

    def cast_like(self, x, like):
        return x

    def sqrt(self, A):
        import numpy as np
        import sympy as sp
        from vf.symx.sscalar import SS
        A = np.asarray(A, dtype=object)
        out = np.empty(A.shape, dtype=object)
        for idx, v in np.ndenumerate(A):
            out[idx] = SS(sp.sqrt(v.e if isinstance(v, SS) else sp.sympify(v)))
        return out[()] if out.ndim == 0 else out


POLY_GRIDS = ("consecutive integers 1..n", "1 + j/2", "1 + 2j", "linspace(1, 10, n)", "1 + j/3")


def _poly_grid(n, g):
    import numpy as np
    return [np.arange(1, n + 1, dtype=float), 1 + 0.5 * np.arange(n), 1 + 2.0 * np.arange(n), np.linspace(1, 10, n), 1 + np.arange(n) / 3.0][g]


POLY_TOL = 1e-6


def native_extrapolator_search(max_points=6, draws=3, seed=0):
    """bounded native run of the REAL extrapolators on data that follow their model; returns (replay-dict of the first violation or
    None, number of runs).  Tolerance: |f(0) - exact| <= 1e-6 * max(1, max|y|) (binary64 with the conditioning of <= 6 points)"""
    import numpy as np
    import importlib
    M = importlib.import_module("pennylane.noise.mitigate")
    rng = np.random.default_rng(seed)
    runs = 0
    for n in range(1, max_points + 1):
        for g in range(len(POLY_GRIDS)):
            x = _poly_grid(n, g)
            for order in range(0, n):
                for deg in range(0, order + 1):
                    for _ in range(draws):
                        p = rng.uniform(-1, 1, deg + 1)
                        y = np.polyval(p, x)
                        tol = POLY_TOL * max(1.0, float(np.max(np.abs(y))))
                        calls = [("poly_extrapolate", lambda: M.poly_extrapolate(x, y, order))]
                        full = np.concatenate([np.zeros(order - deg), p])
                        calls.append(("_polyfit", lambda: M._polyfit(x, y, order)))
                        if order == n - 1:
                            calls.append(("richardson_extrapolate", lambda: M.richardson_extrapolate(x, y)))
                        for fname, call in calls:
                            runs += 1
                            try:
                                got = call()
                                bad = (np.max(np.abs(np.asarray(got, dtype=float) - full)) > 1e-5 * max(1.0, float(np.max(np.abs(y))))) if fname == "_polyfit" \
                                    else abs(float(got) - p[-1]) > tol
                                obs = repr(np.asarray(got, dtype=float).tolist())
                            except Exception as ex:  # pylint: disable=broad-except
                                bad, obs = True, f"raised {type(ex).__name__}: {ex}"
                            if bad:
                                return dict(confirmed=True, function=fname, inputs=dict(x=x.tolist(), y=y.tolist(), order=order),
                                            observed=obs, expected=f"coefficients {full.tolist()} (f(0) = {p[-1]!r}) of the degree-{deg} polynomial "
                                            f"the data follow, within {tol:.1e}"), runs
    for n in range(2, max_points + 1):
        for g in range(len(POLY_GRIDS)):
            x = _poly_grid(n, g)
            for _ in range(2 * draws):
                A = float(rng.uniform(0.2, 2) * rng.choice([-1, 1]))
                Bc = float(rng.uniform(-0.6, -0.05))
                C = float(rng.uniform(-1, 1))
                for asym in (None, C):
                    y = A * np.exp(Bc * x) + (0.0 if asym is None else C)
                    want = A + (0.0 if asym is None else C)
                    runs += 1
                    try:
                        got = float(M.exponential_extrapolate(x, y) if asym is None else M.exponential_extrapolate(x, y, asymptote=asym))
                        bad, obs = abs(got - want) > POLY_TOL * max(1.0, abs(A)), repr(got)
                    except Exception as ex:  # pylint: disable=broad-except
                        bad, obs = True, f"raised {type(ex).__name__}: {ex}"
                    if bad:
                        return dict(confirmed=True, function="exponential_extrapolate", inputs=dict(x=x.tolist(), y=y.tolist(), asymptote=asym),
                                    observed=obs, expected=f"f(0) = A + C = {want!r} of the data A*exp(B*x) + C, A={A!r}, B={Bc!r}"), runs
    return None, runs


def polyfit_symbolic(n, order):
    """run the REAL bodies of _polyfit / poly_extrapolate / richardson_extrapolate on n symbolic real abscissae and the values of a
    polynomial of degree <= order with symbolic real coefficients; decide coefficient-by-coefficient equality as rational functions"""
    import importlib
    import sympy as sp
    from vf.symx.sscalar import SS, is_zero_expr
    from vf.symx.ring import Unsupported
    M = importlib.import_module("pennylane.noise.mitigate")
    xs = [SS(sp.Symbol(f"x{i}", real=True)) for i in range(n)]
    ps = [sp.Symbol(f"p{j}", real=True) for j in range(order + 1)]
    ys = [SS(sum(ps[j] * x.e ** (order - j) for j in range(order + 1))) for x in xs]
    model = _MathModel(M.math)
    real_math = M.math
    M.math = model
    failure = None
    try:
        c = M._polyfit(_sym_array(xs), list(ys), order)
        e0 = M.poly_extrapolate(_sym_array(xs), list(ys), order)
        r0 = M.richardson_extrapolate(_sym_array(xs), list(ys)) if order == n - 1 else None
    except (_CalleePre, Unsupported, TypeError, ValueError, AttributeError, NotImplementedError) as ex:
        failure = ex
    finally:
        M.math = real_math                  # the native runs below use the real module again
    if isinstance(failure, _CalleePre):
        rp, runs = native_extrapolator_search()
        if rp is not None:
            return Outcome(REFUTED, "symx+native", f"assumed callee contract not applicable: {failure}; the real extrapolators are not exact on model data",
                           witness=dict(function=rp["function"], inputs=rp["inputs"]), replay=rp)
        return Outcome(UNDECIDED, "symx", f"assumed callee contract not applicable: {failure}; {runs} native runs found no inexact fit")
    if failure is not None:
        rp, runs = native_extrapolator_search()
        if rp is not None:
            return Outcome(REFUTED, "native", f"_polyfit left the symbolic fragment ({type(failure).__name__}: {failure}); the real extrapolators are not "
                           "exact on model data", witness=dict(function=rp["function"], inputs=rp["inputs"]), replay=rp)
        return Outcome(UNDECIDED, "symx", f"_polyfit left the symbolic fragment: {type(failure).__name__}: {str(failure)[:200]}",
                       extra=dict(standin="passed", standin_bound=f"{runs} native runs of the real extrapolators on model data"))
    if not any(k[0] in ("pinv", "inv") for k in model.linalg.calls):
        return Outcome(FAULT, "symx", "the traced fit never reached the modelled linear solve")
    if getattr(c, "shape", None) != (order + 1,):
        bad = [("shape", getattr(c, "shape", None))]
    else:
        bad = [(f"coefficient {j}", c[j].e) for j in range(order + 1) if not is_zero_expr(c[j].e - ps[j])]
        if not is_zero_expr(e0.e - ps[order]):
            bad.append(("poly_extrapolate", e0.e))
        if r0 is not None and not is_zero_expr(r0.e - ps[order]):
            bad.append(("richardson_extrapolate", r0.e))
    if not bad:
        return Outcome(DISCHARGED, "symx", f"{order + 1} coefficients, poly_extrapolate" + (", richardson_extrapolate" if r0 is not None else "") +
                       f": equal to the model polynomial's as rational functions of {n} abscissae and {order + 1} coefficients")
    rp, runs = native_extrapolator_search()
    if rp is None:
        rp = dict(confirmed=None, note=f"symbolic result differs from the model polynomial; {runs} native float runs stayed within tolerance")
    return Outcome(REFUTED, "symx", f"fit of {n} points, order {order}: {bad[0][0]} is not the model polynomial's: {str(bad[0][1])[:300]}",
                   witness=dict(points=n, order=order, differs=[b[0] for b in bad]), replay=rp)


# ==== add_noise (noise/add_noise.py) ==================================================================================================
AN_POOL = ("Z(0)", "X(0)", "Z(1)", "X(1)", "Z(2)", "Y(2)")


def _an_circuits():
    import pennylane as qp
    return [[qp.RX(0.3, 0), qp.RY(1.2, 1), qp.CNOT([0, 1]), qp.RX(0.8, 2), qp.CNOT([1, 2])],
            [qp.RY(0.4, 1), qp.S(0), qp.RX(-0.7, 1), qp.CZ([2, 0])], []]


def _an_rules(p):
    """(condition, noise callable, independent selector, independent list of requested channels)"""
    import pennylane as qp
    gate = [(qp.noise.op_eq(qp.RX), qp.noise.partial_wires(qp.PhaseDamping, p), lambda op: isinstance(op, qp.RX),
             lambda op: [qp.PhaseDamping(p, wires=op.wires)]),
            (qp.noise.wires_in([1]), qp.noise.partial_wires(qp.DepolarizingChannel, p), lambda op: set(op.wires) <= {1},
             lambda op: [qp.DepolarizingChannel(p, wires=op.wires)])]
    meas = [(qp.noise.meas_eq(qp.expval) & qp.noise.wires_in([0]), qp.noise.partial_wires(qp.BitFlip, p), lambda m: set(m.wires) <= {0},
             lambda m: [qp.BitFlip(p, wires=m.wires)]),
            (qp.noise.wires_in([1, 2]) & qp.noise.meas_eq(qp.expval), qp.noise.partial_wires(qp.PhaseFlip, p), lambda m: set(m.wires) <= {1, 2},
             lambda m: [qp.PhaseFlip(p, wires=m.wires)])]
    return gate, meas


def add_noise_contract(ops, obs_idx, gsel, msel, p, execute=False, dev=None):
    """the executable contract of add_noise on one input; None when it holds, else what is wrong.  From the property statement:
    every circuit of the batch is the input circuit with exactly the requested channels after the operations the conditions select
    (model order) followed by the readout channels of the measurements it carries; every measurement is carried exactly once; the
    post-processing returns, at position i, the result of measurement i; with zero strength the results are the noiseless ones"""
    import numpy as np
    import pennylane as qp
    pool = [lambda: qp.Z(0), lambda: qp.X(0), lambda: qp.Z(1), lambda: qp.X(1), lambda: qp.Z(2), lambda: qp.Y(2)]
    meas = [qp.expval(pool[i]()) for i in obs_idx]
    tape = qp.tape.QuantumScript(ops, meas)
    grules, mrules = _an_rules(p)
    gr = [r for r, s_ in zip(grules, gsel) if s_]
    mr = [r for r, s_ in zip(mrules, msel) if s_]
    model = qp.NoiseModel({c: n for c, n, _, _ in gr}, meas_map={c: n for c, n, _, _ in mr}) if mr else qp.NoiseModel({c: n for c, n, _, _ in gr})
    tapes, fn = qp.add_noise(tape, model)
    exp_ops = []
    for op in ops:
        exp_ops.append(op)
        for _, _, sel, mk in gr:
            if sel(op):
                exp_ops.extend(mk(op))

    def readout(m):
        return [o for _, _, sel, mk in mr if sel(m) for o in mk(m)]

    def same_ops(a, b):
        return len(a) == len(b) and all(qp.equal(u, v) for u, v in zip(a, b))
    seen = {}
    for ti, t in enumerate(tapes):
        if meas and not t.measurements:
            return f"circuit {ti} of the batch has no measurement"
        for mi, m in enumerate(t.measurements):
            js = [j for j, mo in enumerate(meas) if mo is m] or [j for j, mo in enumerate(meas) if qp.equal(mo, m)]
            if len(js) != 1:
                return f"circuit {ti}, measurement {mi}: not one of the requested measurements"
            if js[0] in seen:
                return f"measurement {js[0]} is carried twice"
            seen[js[0]] = (ti, mi)
            if not same_ops(list(t.operations), exp_ops + readout(m)):
                return f"circuit {ti} (carrying measurement {js[0]}): operations {list(t.operations)} != requested {exp_ops + readout(m)}"
    if len(seen) != len(meas):
        return f"measurements {sorted(set(range(len(meas))) - set(seen))} are missing from the batch"
    inv = {v: k for k, v in seen.items()}
    res = []
    for ti, t in enumerate(tapes):
        toks = [f"result-of-measurement-{inv[(ti, mi)]}" for mi in range(len(t.measurements))]
        res.append(toks[0] if len(toks) == 1 else tuple(toks))
    out = fn(tuple(res))
    want = tuple(f"result-of-measurement-{j}" for j in range(len(meas)))
    want = want[0] if len(want) == 1 else want
    if out != want:
        return f"post-processing returns {out}, expected {want}"
    if execute:
        got = np.array(fn(qp.execute(tapes, dev)), dtype=float).reshape(-1)
        ref = [float(qp.execute([qp.tape.QuantumScript(exp_ops + readout(m), [m])], dev)[0]) for m in meas]
        if not np.allclose(got, ref, atol=1e-8):
            return f"executed results {got.tolist()} differ from the one-circuit-per-measurement reference {ref}"
        if p == 0.0:
            plain = np.array(qp.execute([qp.tape.QuantumScript(ops, meas)], dev)[0], dtype=float).reshape(-1)
            if not np.allclose(got, plain, atol=1e-8):
                return f"zero-strength results {got.tolist()} differ from the noiseless results {plain.tolist()}"
    return None


def add_noise_enumeration(max_meas=4, sample5=120):
    import itertools
    import random
    import pennylane as qp
    dev = qp.device("default.mixed", wires=3)
    sels = ((1, 1), (1, 0), (0, 1), (0, 0))
    rng = random.Random(0)
    seqs = [t for M_ in range(1, max_meas + 1) for t in itertools.permutations(range(len(AN_POOL)), M_)]
    fives = list(itertools.permutations(range(len(AN_POOL)), 5))
    seqs += rng.sample(fives, min(sample5, len(fives)))
    cnt = 0
    for obs_idx in seqs:
        for msel in sels:
            ci, gsel, p = cnt % 3, sels[(cnt // 3) % 4], (0.0, 0.15)[cnt % 2]
            execute = cnt % 61 == 0
            try:
                why = add_noise_contract(_an_circuits()[ci], obs_idx, gsel, msel, p, execute=execute, dev=dev)
            except Exception as ex:  # pylint: disable=broad-except
                why = f"raised {type(ex).__name__}: {ex}"
            cnt += 1
            if why:
                inputs = dict(circuit=[repr(o) for o in _an_circuits()[ci]], measurements=[f"expval({AN_POOL[i]})" for i in obs_idx],
                              gate_rules_enabled=gsel, readout_rules_enabled=msel, strength=p)
                again = None
                try:
                    again = add_noise_contract(_an_circuits()[ci], obs_idx, gsel, msel, p, execute=execute, dev=dev)
                except Exception as ex:  # pylint: disable=broad-except
                    again = f"raised {type(ex).__name__}: {ex}"
                return Outcome(REFUTED, "native", f"add_noise violates its contract: {why[:400]}", witness=inputs,
                               replay=dict(confirmed=bool(again), inputs=inputs, observed=str(again)[:600],
                                           expected="requested channels at the selected positions; result i belongs to measurement i"))
    return Outcome(DISCHARGED, "native", f"{cnt} real add_noise runs: every ordered choice of <= {max_meas} of {len(AN_POOL)} observables (+{sample5} of 5), "
                   "all subsets of 2 gate rules x 2 readout rules")


def build(tier, seed):
    del LEMMA_HYPS[:]
    plan = Plan("C25", level="proof")
    plan.explanation = (
        "fold_global's real body is executed symbolically for an operation list of symbolic length over abstract letters and a real scale "
        "factor; floor / round-half-even / int are modelled exactly as the code applies them, over the reals; reversed slices, list "
        "repetition and the adjoint comprehension become terms of recursively defined spec functions (python slice.indices semantics, "
        "cross-checked against CPython on every run). Program obligation: the returned tape's operations are EXACTLY "
        "U ++ (rev(U+) ++ U)^folds ++ (rev(U+[n-k:]) ++ U[n-k:] if k) with folds / k the program-text counts. Lemma obligations (no program "
        "involved): those counts are floor((lambda-1)/2) and round_half_even(frac*n/2) with 0 <= k <= n; the shape has n*(1+2*folds)+2k "
        "operations, which is within 1 of lambda*n; the shape has the same product as U in every group where adjoint(x) maps to the "
        "inverse of x. The laws about the spec functions are base + step lemma pairs; channels are rejected (ValueError). "
        "Extrapolators: the real bodies of _polyfit / poly_extrapolate / richardson_extrapolate run on exact symbolic scalars (sympy-backed) for "
        "enumerated (points, order) shapes with symbolic abscissae and coefficients; pinv is an assumed contract (inverse, round-off level cut-off "
        "only); the fit must return the model polynomial's coefficients (rational-function normal form). Bounded native stand-ins (not proofs): "
        "fold_global over all fold-count cells of small circuits, the four extrapolators in binary64 on model data, add_noise over enumerated "
        "conditional selections / readout groupings with a token-based check of the post-processing order.")
    plan.trusted_base = ["vf/pyvc encoder (Python subset semantics)", "z3 sequences, linear/nonlinear arithmetic, EUF with quantified group axioms",
                         "induction principle over naturals / finite sequences (meta-level) for the lemma pairs base + step",
                         "the defining equations of rev / rep / adjoints / product in this file"]
    plan.assumptions = ["A-float-as-real: the scale factor and the quantities derived from it are real numbers (binary64 rounding of (lambda-1)/2 and "
                        "frac*n/2 is not modelled)",
                        "A-letters: operations are opaque letters; adjoint is a function on letters",
                        "pennylane.math.floor / round on a python or numpy float are floor and round-half-to-even (numpy semantics)"]
    plan.assumed_contracts = ["adjoint(op) is the inverse of op (C03): image(adjoint(x)) * image(x) == image(x) * image(adjoint(x)) == 1 in the group "
                              "of unitaries -- used only for the same-unitary conclusion",
                              "QuantumScript.copy(ops=...) returns a tape with exactly these operations; tape.operations is a python list"]
    plan.dropped = ["docstrings, annotations, the @transform decoration (the function is applied to a single tape)"]

    STUBS = ("class Tape:\n    def copy(self, ops=None):\n        return Tape(ops)\n\n\nclass Channel:\n    pass\n")

    def m_floor(it, args, kw):
        x = real_of(args[0])
        if z3.is_rational_value(z3.simplify(x)):                      # a concrete argument: a concrete result
            q = z3.simplify(x)
            k = q.numerator_as_long() // q.denominator_as_long()
            return FloatV(z3.RealVal(k), k)
        k = z3.ToInt(x)
        return FloatV(z3.ToReal(k), k)

    def m_round(it, args, kw):
        r = it.b_round([args[0]], {}, None)
        if isinstance(r, z3.ExprRef) and z3.is_int_value(z3.simplify(r)):
            r = z3.simplify(r).as_long()
        return r if isinstance(r, int) else FloatV(z3.ToReal(r), r)

    def m_adjoint(it, args, kw):
        x = args[0]
        if isinstance(x, z3.ExprRef) and x.sort() == LabelSort:
            return ADJ(x)
        return z3.Const(it.ctx.fresh_name("adjoint_of_nonletter"), LabelSort)      # e.g. of a channel: some operator

    w = World(MIT, functions=["_divmod"], stubs={"Tape": (STUBS, {"operations": SeqT(Label)}), "Channel": (STUBS, {})},
              extra_builtins={"math.floor": m_floor, "math.round": m_round, "adjoint": m_adjoint})

    # ---- bounded cross-check of the slice model against CPython -------------------------------------------------------------------
    def slice_selfcheck():
        bad = []
        for n in range(0, 6):
            lst = list(range(n))
            for hi in [None] + list(range(-8, 8)):
                want = lst[:hi:-1] if hi is not None else lst[::-1]
                s = z3.Solver()
                s.set("timeout", 5000)
                s.set("rlimit", 200000000)
                t = z3.Const("t", SL)
                labs = [z3.Const(f"l{i}", LabelSort) for i in range(n)]
                s.add(t == (z3.Concat(*[z3.Unit(x) for x in labs]) if n > 1 else (z3.Unit(labs[0]) if n == 1 else EMPTY)))
                term = rev_slice_term(t, hi)
                inner = term.arg(0)             # the (sub)list whose reverse is taken
                exp_inner = [labs[i] for i in reversed(want)]
                e = z3.Concat(*[z3.Unit(x) for x in exp_inner]) if len(exp_inner) > 1 else (z3.Unit(exp_inner[0]) if exp_inner else EMPTY)
                s.add(inner != e)
                if s.check() != z3.unsat:
                    bad.append((n, hi))
        if bad:
            return Outcome(FAULT, "z3", f"reversed-slice model disagrees with CPython on (len, stop) = {bad[:5]}")
        return Outcome(DISCHARGED, "z3", "s[:stop:-1] / s[::-1] model agrees with CPython for len 0..5, stop in -8..7 and None")
    plan.add(Obligation("C25/encoder:reversed-slice-model-agrees-with-CPython", "lemma", slice_selfcheck, bounded=True, timeout=240,
                        sample="python slice.indices semantics of s[:stop:-1] on lists of length 0..5"))

    def slice_selfcheck_general():
        bad, cnt = [], 0
        t = z3.Const("t", SL)
        for n in range(0, 6):
            lst = list(range(n))
            labs = [z3.Const(f"l{i}", LabelSort) for i in range(n)]

            def lit(xs):
                return z3.Concat(*[z3.Unit(x) for x in xs]) if len(xs) > 1 else (z3.Unit(xs[0]) if xs else EMPTY)
            tv = lit(labs)
            for lo in [None] + list(range(-8, 8)):
                for hi in [None] + list(range(-8, 8)):
                    want = lst[lo:hi:-1]
                    inner = z3.substitute(rev_slice_term_general(t, lo, hi).arg(0), (t, tv))     # the (sub)list whose reverse is taken
                    cnt += 1
                    if z3.is_true(z3.simplify(inner == lit([labs[i] for i in reversed(want)]))):
                        continue
                    sv = z3.Solver()
                    sv.set("timeout", 5000)
                    sv.set("rlimit", 200000000)
                    sv.add(inner != lit([labs[i] for i in reversed(want)]))
                    if sv.check() != z3.unsat:
                        bad.append((n, lo, hi))
        if bad:
            return Outcome(FAULT, "z3", f"general reversed-slice model disagrees with CPython on (len, start, stop) = {bad[:5]}")
        return Outcome(DISCHARGED, "z3", f"s[start:stop:-1] model agrees with CPython on {cnt} (len, start, stop) combinations")
    plan.add(Obligation("C25/encoder:general-reversed-slice-model-agrees-with-CPython", "lemma", slice_selfcheck_general, bounded=True, timeout=300,
                        sample="python slice.indices semantics of s[start:stop:-1] on lists of length 0..5, start/stop in -8..7 and None"))

    # ---- lemmas: each law by base + step ----------------------------------------------------------------------------------------
    s_, a_, b_, w_ = z3.Consts("s a b w", SL)
    x_ = z3.Const("x", LabelSort)
    m_, k_ = z3.Ints("m k")
    GA = group_axioms()
    L = []
    L.append(lemma("C25", "len-rev/base", [], len_rev(EMPTY), assumptions=rev_def(s_, x_)))
    L.append(lemma("C25", "len-rev/step", [s_, x_], len_rev(snoc(s_, x_)), assumptions=rev_def(s_, x_) + [len_rev(s_)]))
    L.append(lemma("C25", "len-adjoints/base", [], len_ma(EMPTY), assumptions=ma_def(s_, x_)))
    L.append(lemma("C25", "len-adjoints/step", [s_, x_], len_ma(snoc(s_, x_)), assumptions=ma_def(s_, x_) + [len_ma(s_)]))
    L.append(lemma("C25", "len-rep/base", [w_], z3.Length(REP(w_, 0)) == 0, assumptions=rep_def(w_, z3.IntVal(0))))
    L.append(lemma("C25", "len-rep/step", [w_, m_], z3.Length(REP(w_, m_ + 1)) == (m_ + 1) * z3.Length(w_),
                   assumptions=rep_def(w_, m_ + 1) + [m_ >= 0, z3.Length(REP(w_, m_)) == m_ * z3.Length(w_)]))
    L.append(lemma("C25", "adjoints-concat/base", [a_], ma_concat(a_, EMPTY), assumptions=ma_def(s_, x_)))
    L.append(lemma("C25", "adjoints-concat/step", [a_, b_, x_], ma_concat(a_, snoc(b_, x_)),
                   assumptions=ma_def(z3.Concat(a_, b_), x_) + ma_def(b_, x_) + [ma_concat(a_, b_)]))
    L.append(lemma("C25", "product-concat/base", [a_], ev_concat(a_, EMPTY), assumptions=ev_def(s_, x_) + GA))
    L.append(lemma("C25", "product-concat/step", [a_, b_, x_], ev_concat(a_, snoc(b_, x_)),
                   assumptions=ev_def(z3.Concat(a_, b_), x_) + ev_def(b_, x_) + GA + [ev_concat(a_, b_)]))
    L.append(lemma("C25", "inverse-word/base", [], inv_word(EMPTY), assumptions=ev_def(s_, x_) + ma_def(s_, x_) + rev_def(s_, x_)))
    W0 = z3.Concat(REV(MA(s_)), s_)
    L.append(lemma("C25", "inverse-word/step", [s_, x_], inv_word(snoc(s_, x_)),
                   assumptions=ma_def(s_, x_) + rev_def(MA(s_), ADJ(x_)) + ev_def(z3.Concat(z3.Unit(ADJ(x_)), W0), x_) + ev_def(EMPTY, ADJ(x_)) + GA +
                   [inv_word(s_), ev_concat(z3.Unit(ADJ(x_)), W0)]))        # product-concat is used as a proved lemma (instance)
    L.append(lemma("C25", "product-rep/base", [w_], EV(REP(w_, 0)) == E, assumptions=rep_def(w_, z3.IntVal(0)) + ev_def(s_, x_)))
    L.append(lemma("C25", "product-rep/step", [w_, m_], EV(REP(w_, m_ + 1)) == E,
                   assumptions=rep_def(w_, m_ + 1) + GA + [m_ >= 0, EV(w_) == E, EV(REP(w_, m_)) == E, ev_concat(REP(w_, m_), w_)]))
    L.append(lemma("C25", "seq/snoc-slice", [s_, k_], snoc_slice(s_, k_)))
    L.append(lemma("C25", "seq/split-at", [s_, k_], split_at(s_, k_)))
    L.append(lemma("C25", "slice/last-k-reversed", [s_, k_], last_k_reversed(s_, k_)))
    L.append(lemma("C25", "slice/last-k", [s_, k_], last_k(s_, k_)))
    for ob in L:
        plan.add(ob)

    # ---- fold_global ---------------------------------------------------------------------------------------------------------------
    def spec_counts(lam, n):
        """(folds, frac, y, k) of the specification; n an int term, lam a real term"""
        folds = z3.ToInt((lam - 1) / 2)                                       # floor
        frac = (lam - 1) - 2 * z3.ToReal(folds)
        y = frac * z3.ToReal(n) / 2
        up = z3.ToInt(y + z3.RealVal("1/2"))                                  # round half up ...
        k = z3.If(z3.And(z3.IsInt(y + z3.RealVal("1/2")), up % 2 == 1), up - 1, up)    # ... corrected to the even neighbour on ties
        return folds, frac, y, k

    def shape(U, A, n, folds, k):
        tail = z3.If(k != 0, z3.Concat(REV(z3.Extract(A, n - k, k)), z3.Extract(U, n - k, k)), EMPTY)
        return z3.Concat(U, REP(z3.Concat(REV(A), U), folds), tail)

    def ops_of_result(r):
        if not (isinstance(r, tuple) and len(r) == 2 and isinstance(r[0], PyList) and len(r[0].items) == 1 and isinstance(r[0].items[0], Rec)):
            return None
        v = r[0].items[0].f.get("operations")
        return v.term if isinstance(v, SeqV) else None

    def native_counts(lam, n):
        F = Fraction(lam)
        folds = pymath.floor((F - 1) / 2)
        frac = F - 1 - 2 * folds
        return folds, round(frac * n / 2), F           # round(Fraction) is round-half-even

    HALF = z3.RealVal("1/2")

    def code_round(y):
        """the term the engine builds for round(y) (python / numpy round-half-even), rebuilt on an arbitrary real term"""
        return Interp.b_round(None, [FloatV(y)], {}, None)

    def spec_round(y):
        up = z3.ToInt(y + HALF)
        return z3.If(z3.And(z3.IsInt(y + HALF), up % 2 == 1), up - 1, up)

    # arithmetic lemmas (over fresh variables; instantiated in the function's verification conditions)
    yv, av, bv = z3.Reals("y a b")
    nv = z3.Int("n")

    def round_law(y):
        return z3.And(code_round(y) == spec_round(y), y - z3.ToReal(spec_round(y)) <= HALF, z3.ToReal(spec_round(y)) - y <= HALF)

    def round_range(y, n):
        return z3.And(z3.Implies(y >= 0, spec_round(y) >= 0), z3.Implies(y <= z3.ToReal(n), spec_round(y) <= n))

    def expand_scale(l, F, N):
        """lambda * n written over the monomials the fold counts use (a polynomial identity)"""
        return l * N == N + 2 * F * N + (l - z3.RealVal(1) - F * z3.RealVal(2)) * N

    def fold_counts(lam, n):
        """the fold counts written out as the program text computes them -- floor of (lambda-1)/2, the remainder, round-half-even of
        remainder*n/2 -- term for term as the interpreter builds them, so that the shape / product goals are pure congruence; that
        these ARE floor / remainder / round-half-even (independent formulation spec_counts) is the fold-counts obligation"""
        a = lam - z3.RealVal(1)
        folds = z3.ToInt(a / z3.RealVal(2))
        frac = a - z3.ToReal(folds) * z3.RealVal(2)
        y = (frac * z3.ToReal(n)) / z3.RealVal(2)
        return folds, frac, y, code_round(y)

    def gate_count_law(lam, n):
        """pure arithmetic: the exact count n*(1 + 2*folds) + 2k is within 1 of lambda*n"""
        folds, frac, y, k = fold_counts(lam, n)
        d = z3.ToReal(n * (1 + 2 * folds) + 2 * k) - lam * z3.ToReal(n)
        return z3.Implies(z3.And(lam >= 1, n >= 0), z3.And(d <= 1, d >= -1))

    def mult_bound(a, b):
        return z3.Implies(z3.And(a >= 0, a < 2, b >= 0), z3.And(a * b / 2 >= 0, a * b / 2 <= b))
    for nm_, goal_, vs_ in (("arith/round-half-even-model-equals-spec", round_law(yv), [yv]), ("arith/round-range", round_range(yv, nv), [yv, nv]),
                            ("arith/scaled-fraction-bound", mult_bound(av, bv), [av, bv]),
                            ("arith/scale-factor-expansion", expand_scale(yv, av, bv), [yv, av, bv]),
                            ("arith/gate-count-within-one-of-scale-factor-times-n", gate_count_law(yv, nv), [yv, nv])):
        plan.add(lemma("C25", nm_, vs_, goal_))

    def sym_parts(o, r):
        U = o.tape.f["operations"].term
        n = z3.Length(U)
        lam = o.scale_factor.t
        folds, frac, y, k = fold_counts(lam, n)
        return U, n, lam, folds, frac, y, k, ops_of_result(r)

    def native_parts(o, r, nw):
        U = list(nw.tape.operations)            # the tape object the function was called with (operations are compared by identity)
        n = len(U)
        folds, k, F = native_counts(o.scale_factor, n)
        batch, _fn = r
        return U, n, folds, k, F, (list(batch[0].operations) if len(batch) == 1 else None)

    def ens_counts_shape(o, r, nw, part):
        if isinstance(o.tape, Rec):
            U, n, lam, folds, frac, y, k, ops = sym_parts(o, r)
            if ops is None:
                return False
            return ops == shape(U, MA(U), n, folds, k)
        U, n, folds, k, F, ops = native_parts(o, r, nw)
        if ops is None:
            return False

        def sig(op):
            for j, u in enumerate(U):
                if op is u:
                    return ("b", j)
                if getattr(op, "base", None) is u:
                    return ("a", j)
            return ("?", repr(op))
        exp = [("b", j) for j in range(n)] + ([("a", j) for j in reversed(range(n))] + [("b", j) for j in range(n)]) * folds
        if k:
            exp += [("a", j) for j in reversed(range(n - k, n))] + [("b", j) for j in range(n - k, n)]
        import numpy as np
        import pennylane as qp
        same_u = True
        if n and len(ops) <= 80:
            same_u = bool(np.allclose(qp.matrix(qp.tape.QuantumScript(ops), wire_order=[0, 1]), qp.matrix(nw.tape, wire_order=[0, 1])))
        return (folds >= 0 and 0 <= k <= n and [sig(op) for op in ops] == exp and len(ops) == n * (1 + 2 * folds) + 2 * k
                and abs(len(ops) - F * n) <= 1 and same_u)

    def fold_axioms(o, r, nw, loc, kind):
        """instances of the proved lemmas on the terms of this path -- only what the goal of this case needs"""
        U, n, lam, folds, frac, y, k, ops = sym_parts(o, r)
        bounds = [round_law(y), round_range(y, n), mult_bound(frac, z3.ToReal(n))]              # => 0 <= k <= n, |y - k| <= 1/2
        out = [z3.Extract(U, 0, n) == U, len_ma(U), last_k(U, k)] + bounds
        ca = getattr(loc, "adjoints", None)
        if isinstance(ca, SeqV):
            out.append(last_k_reversed(ca.term, k))
        return out

    def real_tape(f):
        import pennylane as qp
        ops = []
        for j, lab_ in enumerate(f.get("operations") or []):
            ops.append([qp.RX(0.3 + 0.1 * j, 0), qp.CNOT([0, 1]), qp.RY(0.2 + 0.07 * j, 1), qp.S(0)][j % 4] if isinstance(lab_, str) else lab_)
        return qp.tape.QuantumScript(ops, [qp.expval(qp.Z(0))])
    def real_channel(f):
        import pennylane as qp
        return qp.DepolarizingChannel(0.1, wires=0)
    w.stub_realize = {"Tape": real_tape, "Channel": real_channel}

    def call_fold(mod, a):
        return mod.fold_global(a["tape"], a["scale_factor"])

    def fix_lambda(rng, m):
        m = dict(m)
        if rng is not None:
            n = rng.randint(0, 6)
            m["scale_factor"] = rng.choice([1.0, 1.5, 2.0, 2.25, 3.0, 3.5, 4.75, 5.0, 1.0 + rng.random() * 5])
            if n and rng.random() < 0.6:
                # stratified over the fold-count domain: every (folds, k) cell with 0 <= k <= n is as likely as any other
                m["scale_factor"] = cell_scale_factor(n, rng.randint(0, 3), rng.randint(0, n), rng.uniform(-0.45, 0.45))
            m["tape"] = {"__class__": "Tape", "operations": [f"L{j}" for j in range(n)]}
        return m

    def cell_scale_factor(n, folds, k, delta):
        """a scale factor whose specification counts are (folds, k):  lambda = 1 + 2*folds + 2*(k + delta)/n,  |delta| < 1/2,
        kept inside the remainder range [0, 2)"""
        frac = min(max(2.0 * (k + delta) / n, 0.0), 2.0 - 1e-9)
        return 1.0 + 2 * folds + frac

    def fold_case(label, ens, kind):
        return Case(label, {"tape": T("rec", "Tape"), "scale_factor": Float},
                    requires=lambda a: (a.scale_factor.t >= 1) if isinstance(a.scale_factor, FloatV) else a.scale_factor >= 1,
                    ensures=ens, axioms=lambda o, r, nw, loc: fold_axioms(o, r, nw, loc, kind),
                    native_gen=fix_lambda, native_call=call_fold)
    fold = FnContract(w, "fold_global", [
        fold_case("any-length-real-scale-factor/shape-of-the-folded-circuit", lambda o, r, nw: ens_counts_shape(o, r, nw, "shape"), "shape")])

    def fold_enumeration():
        """bounded native stand-in (never counted as proved): the REAL fold_global on real tapes for every fold-count cell
        (n, folds, k) with n <= 5, folds <= 2, 0 <= k <= n (three scale factors per cell), judged by the executable contract"""
        from vf.pyvc.contract import replay_case
        case = fold.cases[0]
        cnt = 0
        for n in range(0, 6):
            for folds in range(0, 3):
                for k in range(0, n + 1):
                    for delta in (-0.3, 0.0, 0.3):
                        lam = cell_scale_factor(n, folds, k, delta) if n else 1.0 + 2 * folds + (delta + 0.3)
                        model = {"tape": {"__class__": "Tape", "operations": [f"L{j}" for j in range(n)]}, "scale_factor": lam, "__generated__": True}
                        rp = replay_case(fold, case, model)
                        cnt += 1
                        if rp.get("confirmed"):
                            return Outcome(REFUTED, "native", f"fold_global violates its contract for n_ops={n}, scale_factor={lam!r}",
                                           witness=dict(n_ops=n, scale_factor=lam, folds=folds, partial_fold=k), replay=rp)
                        if rp.get("confirmed") is None:
                            return Outcome(FAULT, "native", f"executable contract did not evaluate for n_ops={n}, scale_factor={lam!r}: {rp.get('note')}")
        return Outcome(DISCHARGED, "native", f"{cnt} real runs: every (n <= 5, folds <= 2, 0 <= k <= n) cell, 3 scale factors each")
    plan.add(Obligation("C25/mitigate:fold_global/native-enumeration-of-fold-count-cells", "post", fold_enumeration, func=(MIT, "fold_global"), bounded=True,
                        timeout=300, sample="real fold_global on real tapes, all (n_ops <= 5, global folds <= 2, partial fold 0..n_ops) cells: "
                        "exact folded word, gate count within 1 of scale*n, same unitary matrix"))

    # ---- consequences of the shape (no program involved): gate count and same unitary ----------------------------------------------
    Uc = z3.Const("U", SL)
    lc = z3.Real("lam")
    nc = z3.Length(Uc)
    fo_, fr_, y_, kk_ = fold_counts(lc, nc)
    Ac = MA(Uc)
    Wc = z3.Concat(REV(Ac), Uc)
    prec, sufc, asufc = z3.Extract(Uc, 0, nc - kk_), z3.Extract(Uc, nc - kk_, kk_), z3.Extract(Ac, nc - kk_, kk_)
    tailc = z3.Concat(REV(asufc), sufc)
    repc = REP(Wc, fo_)
    SH = shape(Uc, Ac, nc, fo_, kk_)
    bounds_c = [lc >= 1, round_law(y_), round_range(y_, nc), mult_bound(fr_, z3.ToReal(nc))]
    sf_, sfr_, sy_, sk_ = spec_counts(lc, nc)
    plan.add(lemma("C25", "counts/the-program-text-counts-are-floor-remainder-and-round-half-even", [Uc, lc],
                   z3.And(fo_ == sf_, fr_ == sfr_, y_ == sy_, kk_ == sk_, fo_ >= 0, z3.ToReal(fo_) <= (lc - 1) / 2, (lc - 1) / 2 < z3.ToReal(fo_) + 1,
                          fr_ >= 0, fr_ < 2, kk_ >= 0, kk_ <= nc, y_ - z3.ToReal(kk_) <= HALF, z3.ToReal(kk_) - y_ <= HALF),
                   assumptions=bounds_c + [round_law(sy_), sy_ == y_],
                   sample="folds == floor((lambda-1)/2), k == round_half_even(frac*n/2), 0 <= k <= n, |frac*n/2 - k| <= 1/2"))
    lnc = z3.Length(SH)
    dc = z3.ToReal(lnc) - lc * z3.ToReal(nc)
    exact_c = lnc == nc * (1 + 2 * fo_) + 2 * kk_
    plan.add(lemma("C25", "consequence/gate-count-of-the-folded-shape-is-exact", [Uc, lc], exact_c,
                   assumptions=bounds_c + [len_ma(Uc), len_rev(Ac), len_rev(asufc), len_rep(Wc, fo_)],
                   sample="len(U ++ (rev(U+) ++ U)^folds ++ tail) == n*(1 + 2*folds) + 2k"))
    # |len - lambda*n| <= 1 then is the arithmetic lemma arith/gate-count-within-one-of-scale-factor-times-n applied to the exact count
    plan.add(lemma("C25", "consequence/same-unitary-of-the-folded-shape", [Uc, lc], EV(SH) == EV(Uc),
                   assumptions=bounds_c + [len_ma(Uc), split_at(Uc, nc - kk_), ma_concat(prec, sufc), len_ma(prec), len_ma(sufc),
                                           inv_word(Uc), inv_word(sufc), ev_rep(Wc, fo_), ev_concat(Uc, z3.Concat(repc, tailc)), ev_concat(Uc, repc),
                                           ev_concat(repc, tailc), ev_concat(Uc, z3.Concat(repc, EMPTY)), EV(EMPTY) == E, MUL(E, E) == E, MUL(EV(Uc), E) == EV(Uc)],
                   sample="product(folded shape) == product(U) in every group where image(adjoint(x)) is the inverse of image(x)"))

    ch = FnContract(w, "fold_global", [
        Case("circuit-with-a-channel-is-rejected",
             {"tape": T("build", lambda ctx, name: Rec(w.classes["Tape"], {"operations": PyList([z3.Const(ctx.fresh_name("op"), LabelSort),
                                                                                                 Rec(w.classes["Channel"], {})])}),
                        gen=lambda rng: {"__class__": "Tape", "operations": ["L0", {"__class__": "Channel"}]}), "scale_factor": T("const", 3.0)},
             ensures=lambda o, r, nw: False, raises={"ValueError": lambda o: True}, size_bounded=True, native_call=call_fold)])
    dm = FnContract(w, "_divmod", [
        Case("divisor-2", {"a": Float, "b": T("const", 2)},
             ensures=lambda o, r, nw: And(isinstance(r, tuple) and len(r) == 2, r[0] == z3.ToInt(o.a.t / 2), r[1].t == o.a.t - 2 * z3.ToReal(z3.ToInt(o.a.t / 2)),
                                          r[1].t >= 0, r[1].t < 2) if isinstance(o.a, FloatV)
             else (r[0] == pymath.floor(Fraction(o.a) / 2) and abs(r[1] - (o.a - 2 * r[0])) < 1e-12 and 0 <= r[1] < 2))])
    def hyps_consistent(snapshot=tuple(LEMMA_HYPS)):
        bad = []
        from vf.pyvc.engine import set_budget
        for name, asm in snapshot:
            sv = z3.Solver()
            set_budget(sv, 4000)
            # the quantified group axioms (satisfied by the trivial group) are left out: with them z3 only answers `unknown`, slowly
            sv.add(*[h for h in asm if not z3.is_quantifier(h)])
            if sv.check() == z3.unsat:
                bad.append(name)
        if bad:
            return Outcome(FAULT, "z3", f"contradictory lemma hypotheses: {bad}")
        return Outcome(DISCHARGED, "z3", f"hypotheses of {len(snapshot)} lemmas are not refutable (sat / unknown with quantified group axioms)")
    plan.add(Obligation("C25/lemma-hypotheses-are-consistent", "lemma", hyps_consistent, bounded=True, timeout=240,
                        sample="no lemma is proved from contradictory hypotheses"))

    for fc in (fold, ch, dm):
        for case in fc.cases:
            case.interp_cls = FoldInterp
        for ob in obligations_for("C25", fc, tier):
            plan.add(ob)
        plan.fn_under_contract(MIT, fc.qualname)
    # ---- the extrapolators: real bodies on exact symbolic scalars (E2, sympy-backed), enumerated (points, order) shapes -------------
    shapes = [(1, 0), (2, 0), (3, 0), (2, 1), (3, 1), (4, 1), (3, 2)] + ([(4, 2), (5, 1)] if tier != "quick" else [])
    for n_, o_ in shapes:
        plan.add(Obligation(f"C25/mitigate:_polyfit/exact-on-polynomial-data/points-{n_}-order-{o_}", "post",
                            (lambda n_=n_, o_=o_: polyfit_symbolic(n_, o_)), func=(MIT, "_polyfit"), size_bounded=True, timeout=600,
                            sample=f"real _polyfit / poly_extrapolate" + (" / richardson_extrapolate" if o_ == n_ - 1 else "") +
                            f" on {n_} symbolic abscissae and the values of a symbolic polynomial of degree <= {o_}: returned coefficients "
                            "(and f(0)) are the polynomial's, for all real abscissae / coefficients"))
    for q_ in ("_polyfit", "poly_extrapolate", "richardson_extrapolate"):
        plan.fn_under_contract(MIT, q_)

    def extrapolators_native():
        rp, runs = native_extrapolator_search()
        if rp is not None:
            return Outcome(REFUTED, "native", f"{rp['function']} is not exact on data that follow its model", witness=dict(function=rp["function"], inputs=rp["inputs"]),
                           replay=rp)
        return Outcome(DISCHARGED, "native", f"{runs} real float runs within tolerance")
    plan.add(Obligation("C25/mitigate:poly_extrapolate/native-exactness-on-model-data", "post", extrapolators_native, func=(MIT, "poly_extrapolate"),
                        bounded=True, timeout=300, sample="real _polyfit / poly_extrapolate / richardson_extrapolate / exponential_extrapolate in binary64 on "
                        "polynomial data (<= 6 points, every order < points, every degree <= order, 5 grids) and decaying-exponential data"))
    plan.add(Obligation("C25/add_noise:add_noise/native-enumeration-of-conditional-selections-and-readout-groupings", "post", add_noise_enumeration,
                        func=("pennylane/noise/add_noise.py", "add_noise"), bounded=True, timeout=400,
                        sample="real add_noise on real tapes: exact channels at the selected positions, every measurement carried once with its readout "
                        "channels, post-processing returns result i at position i (all orderings of <= 4 of 6 observables), zero-strength == noiseless"))

    plan.trusted_base += ["vf/symx/sscalar (sympy-backed exact scalars; rational-function normal form with named sqrt / Abs atoms)", "sympy Matrix.inv / together / expand"]
    plan.assumptions += ["A-float-as-real also for the extrapolators: dtype conversions (convert_like / cast_like) are value-preserving, sqrt is the exact root",
                         "extrapolators: the abscissae are generic (pairwise distinct, so that the normal matrix is nonsingular; not all zero): equalities are "
                         "decided as rational functions"]
    plan.assumed_contracts += ["numpy.linalg.pinv(A) with a cut-off at round-off level (the default) is the inverse of a nonsingular A; called with a larger "
                               "cut-off the contract does not apply (the obligation then falls back to the native search and is refuted or undecided)"]
    plan.dropped += ["_polyfit is traced with its module global `math` replaced by a model that overrides convert_like, cast_like, sqrt, linalg.pinv/inv only"]
    plan.size_bounds = ["the channel-rejection case uses a 2-operation circuit (the any() test is element-wise)",
                        "extrapolators (symbolic): (points, order) in " + str(shapes) + "; abscissae, coefficients symbolic",
                        "extrapolators (native stand-in, bounded): <= 6 points on 5 grids, all orders < points, tolerance 1e-6 * max(1, max|y|); "
                        "exponential data A*exp(B*x) (+ C with asymptote=C), B < 0",
                        "fold_global native stand-in (bounded): n_ops <= 5, global folds <= 2, every partial fold 0..n_ops",
                        "add_noise native stand-in (bounded): 3 circuits on 3 wires, subsets of 2 gate rules and 2 readout rules, every ordering of <= 4 "
                        "(120 of 5) of 6 expval observables, strengths 0 and 0.15; 1 in 61 inputs also executed on default.mixed"]
    plan.unverified = ["add_noise: no deductive obligation (closures, lru_cache, make_qscript are outside E1); only the bounded native enumeration above; "
                       "insert (positions), noise-model construction and the conditionals themselves are not covered",
                       "the extrapolators in binary64 (SVD-based pinv, conditioning) beyond the bounded native runs; fits with more points / higher order than "
                       "the enumerated shapes; exponential_extrapolate symbolically (sign / where / log)",
                       "mitigate_with_zne orchestration; fold_global on QNodes (transform dispatch)",
                       "binary64 rounding of the scale-factor arithmetic; scale factors < 1"]
    return plan
