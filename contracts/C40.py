"""C40 Circuit parameter bookkeeping is consistent.

Abstract view of a QuantumScript:  P = concat(op.data for op in operations) ++ concat(m.obs.data for m in measurements
if m.obs is not None) -- "the parameter list" -- and `trainable`, a strictly increasing list of indices into P.

(A) E1, size-bounded in the circuit SHAPE, complete in values: the real methods of core/qscript.py (par_info, trainable_params
    getter + setter, num_params, get_operation, get_parameters, data, bind_new_parameters, copy) are executed from their AST on
    circuits of every enumerated shape (number of operations / measurements, number of parameters of each), with every
    parameter VALUE, every operator identity and every index symbolic.  Operators and measurement processes are abstract
    records (stubs: `data`, identity; `obs`) -- they are inputs, not code under contract.  The per-operator
    `bind_new_parameters` dispatch is a callee with the contract "same operator, data replaced", which part (B) checks.
(B) E2: the real `qp.ops.functions.bind_new_parameters` dispatch is run on every operator configuration of the C10 instance
    space with SYMBOLIC new parameters; the matrix of the re-bound operator equals the matrix of the operator constructed
    directly with those parameters (for all parameter values), and type / wires / hyperparameters are preserved.
"""
import itertools

import z3

from vf.common import Plan, Obligation, Outcome, DISCHARGED, REFUTED, UNDECIDED, FAULT
from vf.pyvc.engine import World, T, Int, Label, LabelSort, NoneT, Rec, PyList, Unsupp, RaiseExc, to_int_term
from vf.pyvc.contract import FnContract, Case, obligations_for
from vf.pyvc import spec as S
from vf.pyvc.spec import And, Or, Not, Implies, If

QS = "pennylane/core/qscript.py"

STUB_OP = "class Operator:\n    pass\n"
STUB_MP = "class MeasurementProcess:\n    def __init__(self, obs=None):\n        self.obs = obs\n"

# circuit shapes: (parameter count of each operation, per measurement: None = no observable / parameter count of its observable)
SHAPES_QUICK = [((), ()), ((1,), ()), ((2,), (None,)), ((0, 1), (0,)), ((1, 0, 2), (None, 1)), ((2, 1), (2, None)),
                ((1, 1), (1, 2)), ((), (2,)), ((3,), (0, None))]
SHAPES_MORE = [((1, 1, 1), (1,)), ((0, 0), (None,)), ((2, 0, 1), (1, 0, 1)), ((1, 2, 0, 1), ())]


def lab_val(s):
    """replay: abstract parameter label 'L<k>' -> a float, injectively"""
    k = int(str(s)[1:]) if str(s)[1:].lstrip("-").isdigit() else (abs(hash(str(s))) % 997)
    return 0.05 + 0.1 * k


def build(tier, seed):
    plan = Plan("C40", level="other")        # every obligation is size-bounded (all values, enumerated shapes): not a proof of the unbounded statement
    plan.explanation = ("(A) QuantumScript's parameter bookkeeping methods are executed from the real AST on circuits of enumerated "
                        "shapes with symbolic parameter values / identities / indices (size-bounded in shape, complete in values); "
                        "all VCs are quantifier-free, so refutations come with models that are replayed on real tapes. "
                        "(B) the per-operator bind_new_parameters dispatch is run on symbolic parameters for every operator "
                        "configuration of the C10 instance space and compared exactly (Laurent normal form).")
    plan.trusted_base = ["vf/pyvc encoder (Python subset semantics)", "z3 (QF_UFLIA)", "vf/symx exact ring for part (B)"]
    plan.assumptions = ["operators / measurement processes are abstract records (data tuple, identity; obs): inputs, not code",
                        "python's set iteration order is unspecified: list(set) is ANY enumeration (a result that depends on it is refuted)",
                        "cached_property par_info is read as a property (the scripts under contract are not mutated after construction)"]
    plan.assumed_contracts = ["ops.functions.bind_new_parameters(op, params): same operator with data == params "
                              "(checked per operator configuration in part B, not for every operator class)",
                              "Shots(shots) returns an equal Shots object", "copy.copy(op): fresh object, same fields"]
    plan.dropped = ["docstrings, annotations", "caching of par_info (cached_property)"]
    shapes = SHAPES_QUICK + (SHAPES_MORE if tier == "thorough" else [])
    plan.size_bounds.append(f"circuit shapes (params per operation, params per measurement observable / None): {shapes}; "
                            "trainable lists of length 0..2 (+ unset), bind index lists of length 0..2; values unbounded")

    def bind_op(it, args, kw):
        op, new_params = args[0], args[1]
        items = list(new_params.items) if isinstance(new_params, PyList) else list(new_params)
        it.ctx.prove(len(items) == len(op.f["data"]), "callee-pre:bind_new_parameters/len(params)==len(op.data)")
        return Rec(op.cls, {"data": tuple(items), "ident": op.f["ident"]})

    class FSet(PyList):
        """python set built from a concrete-length list: items pairwise distinct on this path"""

    def b_set(it, args, kw):
        if not args:
            return FSet([])
        out = []
        for x in it.iter_concrete(args[0]):
            if not any(it.ctx.branch(it.truthy(it.equal(x, y))) for y in out):
                out.append(x)
        return FSet(out)

    def b_list(it, args, kw):
        if args and isinstance(args[0], FSet):
            items = list(args[0].items)
            perms = list(itertools.permutations(range(len(items))))
            if len(perms) > 1:
                c = z3.Int(it.ctx.fresh_name("set_order"))
                it.ctx.assume(z3.And(c >= 0, c < len(perms)))
                it.ctx.havocked = True
                for k, pm in enumerate(perms[:-1]):
                    if it.ctx.branch(c == k):
                        return PyList([items[j] for j in pm])
                return PyList([items[j] for j in perms[-1]])
            return PyList(items)
        return it.b_list(args, kw, None)

    w = World(QS, classes={"QuantumScript": {"_ops": Int}},
              stubs={"Operator": (STUB_OP, {"ident": Label}), "MeasurementProcess": (STUB_MP, {"ident": Label})},
              extra_builtins={"bind_new_parameters": bind_op, "Shots": lambda it, a, k: a[0], "set": b_set, "list": b_list})
    OP, MP, QSC = w.classes["Operator"], w.classes["MeasurementProcess"], w.classes["QuantumScript"]

    # ---- replay: abstract records -> real tapes -----------------------------------------------------------------------------
    def real_op(f):
        import pennylane as qp
        vals = [x if isinstance(x, float) else lab_val(x) for x in f["data"]]
        wire = int(str(f.get("ident", "L0"))[1:]) % 7 if str(f.get("ident", "L0"))[1:].isdigit() else 0
        if len(vals) == 0:
            return qp.Hadamard(wire)
        if len(vals) == 1:
            return qp.RX(vals[0], wire)
        if len(vals) == 2:
            return qp.U2(vals[0], vals[1], wire)
        return qp.Rot(vals[0], vals[1], vals[2], wire)

    def real_obs(op):
        import pennylane as qp
        d = list(op.data)
        w0 = op.wires[0]
        if len(d) == 0:
            return qp.Z(w0)
        if len(d) == 1:
            return qp.s_prod(d[0], qp.Z(w0))
        return qp.Hamiltonian(d[:2], [qp.Z(w0), qp.X(w0 + 1)])

    def real_mp(f):
        import pennylane as qp
        if f.get("obs") is None:
            return qp.probs(wires=[0])
        return qp.expval(real_obs(f["obs"]))

    def real_script(f):
        import pennylane as qp
        from pennylane.core.shots import Shots
        sc = object.__new__(qp.tape.QuantumScript)
        sc._ops = list(f["_ops"])
        sc._measurements = list(f["_measurements"])
        sc._trainable_params = None if f.get("_trainable_params") is None else list(f["_trainable_params"])
        sc._shots = Shots(None if f.get("_shots") in (None, "none") else 1 + int(str(f["_shots"])[1:]) % 50)
        sc._graph, sc._specs, sc._batch_size = None, None, -1
        sc._obs_sharing_wires, sc._obs_sharing_wires_id = None, None
        if "hash" in f:
            _ = sc.hash                 # memoise the fingerprint, as an earlier cached execution would have done
            _ = sc.graph                # ... and the circuit graph (tape.specs / drawing)
        return sc
    w.stub_realize = {"Operator": real_op, "MeasurementProcess": real_mp, "QuantumScript": real_script}

    # ---- symbolic circuits ---------------------------------------------------------------------------------------------------
    def script_t(shape, trainable, memo=False):
        """trainable: None (unset) or an int = length of the stored index list (symbolic entries); memo: the cached_property `hash`
        has been evaluated before (its value sits in the instance __dict__)"""
        ops_l, meas_l = shape

        def mk(ctx, name):
            def op(tag, n):
                return Rec(OP, {"data": tuple(z3.Const(ctx.fresh_name(f"{tag}.p{j}"), LabelSort) for j in range(n)),
                                "ident": z3.Const(ctx.fresh_name(f"{tag}.id"), LabelSort)})
            ops = [op(f"op{i}", n) for i, n in enumerate(ops_l)]
            meas = [Rec(MP, {"obs": None if n is None else op(f"obs{i}", n)}) for i, n in enumerate(meas_l)]
            tp = None if trainable is None else PyList([z3.Int(ctx.fresh_name(f"tr{j}")) for j in range(trainable)])
            r = Rec(QSC, {"_ops": PyList(ops), "_measurements": PyList(meas), "_trainable_params": tp,
                          "_shots": z3.Const(ctx.fresh_name("shots"), LabelSort), "_graph": None, "_specs": None,
                          "_batch_size": -1, "_obs_sharing_wires": None, "_obs_sharing_wires_id": None})
            if memo:
                r.f["hash"] = z3.Const(ctx.fresh_name("memoised_hash"), LabelSort)
                r.f["_graph"] = z3.Const(ctx.fresh_name("memoised_graph"), LabelSort)
            return r

        def gen(rng):
            def op(n):
                return {"__class__": "Operator", "data": tuple(f"L{rng.randint(0, 40)}" for _ in range(n)), "ident": f"L{rng.randint(0, 5)}"}
            npar = sum(ops_l) + sum(n or 0 for n in meas_l)
            tp = None if trainable is None else sorted(rng.sample(range(max(npar, 1)), min(trainable, max(npar, 1))))
            d = {"__class__": "QuantumScript", "_ops": [op(n) for n in ops_l],
                 "_measurements": [{"__class__": "MeasurementProcess", "obs": None if n is None else op(n)} for n in meas_l],
                 "_trainable_params": tp, "_shots": f"L{rng.randint(0, 9)}"}
            if memo:
                d["hash"] = "L0"
            return d
        return T("build", mk, gen=gen)

    def int_list_t(n, lo=-2, hi=9):
        return T("build", lambda ctx, name: PyList([z3.Int(ctx.fresh_name(f"{name}{j}")) for j in range(n)]),
                 gen=lambda rng: [rng.randint(lo, hi) for _ in range(n)])

    def lab_list_t(n):
        return T("build", lambda ctx, name: PyList([z3.Const(ctx.fresh_name(f"{name}{j}"), LabelSort) for j in range(n)]),
                 gen=lambda rng: [f"L{rng.randint(50, 90)}" for _ in range(n)])

    # ---- polymorphic view ------------------------------------------------------------------------------------------------------
    def sym(x):
        return isinstance(x, Rec)

    def items(v):
        return list(v.items) if isinstance(v, PyList) else list(v)

    def ops_of(s):
        return items(s.f["_ops"]) if sym(s) else list(s._ops)

    def meas_of(s):
        return items(s.f["_measurements"]) if sym(s) else list(s._measurements)

    def data_of(op):
        return list(op.f["data"]) if sym(op) else list(op.data)

    def obs_of(m):
        return m.f["obs"] if sym(m) else m.obs

    def stored_trainable(s):
        t = s.f["_trainable_params"] if sym(s) else s._trainable_params
        return None if t is None else items(t)

    def has_memo(s):
        return ("hash" in s.f) if sym(s) else ("hash" in s.__dict__)

    def memo_of(s):
        return s.f["hash"] if sym(s) else s.__dict__["hash"]

    def shots_of(s):
        return s.f["_shots"] if sym(s) else s._shots

    def owners(s):
        """[(operator carrying the parameter, circuit position, parameter position)] in parameter order"""
        out = []
        for j, op in enumerate(ops_of(s)):
            out += [(op, j, i) for i in range(len(data_of(op)))]
        n = len(ops_of(s))
        for j, m in enumerate(meas_of(s)):
            if obs_of(m) is not None:
                out += [(obs_of(m), n + j, i) for i in range(len(data_of(obs_of(m))))]
        return out

    def P(s):
        return [data_of(op)[i] for op, _, i in owners(s)]

    def n_op_params(s):
        return sum(len(data_of(op)) for op in ops_of(s))

    def eq(a, b):
        r = a == b
        return r if isinstance(r, (bool, z3.ExprRef)) else bool(r)

    def list_eq(a, b):
        a, b = items(a), items(b)
        if len(a) != len(b):
            return False
        return And(True, *[eq(x, y) for x, y in zip(a, b)])

    def same_objs(a, b):
        a, b = items(a), items(b)
        return len(a) == len(b) and all(S.same_object(x, y) for x, y in zip(a, b))

    def strictly_increasing(xs):
        xs = items(xs)
        return And(True, *[xs[i] < xs[i + 1] for i in range(len(xs) - 1)])

    def in_range(xs, n):
        return And(True, *[And(x >= 0, x < n) for x in items(xs)])

    def valid_trainable(s):
        """class invariant: the stored trainable list is unset, or strictly increasing indices into P"""
        t = stored_trainable(s)
        return True if t is None else And(strictly_increasing(t), in_range(t, len(P(s))))

    def trainable(s):
        t = stored_trainable(s)
        return list(range(len(P(s)))) if t is None else t

    def select(seq, idx):
        """seq[idx] for a symbolic index into a concrete list (caller guarantees the range)"""
        seq = items(seq)
        if not isinstance(idx, z3.ExprRef):
            return seq[idx]
        r = seq[-1]
        for k in range(len(seq) - 2, -1, -1):
            r = S.If(idx == k, seq[k], r)
        return r

    def unchanged(o, n):
        """the script the method was called on is not modified"""
        return And(same_objs(ops_of(o), ops_of(n)), same_objs(meas_of(o), meas_of(n)),
                   list_eq(P(o), P(n)),
                   (stored_trainable(o) is None) == (stored_trainable(n) is None) if stored_trainable(o) is None or stored_trainable(n) is None
                   else list_eq(stored_trainable(o), stored_trainable(n)))

    contracts = []

    def add(qual, cases, setter=False):
        contracts.append(FnContract(w, qual, cases, setter=setter))

    TR = [None, 0, 1, 2]
    for si, shape in enumerate(shapes):
        tag = f"ops{list(shape[0])}-meas{list(shape[1])}".replace(" ", "").replace("None", "-")
        npar = sum(shape[0]) + sum(n or 0 for n in shape[1])

        # par_info: entry k names the operator, circuit position and slot of parameter k
        def par_info_post(o, r, n):
            r = items(r)
            own = owners(o.self)
            return And(len(r) == len(own), *[And(S.same_object(r[k]["op"], own[k][0]), eq(r[k]["op_idx"], own[k][1]), eq(r[k]["p_idx"], own[k][2]))
                                             for k in range(min(len(r), len(own)))])
        add("QuantumScript.par_info", [Case(tag, {"self": script_t(shape, None)}, ensures=par_info_post, size_bounded=True)])

        for tr in TR:
            if tr is not None and tr > npar:
                continue
            ttag = f"{tag}/trainable-{'unset' if tr is None else tr}"
            # getter: all parameters when unset, the stored list otherwise; afterwards the stored list is set and valid
            add("QuantumScript.trainable_params", [Case(ttag, {"self": script_t(shape, tr)}, requires=lambda a: valid_trainable(a.self),
                ensures=lambda o, r, n: And(list_eq(r, trainable(o.self)), valid_trainable(n.self), list_eq(P(o.self), P(n.self))),
                size_bounded=True)])
            add("QuantumScript.num_params", [Case(ttag, {"self": script_t(shape, tr)}, requires=lambda a: valid_trainable(a.self),
                ensures=lambda o, r, n: eq(r, len(trainable(o.self))), size_bounded=True)])

            # get_parameters
            def gp_post(o, r, n, trainable_only=True, operations_only=False):
                p, t = P(o.self), trainable(o.self)
                nop = n_op_params(o.self)
                r = items(r)
                if not trainable_only:
                    want = p[:nop] if operations_only else p
                    return list_eq(r, want)
                if not operations_only:
                    return And(len(r) == len(t), *[eq(r[k], select(p, t[k])) for k in range(min(len(r), len(t)))])
                # trainable operation parameters only: result length = number of trainable indices below nop
                cnt = sum([S.If(x < nop, 1, 0) if isinstance(x, z3.ExprRef) else int(x < nop) for x in t]) if t else 0
                conj = [eq(len(r), cnt)]
                # strictly increasing trainable list: the k-th result is P[t[k]] for the indices below nop (a prefix of t)
                conj += [Implies(t[k] < nop, eq(r[k], select(p, t[k]))) for k in range(min(len(r), len(t)))]
                return And(*conj)
            for to, oo in ((True, False), (False, False), (True, True), (False, True)):
                add("QuantumScript.get_parameters", [Case(f"{ttag}/trainable_only={to},operations_only={oo}",
                    {"self": script_t(shape, tr), "trainable_only": T("const", to), "operations_only": T("const", oo)},
                    requires=lambda a: valid_trainable(a.self),
                    ensures=lambda o, r, n, to=to, oo=oo: And(gp_post(o, r, n, to, oo), unchanged_mod_trainable(o.self, n.self)),
                    size_bounded=True)])
            if tr is not None or npar <= 3:
                add("QuantumScript.data", [Case(ttag, {"self": script_t(shape, tr)}, requires=lambda a: valid_trainable(a.self),
                    ensures=lambda o, r, n: list_eq(r, P(o.self)), size_bounded=True)])

            # get_operation(idx): the operator / position / slot of the idx-th TRAINABLE parameter
            nt = npar if tr is None else tr
            if nt > 0:
                def go_post(o, r, n):
                    t, own = trainable(o.self), owners(o.self)
                    k = select(t, o.idx)
                    conj = []
                    for j, (op_, pos, slot) in enumerate(own):
                        conj.append(Implies(eq(k, j), And(S.same_object(r[0], op_), eq(r[1], pos), eq(r[2], slot))))
                    return And(*conj)
                add("QuantumScript.get_operation", [Case(ttag, {"self": script_t(shape, tr), "idx": Int},
                    requires=lambda a, nt=nt: And(valid_trainable(a.self), a.idx >= 0, a.idx < nt), ensures=go_post, size_bounded=True,
                    native_gen=lambda rng, m, nt=nt: dict(m, idx=m["idx"] % nt))])

        # setter: stores the sorted duplicate-free index set; rejects everything that is not an index into P
        for k in (0, 1, 2, 3):
            def set_post(o, r, n):
                new = stored_trainable(n.self)
                given = items(o.param_indices)
                return And(new is not None, strictly_increasing(new), in_range(new, len(P(o.self))),
                           *[Or(False, *[eq(x, y) for y in new]) for x in given],
                           *[Or(False, *[eq(x, y) for y in given]) for x in new],
                           same_objs(ops_of(o.self), ops_of(n.self)), list_eq(P(o.self), P(n.self)))

            def bad(o, npar=npar):
                return Or(False, *[Or(x < 0, x >= npar) for x in items(o.param_indices)])
            add("QuantumScript.trainable_params", [Case(f"{tag}/set-{k}-indices", {"self": script_t(shape, None), "param_indices": int_list_t(k)},
                ensures=set_post, raises={"ValueError": bad}, must_return=lambda o, bad=bad: Not(bad(o)), size_bounded=True,
                native_call=lambda mod, a: (setattr(a["self"], "trainable_params", a["param_indices"]), None)[1])], setter=True)

        # bind_new_parameters(params, indices)
        for k in (0, 1, 2):
            if k > npar:
                continue
            for tr in (None, 1 if npar >= 1 else 0):
                def bind_pre(a, npar=npar):
                    return And(valid_trainable(a.self), strictly_increasing(a.indices), in_range(a.indices, npar))

                def bind_post(o, r, n):
                    p_old, p_new = P(o.self), P(r)
                    idx, par = items(o.indices), items(o.params)
                    conj = [len(ops_of(r)) == len(ops_of(o.self)), len(meas_of(r)) == len(meas_of(o.self)), len(p_new) == len(p_old)]
                    for i in range(min(len(p_new), len(p_old))):
                        want = p_old[i]
                        for j in range(len(idx) - 1, -1, -1):
                            want = S.If(eq(idx[j], i), par[j], want)
                        conj.append(eq(p_new[i], want))
                    # operators without a re-bound parameter are passed through (same objects); re-bound ones keep their identity
                    own = owners(o.self)
                    circ_old, circ_new = ops_of(o.self) + meas_of(o.self), ops_of(r) + meas_of(r)
                    for pos in range(min(len(circ_old), len(circ_new))):
                        mine = [i for i, (_, q, _) in enumerate(own) if q == pos]
                        touched = Or(False, *[eq(x, i) for x in idx for i in mine])
                        conj.append(Implies(Not(touched), S.same_object(circ_new[pos], circ_old[pos])))
                        conj.append(same_identity(circ_old[pos], circ_new[pos]))
                    # the trainable indices carry over, the shots carry over, the original is untouched
                    conj.append(list_eq(trainable(r), trainable(o.self)))
                    conj.append(valid_trainable(r))
                    conj.append(eq(shots_of(r), shots_of(o.self)))
                    conj.append(unchanged_mod_trainable(o.self, n.self))
                    conj.append(ops_list_fresh(r, n.self))
                    return And(*conj)
                add("QuantumScript.bind_new_parameters", [Case(f"{tag}/bind-{k}-of-{npar}/trainable-{'unset' if tr is None else tr}",
                    {"self": script_t(shape, tr), "params": lab_list_t(k), "indices": int_list_t(k, 0, max(npar - 1, 0))},
                    requires=bind_pre, ensures=bind_post, size_bounded=True,
                    native_gen=lambda rng, m, npar=npar, k=k: dict(m, indices=sorted(rng.sample(range(npar), k)) if npar >= k else m["indices"]),
                    native_call=lambda mod, a: a["self"].bind_new_parameters([lab_val(x) for x in a["params"]], a["indices"]))])
            if k >= 1:
                add("QuantumScript.bind_new_parameters", [Case(f"{tag}/bind-length-mismatch-{k}", {"self": script_t(shape, None), "params": lab_list_t(k - 1),
                                                                                                      "indices": int_list_t(k, 0, max(npar - 1, 0))},
                    ensures=lambda o, r, n: False, raises={"ValueError": lambda o: True}, size_bounded=True)])

        # copy
        if si < 6 or tier == "thorough":
            for tr in (None, min(1, npar)):
                for label, kw in (("plain", {}), ("copy_operations", {"copy_operations": True}), ("shots", {"shots": "S"}),
                                  ("trainable_params", {"trainable_params": "T"}), ("operations", {"operations": "O"}),
                                  ("ops", {"ops": "O"}), ("measurements", {"measurements": "M"}),
                                  ("operations+measurements", {"operations": "O", "measurements": "M"}),
                                  ("operations-empty", {"operations": "E"}), ("measurements-empty", {"measurements": "E"})):
                    if "trainable_params" in kw and npar == 0:
                        continue        # no valid index to hand over on a parameter-free circuit
                    params = {"self": script_t(shape, tr, memo=(si in (1, 4) and tr is None))}
                    if "copy_operations" in kw:
                        params["copy_operations"] = T("const", True)
                    upd = {}
                    new_shape_ops, new_shape_meas = (1, 0), (None, 1)     # replacement lists: two operations / two measurements
                    if kw.get("operations") == "E":
                        new_shape_ops = ()                                # ... or an EMPTY list (falsy: `if update.get(...)` traps)
                    if kw.get("measurements") == "E":
                        new_shape_meas = ()
                    if "shots" in kw:
                        params["new_shots"] = Label
                        upd["shots"] = "new_shots"
                    if "trainable_params" in kw:
                        params["new_trainable"] = int_list_t(1, 0, max(npar - 1, 0))
                        upd["trainable_params"] = "new_trainable"
                    if "operations" in kw or "ops" in kw:
                        params["new_ops"] = T("build", lambda ctx, name, new_shape_ops=new_shape_ops: PyList([Rec(OP, {"data": tuple(z3.Const(ctx.fresh_name(f"nop{i}.p{j}"), LabelSort) for j in range(c)),
                                                                                           "ident": z3.Const(ctx.fresh_name(f"nop{i}.id"), LabelSort)})
                                                                                  for i, c in enumerate(new_shape_ops)]),
                                              gen=lambda rng, new_shape_ops=new_shape_ops: [{"__class__": "Operator", "data": tuple(f"L{rng.randint(100, 140)}" for _ in range(c)), "ident": f"L{rng.randint(0, 5)}"}
                                                               for c in new_shape_ops])
                        upd["ops" if "ops" in kw else "operations"] = "new_ops"
                    if "measurements" in kw:
                        params["new_meas"] = T("build", lambda ctx, name, new_shape_meas=new_shape_meas: PyList([Rec(MP, {"obs": None if c is None else Rec(OP, {
                            "data": tuple(z3.Const(ctx.fresh_name(f"nobs{i}.p{j}"), LabelSort) for j in range(c)),
                            "ident": z3.Const(ctx.fresh_name(f"nobs{i}.id"), LabelSort)})}) for i, c in enumerate(new_shape_meas)]),
                                               gen=lambda rng, new_shape_meas=new_shape_meas: [{"__class__": "MeasurementProcess", "obs": None if c is None else
                                                                 {"__class__": "Operator", "data": tuple(f"L{rng.randint(150, 190)}" for _ in range(c)), "ident": f"L{rng.randint(0, 5)}"}}
                                                                for c in new_shape_meas])
                        upd["measurements"] = "new_meas"

                    def copy_post(o, r, n, upd=upd, kw=kw):
                        new_ops = getattr(o, upd["operations"]) if "operations" in upd else (getattr(o, upd["ops"]) if "ops" in upd else None)
                        new_meas = getattr(o, upd["measurements"]) if "measurements" in upd else None
                        conj = [unchanged_mod_trainable(o.self, n.self), ops_list_fresh(r, n.self), valid_trainable(r)]
                        # C05: a memoised fingerprint may only travel with the copy when operations, measurements, trainable
                        # indices and shots are all the original's (the fingerprint is a function of exactly these)
                        # a memoised circuit graph is a function of operations and measurements: it may only travel with a
                        # plain copy (no update, operators not re-created)
                        g_new = r.f.get("_graph") if sym(r) else r._graph
                        g_old = o.self.f.get("_graph") if sym(o.self) else o.self._graph
                        if set(upd) & {"operations", "ops", "measurements"}:
                            conj.append(g_new is None)                  # the circuit changed: no stale graph, also for EMPTY replacement lists
                        else:
                            conj.append(g_new is None or (g_old is not None and (eq(g_new, g_old) if sym(r) else (g_new is g_old or getattr(g_old, "_vf_origin", g_old) is g_new))))
                        if has_memo(r):
                            conj.append(has_memo(o.self) and eq(memo_of(r), memo_of(o.self)) and not (set(upd) & {"shots", "trainable_params", "operations", "ops", "measurements"}))
                        deep = bool(kw)       # copy_operations=True or any update: operators are shallow-copied
                        if new_ops is not None:
                            conj.append(same_objs(ops_of(r), items(new_ops)))
                        elif deep:
                            conj += [len(ops_of(r)) == len(ops_of(o.self))] + [And(same_identity(a_, b_), list_eq(data_of(a_), data_of(b_)))
                                                                                 for a_, b_ in zip(ops_of(r), ops_of(o.self))]
                        else:
                            conj.append(same_objs(ops_of(r), ops_of(o.self)))
                        if new_meas is not None:
                            conj.append(same_objs(meas_of(r), items(new_meas)))
                        elif deep:
                            conj.append(len(meas_of(r)) == len(meas_of(o.self)))
                            conj.append(list_eq(P(r)[n_op_params(r):], P(o.self)[n_op_params(o.self):]))
                        else:
                            conj.append(same_objs(meas_of(r), meas_of(o.self)))
                        conj.append(eq(shots_of(r), getattr(o, upd["shots"])) if "shots" in upd else eq(shots_of(r), shots_of(o.self)))
                        if "trainable_params" in upd:
                            conj.append(list_eq(trainable(r), items(getattr(o, upd["trainable_params"]))))
                        elif new_ops is None and new_meas is None:
                            conj.append(list_eq(trainable(r), trainable(o.self)))
                        else:
                            conj.append(list_eq(trainable(r), list(range(len(P(r))))))     # recomputed: all parameters
                        return And(*conj)

                    def copy_pre(a, upd=upd, npar=npar):
                        c = [valid_trainable(a.self)]
                        if "trainable_params" in upd:
                            c.append(in_range(getattr(a, upd["trainable_params"]), npar))
                        return And(*c)

                    def copy_call(mod, a, upd=upd, kw=kw):
                        kws = {k_: a[v_] for k_, v_ in upd.items()}
                        if "shots" in kws:
                            from pennylane.core.shots import Shots
                            kws["shots"] = Shots(1 + int(str(kws["shots"])[1:]) % 50) if str(kws["shots"])[1:].isdigit() else Shots(3)
                            a["new_shots"] = kws["shots"]
                        return a["self"].copy(**({"copy_operations": True} if "copy_operations" in kw else {}), **kws)

                    add("QuantumScript.copy", [Case(f"{tag}/{label}/trainable-{'unset' if tr is None else tr}", params, requires=copy_pre,
                                                    ensures=copy_post, size_bounded=True, native_call=copy_call, kwargs_map=dict(upd))])
            add("QuantumScript.copy", [Case(f"{tag}/unexpected-key", {"self": script_t(shape, None), "bogus": Label}, ensures=lambda o, r, n: False,
                                            raises={"TypeError": lambda o: True}, size_bounded=True,
                                            native_call=lambda mod, a: a["self"].copy(bogus=1), kwargs_map={"bogus": "bogus"})])

    def same_identity(a, b):
        """re-bound / copied operator is the same operator up to its data (measurement: same kind, observable likewise)"""
        if sym(a) != sym(b):
            return False
        if sym(a):
            if a.cls is not b.cls:
                return False
            if a.cls is MP:
                oa, ob = obs_of(a), obs_of(b)
                return (oa is None and ob is None) or (oa is not None and ob is not None and same_identity(oa, ob))
            return eq(a.f["ident"], b.f["ident"])
        if type(a) is not type(b):
            return False
        if hasattr(a, "obs") and not hasattr(a, "data"):
            return (a.obs is None) == (b.obs is None) and (a.obs is None or same_identity(a.obs, b.obs))
        return a.wires == b.wires and len(a.data) == len(b.data)

    def unchanged_mod_trainable(o, n):
        """reading methods may materialise the trainable list (unset -> all parameters) but change nothing else"""
        return And(same_objs(ops_of(o), ops_of(n)), same_objs(meas_of(o), meas_of(n)), list_eq(P(o), P(n)),
                   list_eq(trainable(o), trainable(n)))

    def ops_list_fresh(r, orig):
        """the new script owns its operation / measurement lists (appending to one does not change the other)"""
        if sym(r):
            return r.f["_ops"] is not orig.f["_ops"] and r.f["_measurements"] is not orig.f["_measurements"]
        return r._ops is not orig._ops and r._measurements is not orig._measurements

    for fc in contracts:
        for ob in obligations_for("C40", fc, tier):
            plan.add(ob)
        plan.fn_under_contract(QS, fc.qualname)

    # F3 (known finding, open): with indices that are NOT in increasing order the code pairs params[k] with sorted(indices)[k]
    # instead of indices[k].  Every in-repo caller passes increasing indices (the precondition of the cases above); the positional
    # reading of the docstring ("the new parameters at the provided indices") is stated here as the finding instance.
    f3_shape = ((2, 1), (2, None))

    def f3_post(o, r, n):
        p_old, p_new = P(o.self), P(r)
        idx, par = items(o.indices), items(o.params)
        conj = [len(p_new) == len(p_old)]
        for i in range(min(len(p_new), len(p_old))):
            want = p_old[i]
            for j in range(len(idx) - 1, -1, -1):
                want = S.If(eq(idx[j], i), par[j], want)
            conj.append(eq(p_new[i], want))
        return And(*conj)
    f3 = FnContract(w, "QuantumScript.bind_new_parameters", [Case("unsorted-indices/positional-pairing",
        {"self": script_t(f3_shape, None), "params": lab_list_t(2), "indices": int_list_t(2, 0, 4)},
        requires=lambda a: And(in_range(a.indices, 5), items(a.indices)[0] > items(a.indices)[1]), ensures=f3_post, size_bounded=True,
        native_gen=lambda rng, m: dict(m, indices=sorted(rng.sample(range(5), 2), reverse=True)),
        native_call=lambda mod, a: a["self"].bind_new_parameters([lab_val(x) for x in a["params"]], a["indices"]))])
    for ob in obligations_for("C40", f3, tier, finding="F3"):
        plan.add(ob)

    add_operator_level(plan, tier, seed)
    plan.unverified = ["decompose / expand transforms preserve trainability (whole-transform property)",
                       "tape.py (QuantumTape queuing front end)", "operator classes outside the C10 instance space in part (B)",
                       "in-place mutation of the list returned by trainable_params (original and copy share the stored list object)"]
    return plan


def add_operator_level(plan, tier, seed):
    """(B) the real per-operator bind_new_parameters dispatch on symbolic parameters"""
    try:
        from vf.symx.rules import all_configs
        from vf.symx.scalar import sym, poly_matrix, pm_diff_entries
    except Exception as ex:  # pylint: disable=broad-except
        plan.add(Obligation("C40/bind_new_parameters/operator-level", "post", lambda: Outcome(FAULT, "symx", f"cannot load instance space: {ex}")))
        return
    import numpy as np
    BNP = "pennylane/ops/functions/bind_new_parameters.py"
    plan.fn_under_contract(BNP, "bind_new_parameters")
    cfgs = [c for c in all_configs(tier)[0] if c.npar > 0 and not c.numeric and not c.zsym]
    # one exponent per Pow base is enough here (the exponent is a hyperparameter that must be carried over)
    seen, keep = set(), []
    for c in cfgs:
        key = (c.opname, c.label.split("[z=")[0])
        if c.opname.startswith("Pow(") and "[z=3]" not in c.label and "[z=2]" not in c.label:
            continue        # negative powers go through numpy's inv (not traceable); the exponent is carried over either way
        try:
            if len(c.twin_op().data) != c.npar:
                continue    # data-carrying operators (one array parameter): outside this instance space
        except Exception:  # pylint: disable=broad-except
            continue
        seen.add(key)
        keep.append(c)
    cfgs = keep
    plan.notes["operator_level_configs"] = len(cfgs)

    def mk(cfg):
        def fn():
            import pennylane as qp
            from pennylane.ops.functions import bind_new_parameters
            twin = cfg.twin_op()
            names = list(cfg.names)
            news = [sym("n_" + nm) for nm in names]
            if len(twin.data) != len(news):
                return Outcome(UNDECIDED, "symx", f"operator has {len(twin.data)} data entries, configuration declares {len(news)}")
            try:
                direct = cfg.mk(lambda i: news[i])
                rebound = bind_new_parameters(twin, news)
            except Exception as ex:  # pylint: disable=broad-except
                return Outcome(UNDECIDED, "symx", f"trace left the fragment: {type(ex).__name__}: {str(ex)[:200]}")
            problems = []
            if type(rebound) is not type(twin):
                problems.append(f"type {type(rebound).__name__} != {type(twin).__name__}")
            if rebound.wires != twin.wires:
                problems.append(f"wires {rebound.wires} != {twin.wires}")
            try:
                wo = list(twin.wires)
                A = poly_matrix(qp.matrix(rebound, wire_order=wo))
                B = poly_matrix(qp.matrix(direct, wire_order=wo))
                diff = pm_diff_entries(A, B)
            except Exception as ex:  # pylint: disable=broad-except
                return Outcome(UNDECIDED, "symx", f"matrix trace left the fragment: {type(ex).__name__}: {str(ex)[:200]}")
            if diff:
                problems.append(f"matrix differs at entries {diff[:3]}")
            if not problems:
                return Outcome(DISCHARGED, "laurent-normal-form", "re-bound operator == directly constructed operator for all parameter values")
            # replay natively with floats
            vals = [0.37 + 0.41 * i for i in range(len(names))]
            r2 = bind_new_parameters(cfg.twin_op(), vals)
            d2 = cfg.mk(lambda i: vals[i])
            err = float(np.max(np.abs(np.asarray(qp.matrix(r2, wire_order=wo), dtype=complex) - np.asarray(qp.matrix(d2, wire_order=wo), dtype=complex))))
            confirmed = err > 1e-9 or type(r2) is not type(d2) or r2.wires != d2.wires
            return Outcome(REFUTED, "laurent-normal-form", "; ".join(problems), witness=dict(operator=cfg.label, new_params=vals),
                           replay=dict(confirmed=bool(confirmed), max_abs_err=err, observed=repr(r2), expected=repr(d2)))
        return fn
    for cfg in cfgs:
        plan.add(Obligation(f"C40/bind_new_parameters[{cfg.opname}{cfg.label}]/post:rebound==direct", "post", mk(cfg), func=(BNP, "bind_new_parameters"),
                            size_bounded=True, timeout=120, sample="bind_new_parameters(op, p') has the matrix, type and wires of op built with p'"))
    plan.size_bounds.append(f"operator-level bind_new_parameters: {len(cfgs)} operator configurations of the C10 instance space (symbolic parameters)")
