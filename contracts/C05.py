"""C05 Result caching never changes results -- soundness of the cache key.

The cache is sound iff the key separates semantically different circuits.  Under contract:
 (a) the angle reduction in the operator hash (`_process_data`, `_canonicalize_dynamic`): for every operator name the source
     reduces modulo P, the gate must be EXACTLY P-periodic in every parameter (read from the AST on every run; decided on the
     real compute_matrix with symbolic parameters);
 (b) names that are not reduced are keyed on round(x, 10): a by-design quantum (known finding F16);
 (c) the tape fingerprint QuantumScript.hash must be an injective function of (operations, measurements, trainable
     parameters, shots) - decided over sequences of symbolic length by z3.
"""
import ast
import math

import numpy as np
import pennylane as qp
import z3

from vf.pyvc.engine import set_budget

from vf.common import Plan, Obligation, Outcome, DISCHARGED, REFUTED, UNDECIDED, FAULT, find_def
from vf.symx.oblig import identity_obligation
from vf.symx.scalar import Sym, sym, poly_matrix
from vf.symx.ring import Poly, Cyc
from contracts.C02 import where_compute_matrix

BASE = "pennylane/core/operator/base.py"
OP2 = "pennylane/core/operator/operator2.py"
QS = "pennylane/core/qscript.py"


def reduction_table(file, qual, var):
    """[(names tuple, modulus as a multiple of pi)] read from `if <var> in (...): mod_val = k * np.pi` chains in the real source"""
    _, fn = find_def(file, qual)
    out = []
    for n in ast.walk(fn):
        if isinstance(n, ast.If):
            names = None
            for c in ast.walk(n.test):
                if isinstance(c, ast.Compare) and len(c.ops) == 1 and isinstance(c.ops[0], ast.In) and isinstance(c.comparators[0], ast.Tuple):
                    if all(isinstance(e, ast.Constant) and isinstance(e.value, str) for e in c.comparators[0].elts):
                        names = tuple(e.value for e in c.comparators[0].elts)
            if names is None:
                continue
            for st in n.body:
                if isinstance(st, ast.Assign) and isinstance(st.targets[0], ast.Name) and st.targets[0].id == "mod_val":
                    v = eval(compile(ast.Expression(st.value), "<mod_val>", "eval"), {"np": np, "math": math})  # noqa: S307 (constant expr)
                    out.append((names, v / math.pi))
    return out


def build(tier, seed):
    plan = Plan("C05", level="proof")
    plan.explanation = ("Cache-key soundness: every angle reduction applied by the operator hash is checked against the exact "
                        "period of the real gate matrix (symbolic parameters); the tape fingerprint is proved injective in its "
                        "components over sequences of symbolic length.")
    plan.trusted_base = ["vf/symx exact ring", "z3 sequences", "python hash() of distinct tuples treated as collision-free"]
    plan.assumptions = ["python's hash is collision-free on the fingerprints (assumed)", "numpy interface"]
    plan.unverified = ["qp.execute plumbing around _cache_transform", "_cache_transform hit/miss logic (planned E1 contract)",
                       "hashes of templates / hyperparameters via str()"]
    seen = set()
    for file, qual, var in ((BASE, "_process_data", "op.name"), (OP2, "_canonicalize_dynamic", "op_name")):
        plan.fn_under_contract(file, qual)
        for names, k in reduction_table(file, qual, var):
            from fractions import Fraction
            kf = Fraction(k).limit_denominator(64)
            for name in names:
                cls = getattr(qp, name, None)
                if cls is None or (name, qual) in seen:
                    continue
                seen.add((name, qual))
                npar = cls.num_params
                for j in range(npar):
                    pn = ["a", "b", "c"][:npar]

                    def shifted(S, cls=cls, pn=pn, j=j, kf=kf):
                        ps = [S[n] for n in pn]
                        ps[j] = ps[j] + Sym(Poly.gen(("pi",)).scale(Cyc.rat(kf)))
                        return cls.compute_matrix(*ps)

                    def plain(S, cls=cls, pn=pn):
                        return cls.compute_matrix(*[S[n] for n in pn])

                    def native_shift(env, cls=cls, pn=pn, j=j, kf=kf):
                        ps = [env[n] for n in pn]
                        ps[j] = ps[j] + float(kf) * math.pi
                        return cls.compute_matrix(*ps)

                    def native_plain(env, cls=cls, pn=pn):
                        return cls.compute_matrix(*[env[n] for n in pn])
                    ob = identity_obligation(
                        f"C05/{qual}/{name}/param{j}/post:matrix-is-{kf}pi-periodic", "post", pn, shifted, plain, native_shift,
                        native_ref=native_plain, seed=seed, func=(file, qual),
                        sample=f"hash reduces {name} angles modulo {kf}*pi => the matrix must have that exact period")
                    plan.add(ob)
    # (b) keys of parameters are rounded to a fixed number of decimals: by-design quantisation (known finding F16)
    plan.add(Obligation("C05/_process_data/post:key-separates-distinct-parameters", "post", lambda: rounding_quantum(),
                        finding="F16", func=(BASE, "_process_data"), replay=lambda w: rounding_replay(w),
                        sample="distinct parameter values get distinct cache keys"))
    # (c) fingerprint injectivity
    plan.fn_under_contract(QS, "QuantumScript.hash")
    plan.add(Obligation("C05/qscript:QuantumScript.hash/post:fingerprint-injective", "post", lambda: fingerprint_injective(),
                        func=(QS, "QuantumScript.hash"), replay=lambda w: fingerprint_replay(w),
                        sample="equal fingerprints => equal (op hashes, measurement hashes, trainable params, shots)"))
    measurement_hash_obligations(plan, tier)
    memoised_fingerprint_obligations(plan, tier, seed)
    key_function_obligations(plan, tier, seed)
    return plan


def rounding_digits():
    """number of decimals the real source rounds parameters to in the hash (None when it does not round)"""
    for file, qual in ((BASE, "_process_data"), (OP2, "_canonicalize_dynamic")):
        _, fn = find_def(file, qual)
        for n in ast.walk(fn):
            if isinstance(n, ast.Call) and isinstance(n.func, ast.Attribute) and n.func.attr == "round" and len(n.args) == 2 \
                    and isinstance(n.args[1], ast.Constant):
                return int(n.args[1].value)
    return None


def rounding_quantum():
    d = rounding_digits()
    if d is None:
        return Outcome(DISCHARGED, "ast", "parameters enter the hash unrounded")
    w = dict(theta=0.7, delta=4.0 * 10 ** (-(d + 1)), decimals=d)
    return Outcome(REFUTED, "ast", f"the key is a function of round(x, {d}): parameters closer than 5e-{d + 1} share a key",
                   witness=w, replay=rounding_replay(w))


def rounding_replay(w):
    th, dl = w["theta"], w["delta"]
    dev = qp.device("default.qubit")

    def tape(t):
        return qp.tape.QuantumScript([qp.RY(t, 0)], [qp.expval(qp.Z(0))])
    batch = [tape(th), tape(th + dl)]
    cached = qp.execute(batch, dev, cache=True)
    plain = qp.execute(batch, dev, cache=False)
    same_key = hash(batch[0].operations[0]) == hash(batch[1].operations[0])
    diff = abs(float(cached[1]) - float(plain[1]))
    return dict(confirmed=bool(same_key and diff > 0), same_operator_hash=bool(same_key), cached=float(cached[1]), uncached=float(plain[1]),
                abs_difference=diff, note="second circuit of the batch receives the first one's cached result")


# ---- (c) the fingerprint as built by the real source -----------------------------------------------------------------------------
def fingerprint_shape():
    """Read how QuantumScript.hash assembles its fingerprint: list of (component, 'extend' | 'append')."""
    _, fn = find_def(QS, "QuantumScript.hash")
    parts = []
    for st in fn.body:
        if isinstance(st, ast.Expr) and isinstance(st.value, ast.Call) and isinstance(st.value.func, ast.Attribute) \
                and isinstance(st.value.func.value, ast.Name) and st.value.func.value.id == "fingerprint":
            how = st.value.func.attr
            src = ast.unparse(st.value.args[0])
            comp = ("ops" if "self.operations" in src else "meas" if "self.measurements" in src else
                    "trainable" if "trainable_params" in src else "shots" if "self.shots" in src else None)
            if comp is None or how not in ("extend", "append"):
                return None
            parts.append((comp, how))
            if comp == "shots":
                SHOTS_SRC[0] = src
    return parts


SHOTS_SRC = [None]
# representations of the shot specification that determine the whole shot sequence (copies included); anything else (a total, a
# length, ...) is a projection and has to be shown injective natively or is refuted (independent seed C32_2)
WHOLE_SHOTS = ("tuple(self.shots)", "self.shots", "tuple(self.shots.shot_vector)", "self.shots.shot_vector")


def shots_projection_collision():
    """two real tapes that differ only in the shot partition and hash equally, or None"""
    specs = [20, (10, 10), (5, 15), (15, 5), (5, 5, 10), ((10, 2),), (20, 20), ((20, 2),), 40, None, 1, (1, 1)]
    seen = {}
    for sp in specs:
        t = qp.tape.QuantumScript([qp.RX(0.1, wires=0)], [qp.expval(qp.Z(0))], shots=sp)
        key = t.hash
        for sp0, t0 in seen.get(key, []):
            if t0.shots != t.shots:
                return sp0, sp
        seen.setdefault(key, []).append((sp, t))
    return None


def fingerprint_injective():
    parts = fingerprint_shape()
    if not parts or {c for c, _ in parts} != {"ops", "meas", "trainable", "shots"}:
        return Outcome(UNDECIDED, "ast", f"fingerprint construction not recognised: {parts}")
    if SHOTS_SRC[0] not in WHOLE_SHOTS:
        col = shots_projection_collision()
        if col is not None:
            return Outcome(REFUTED, "native", f"the fingerprint records `{SHOTS_SRC[0]}` instead of the whole shot sequence: tapes with shots "
                           f"{col[0]!r} and {col[1]!r} hash equally", witness=dict(shots_A=repr(col[0]), shots_B=repr(col[1])),
                           replay=dict(confirmed=True, hash_equal=True, tapes_differ=True, shots_A=repr(col[0]), shots_B=repr(col[1])))
        return Outcome(UNDECIDED, "ast", f"shots enter the fingerprint as `{SHOTS_SRC[0]}`, not as the whole shot sequence; no collision among the probed "
                       "shot specifications")
    # element universe: Item = H(hash of an operator) | M(hash of a measurement) | I(int) | T(tuple of ints as a sequence)
    Item = z3.Datatype("Item")
    Item.declare("H", ("h", z3.IntSort()))
    Item.declare("M", ("m", z3.IntSort()))
    Item.declare("I", ("i", z3.IntSort()))
    Item.declare("T", ("t", z3.SeqSort(z3.IntSort())))
    Item = Item.create()
    IS = z3.SeqSort(z3.IntSort())
    SI = z3.SeqSort(Item)
    mapH = z3.Function("mapH", IS, SI)
    mapM = z3.Function("mapM", IS, SI)
    mapI = z3.Function("mapI", IS, SI)

    def state(tag):
        return {c: z3.Const(f"{c}_{tag}", IS) for c in ("ops", "meas", "trainable", "shots")}

    def fp(st):
        segs = []
        for comp, how in parts:
            if comp == "ops":
                segs.append(mapH(st[comp]))
            elif comp == "meas":
                segs.append(mapM(st[comp]))
            elif how == "extend":
                segs.append(mapI(st[comp]))
            else:
                segs.append(z3.Unit(Item.T(st[comp])))
        return z3.Concat(*segs) if len(segs) > 1 else segs[0]
    A, B = state("A"), state("B")
    s = z3.Solver()
    set_budget(s, 20000)
    i = z3.Int("i")
    x = z3.Const("x", IS)
    # pointwise maps (length preserving, elementwise tagged): axioms of the three embeddings
    for f, ctor in ((mapH, Item.H), (mapM, Item.M), (mapI, Item.I)):
        for st in (A, B):
            for comp in st:
                v = st[comp]
                s.add(z3.Length(f(v)) == z3.Length(v))
                s.add(z3.ForAll([i], z3.Implies(z3.And(i >= 0, i < z3.Length(v)), f(v)[i] == ctor(v[i]))))
    s.add(fp(A) == fp(B))
    s.add(z3.Or(*[A[c] != B[c] for c in A]))
    # small-model search first (a refutation needs only short sequences)
    s2 = z3.Solver()
    set_budget(s2, 20000)
    for a in s.assertions():
        s2.add(a)
    for st in (A, B):
        for comp in st:
            s2.add(z3.Length(st[comp]) <= 2)
    r = s2.check()
    if r == z3.sat:
        m = s2.model()

        def val(t):
            v = m.eval(t, model_completion=True)
            out = []

            def walk(e):
                k = e.decl().kind()
                if k == z3.Z3_OP_SEQ_UNIT:
                    out.append(e.arg(0).as_long())
                elif k == z3.Z3_OP_SEQ_CONCAT:
                    for ch in e.children():
                        walk(ch)
            walk(v)
            return out
        w = {tag: {c: val(st[c]) for c in st} for tag, st in (("A", A), ("B", B))}
        return Outcome(REFUTED, "z3-seq", f"two different circuits share a fingerprint (construction: {parts})", witness=w,
                       replay=fingerprint_replay(w))
    # proof: the operation hashes are H-tagged and the measurement hashes M-tagged items; the universally quantified tag facts
    # are instantiated exactly where the argument needs them (position len(ops) of the other circuit, first measurement)
    if [h for c, h in parts if c in ("trainable", "shots")] != ["append", "append"] or [c for c, _ in parts] != ["ops", "meas", "trainable", "shots"]:
        return Outcome(UNDECIDED, "z3-seq", f"no proof script for construction {parts}")
    OA, OB, MA, MB = z3.Consts("OA OB MA MB", SI)
    ta, tb, sa, sb = z3.Consts("ta tb sa sb", IS)
    FA = z3.Concat(OA, MA, z3.Unit(Item.T(ta)), z3.Unit(Item.T(sa)))
    FB = z3.Concat(OB, MB, z3.Unit(Item.T(tb)), z3.Unit(Item.T(sb)))
    W_A, W_B = z3.Concat(OA, MA), z3.Concat(OB, MB)

    def unsat(*facts):
        q = z3.Solver()
        set_budget(q, 20000)
        q.add(*facts)
        return q.check() == z3.unsat
    # step 1: the two trailing single items and the remaining words agree
    WA, WB = z3.Consts("WA WB", SI)
    s1 = unsat(z3.Concat(WA, z3.Unit(Item.T(ta)), z3.Unit(Item.T(sa))) == z3.Concat(WB, z3.Unit(Item.T(tb)), z3.Unit(Item.T(sb))),
               z3.Or(WA != WB, ta != tb, sa != sb))
    # step 2: the ops/meas boundary is determined by the tags (instances of: ops items are H items, meas items are M items)
    s2 = True
    for (X, Y, MX, MY) in ((OA, OB, MA, MB), (OB, OA, MB, MA)):
        s2 = s2 and unsat(z3.Concat(X, MX) == z3.Concat(Y, MY), z3.Length(X) < z3.Length(Y), Item.is_H(Y[z3.Length(X)]),
                          z3.Implies(z3.Length(MX) > 0, Item.is_M(MX[0])))
    # step 3: equal boundary => equal segments
    s3 = unsat(W_A == W_B, z3.Length(OA) == z3.Length(OB), z3.Or(OA != OB, MA != MB))
    if s1 and s2 and s3:
        return Outcome(DISCHARGED, "z3-seq", f"fingerprint {parts} is injective in its four components (3-step argument: trailing "
                       "items, tag-determined boundary, equal segments)", extra=dict(sub_obligations=4))
    return Outcome(UNDECIDED, "z3-seq", f"proof steps discharged: trailing-items={s1} boundary={s2} segments={s3} for construction {parts}")


def fingerprint_replay(w):
    """Build two real tapes realising the witness (trainable indices / shot vectors) and compare hashes and cached results."""
    try:
        A, B = w["A"], w["B"]
        n = max([1] + [x + 1 for x in A["trainable"] + B["trainable"] if isinstance(x, int) and x >= 0])
        def tape(st):
            ops = [qp.RX(0.1 * (k + 1), wires=0) for k in range(n)]
            tr = [t for t in st["trainable"] if 0 <= t < n]
            shots = [s_ for s_ in st["shots"] if s_ > 0] or None
            return qp.tape.QuantumScript(ops, [qp.expval(qp.Z(0))], shots=shots, trainable_params=tr)
        ta, tb = tape(A), tape(B)
        same_hash = ta.hash == tb.hash
        differ = (list(ta.trainable_params) != list(tb.trainable_params)) or (ta.shots != tb.shots)
        return dict(confirmed=bool(same_hash and differ), hash_equal=bool(same_hash), tapes_differ=bool(differ),
                    tape_A=dict(trainable=list(ta.trainable_params), shots=str(ta.shots)),
                    tape_B=dict(trainable=list(tb.trainable_params), shots=str(tb.shots)))
    except Exception as ex:  # pylint: disable=broad-except
        return dict(confirmed=None, note=f"replay construction failed: {type(ex).__name__}: {ex}")


# ---- (d) measurement fingerprints separate the measurement's defining data --------------------------------------------------------
def measurement_hash_obligations(plan, tier):
    """E1, relational: the real `__hash__` body is executed symbolically on TWO instances with `hash` modelled as the
    identity on structured values (python's hash assumed collision-free); obligation: equal fingerprints imply equal
    defining data, for label sequences of symbolic length."""
    import z3 as _z3
    from vf.pyvc.engine import World, T, Int, Bool, RecT, SeqT, Label, Ctx, fresh, Rec, ReturnExc, Unsupp, RaiseExc, SeqV
    from vf.pyvc.interp import Interp
    WIRES = "pennylane/wires.py"
    wires_fields = (WIRES, {"_labels": SeqT(Label, tuple=True), "_hash": T("const", None)})
    specs = [
        # (file, class, fields, defining data extractor)
        ("pennylane/measurements/mutual_info.py", "MutualInfoMP",
         {"raw_wires": T("list", RecT("Wires"), 2), "log_base": Int},
         lambda s: (s.raw_wires.items[0]._labels, s.raw_wires.items[1]._labels, s.log_base),
         # the base constructor sets self.wires = all wires of the two subsystems (disjoint by validation): their concatenation
         lambda o, w: o.f.__setitem__("wires", Rec(w.classes["Wires"], {
             "_labels": SeqV(_z3.Concat(o.raw_wires.items[0]._labels.term, o.raw_wires.items[1]._labels.term), Label, True), "_hash": None}))),
        ("pennylane/measurements/vn_entropy.py", "VnEntropyMP", {"wires": RecT("Wires"), "log_base": Int},
         lambda s: (s.wires._labels, s.log_base)),
        ("pennylane/measurements/classical_shadow.py", "ClassicalShadowMP", {"wires": RecT("Wires"), "seed": Int},
         lambda s: (s.wires._labels, s.seed)),
        ("pennylane/measurements/counts.py", "CountsMP",
         {"wires": RecT("Wires"), "obs": Int, "_eigvals": T("const", None), "all_outcomes": Bool},
         lambda s: (s.wires._labels, s.obs, s.all_outcomes)),
        ("pennylane/core/measurements.py", "MeasurementProcess",
         {"wires": RecT("Wires"), "obs": Int, "mv": T("const", None), "_eigvals": T("const", None)},
         lambda s: (s.wires._labels, s.obs)),
    ]
    specs = [sp if len(sp) == 5 else sp + (None,) for sp in specs]
    for file, cls, fields, data, derive in specs:
        def fn(file=file, cls=cls, fields=fields, data=data, derive=derive):
            try:
                w = World(file, classes={cls: fields, "Wires": wires_fields},
                          extra_builtins={"hash": lambda it, a, k: a[0], "str": lambda it, a, k: ("str", a[0])})
                ctx = Ctx(w, [], 20000)
                it = Interp(ctx, None)
                vals = []
                for tag in ("A", "B"):
                    obj = fresh(ctx, RecT(cls), tag)
                    if derive is not None:
                        derive(obj, w)
                    vals.append((obj, it.call_method(obj, "__hash__", [], {})))
                (oa, fa), (ob, fb) = vals
                same_fp = it.equal(fa, fb)
                same_data = it.equal(data(oa), data(ob))
                s = _z3.Solver()
                set_budget(s, 20000)
                s.add(*ctx.pc)
                s.add(same_fp if not isinstance(same_fp, bool) else _z3.BoolVal(same_fp))
                s.add(_z3.Not(same_data) if not isinstance(same_data, bool) else _z3.BoolVal(not same_data))
                r = s.check()
            except (Unsupp, RaiseExc) as ex:
                return Outcome(UNDECIDED, "pyvc", f"extractor refused: {type(ex).__name__}: {ex}")
            if r == _z3.unsat:
                return Outcome(DISCHARGED, "z3", "equal fingerprints imply equal defining data")
            if r == _z3.sat:
                from vf.pyvc.engine import concretize
                m = s.model()
                w_ = dict(A=concretize(w, oa, m), B=concretize(w, ob, m))
                return Outcome(REFUTED, "z3", f"two different {cls} instances share a fingerprint", witness=w_,
                               replay=mp_hash_replay(cls, w_))
            return Outcome(UNDECIDED, "z3", "solver unknown")
        plan.add(Obligation(f"C05/{file.split('/')[-1][:-3]}:{cls}.__hash__/post:fingerprint-separates-defining-data", "post", fn,
                            func=(file, f"{cls}.__hash__"), timeout=120,
                            sample="equal fingerprints => equal (wires..., parameters) of the measurement process"))
        plan.fn_under_contract(file, f"{cls}.__hash__")


def mp_hash_replay(cls, w):
    """build the two real measurement processes of the witness and compare python hashes"""
    try:
        def labels(d):
            return [int(str(x)[1:]) if str(x).startswith("L") else x for x in d["_labels"]]

        def mk(d):
            if cls == "MutualInfoMP":
                return qp.measurements.MutualInfoMP(wires=[qp.wires.Wires(labels(d["raw_wires"][0])), qp.wires.Wires(labels(d["raw_wires"][1]))],
                                                    log_base=d["log_base"])
            if cls == "VnEntropyMP":
                return qp.measurements.VnEntropyMP(wires=qp.wires.Wires(labels(d["wires"])), log_base=d["log_base"])
            if cls == "ClassicalShadowMP":
                return qp.measurements.ClassicalShadowMP(wires=qp.wires.Wires(labels(d["wires"])), seed=d["seed"])
            return None
        a, b = mk(w["A"]), mk(w["B"])
        if a is None:
            return dict(confirmed=None, note="no native constructor mapping for this class")
        return dict(confirmed=bool(hash(a) == hash(b) and repr(a) != repr(b)), hash_equal=hash(a) == hash(b), A=repr(a), B=repr(b))
    except Exception as ex:  # pylint: disable=broad-except
        return dict(confirmed=None, note=f"replay construction failed: {type(ex).__name__}: {ex}")


# ---- (e) a memoised fingerprint never outlives the data it was computed from -----------------------------------------------------
def memoised_fingerprint_obligations(plan, tier, seed):
    """QuantumScript.hash is a cached_property; `copy(**update)` builds the new script.  The copy contracts of C40 (real AST of
    QuantumScript.copy on scripts whose fingerprint has been memoised) carry the C05 clause: a memoised fingerprint travels with the
    copy only when operations, measurements, trainable indices and shots are all the original's.  The same obligations are part
    of this property under C05 names."""
    from contracts import C40
    p40 = C40.build(tier, seed)
    n = 0
    for ob in p40.obligations:
        if "QuantumScript.copy/" in ob.name and ("/ops[1]-meas[]/" in ob.name or "/ops[1,0,2]-meas[-,1]/" in ob.name) and ob.name.endswith("trainable-unset"):
            ob.name = ob.name.replace("C40/", "C05/", 1)
            plan.add(ob)
            n += 1
    plan.fn_under_contract("pennylane/core/qscript.py", "QuantumScript.copy")
    plan.notes["memoised_fingerprint_cases"] = n


# ---- (f) the key functions lose nothing but the documented reductions ------------------------------------------------------------------
def key_function_obligations(plan, tier, seed):
    """(f1) relational E1 on the nested `_mod_and_round` helpers: executed symbolically on TWO complex inputs; equal outputs imply
    equal inputs up to the documented reductions (10-decimal rounding; the period for the periodic names, whose angles are real).
    (f2) bounded: the REAL operator hashes of structured pairs of operators that differ in exactly one respect (imaginary part,
    one entry in the middle of a large matrix, a bool flag ...) must differ."""
    import z3 as _z3
    from vf.pyvc.engine import World, Ctx, FloatV, Model, Unsupp, RaiseExc, ReturnExc
    from vf.pyvc.interp import Interp

    class Cx(Model):
        """a complex number (re, im)"""

        def __init__(self, re, im):
            self.re, self.im = re, im

        def vf_eq(self, other):
            if isinstance(other, Cx):
                return _z3.And(self.re == other.re, self.im == other.im)
            if isinstance(other, FloatV):
                return _z3.And(self.re == other.t, self.im == 0)
            return False

    ROUND = _z3.Function("round10", _z3.RealSort(), _z3.RealSort())

    def b_real(it, a, k):
        x = a[0]
        return FloatV(x.re) if isinstance(x, Cx) else x

    def b_round(it, a, k):
        x = a[0]
        if isinstance(x, Cx):
            return Cx(ROUND(x.re), ROUND(x.im))
        return FloatV(ROUND(x.t))

    class Arr(Model):
        dtype = "numeric"

    for file, qual in ((BASE, "_process_data.<locals>._mod_and_round"), (OP2, "_canonicalize_dynamic.<locals>._mod_and_round")):
        for mode in ("no-period", "period"):
            def fn(file=file, qual=qual, mode=mode):
                try:
                    w = World(file, functions=[qual], extra_builtins={"qp.math.real": b_real, "qp.math.round": b_round,
                                                                      "qp.math.asarray": lambda it, a, k: Arr()})
                    ctx = Ctx(w, [], 20000)
                    it = Interp(ctx, None)
                    outs, ins = [], []
                    m = None if mode == "no-period" else FloatV(_z3.Real("period"))
                    if m is not None:
                        ctx.assume(m.t > 0)
                    for tag in ("A", "B"):
                        x = Cx(_z3.Real(f"re_{tag}"), _z3.Real(f"im_{tag}"))
                        if mode == "period":
                            ctx.assume(x.im == 0)          # the periodic names are rotation angles: real
                        ins.append(x)
                        outs.append(it.call_user(w.functions[qual], [x, m], {}, None))
                    same_key = it.equal(outs[0], outs[1])
                    from vf.pyvc.interp import PY_FMOD
                    if mode == "no-period":
                        same_val = _z3.And(ROUND(ins[0].re) == ROUND(ins[1].re), ROUND(ins[0].im) == ROUND(ins[1].im))
                        if qual.startswith("_process_data"):
                            same_val = _z3.And(ins[0].re == ins[1].re, ins[0].im == ins[1].im)      # no rounding at all there
                    else:
                        same_val = ROUND(PY_FMOD(ins[0].re, m.t)) == ROUND(PY_FMOD(ins[1].re, m.t))
                    s = _z3.Solver()
                    set_budget(s, 20000)
                    s.add(*ctx.pc)
                    s.add(same_key if not isinstance(same_key, bool) else _z3.BoolVal(same_key))
                    s.add(_z3.Not(same_val))
                    r = s.check()
                except (Unsupp, RaiseExc) as ex:
                    return Outcome(UNDECIDED, "pyvc", f"extractor refused: {type(ex).__name__}: {ex}")
                if r == _z3.unsat:
                    return Outcome(DISCHARGED, "z3", "equal keys imply equal values up to the documented reductions")
                if r == _z3.sat:
                    md = s.model()
                    wit = {str(d): str(md[d]) for d in md.decls() if str(d).startswith(("re_", "im_", "period"))}
                    return Outcome(REFUTED, "z3", "two different values share a key", witness=wit, replay=key_replay(wit))
                return Outcome(UNDECIDED, "z3", "solver unknown")
            plan.add(Obligation(f"C05/{file.split('/')[-1][:-3]}:{qual}/{mode}/post:key-separates-values", "post", fn, func=(file, qual), timeout=120,
                                sample="relational: _mod_and_round(x) == _mod_and_round(y) => x == y up to rounding / period"))
            plan.fn_under_contract(file, qual)

    def separation():
        import numpy as np
        pairs = []
        t = 0.4321
        D1, D2 = np.array([np.exp(-1j * t / 2), np.exp(1j * t / 2)]), np.array([np.exp(1j * t / 2), np.exp(-1j * t / 2)])
        pairs.append(("QubitUnitary U vs conj(U)", qp.QubitUnitary(np.diag(D1), wires=0), qp.QubitUnitary(np.diag(D2), wires=0)))
        pairs.append(("DiagonalQubitUnitary d vs conj(d)", qp.DiagonalQubitUnitary(D1, wires=0), qp.DiagonalQubitUnitary(D2, wires=0)))
        for n in (5, 6):
            U1, U2 = np.eye(2 ** n, dtype=complex), np.eye(2 ** n, dtype=complex)
            i, j = 2 ** (n - 1) - 1, 2 ** (n - 1)
            U2[i, i] = U2[j, j] = 0
            U2[i, j] = U2[j, i] = 1
            pairs.append((f"QubitUnitary on {n} wires differing in the middle of the matrix", qp.QubitUnitary(U1, wires=range(n)), qp.QubitUnitary(U2, wires=range(n))))
            M = np.eye(2 ** n)
            M[i, i] = -1
            pairs.append((f"Hermitian on {n} wires differing in one middle entry", qp.Hermitian(np.eye(2 ** n), wires=range(n)), qp.Hermitian(M, wires=range(n))))
        v1 = np.zeros(2 ** 11)
        v1[0] = 1
        v2 = np.zeros(2 ** 11)
        v2[1000] = 1
        pairs.append(("StatePrep on 11 wires, different basis state in the middle", qp.StatePrep(v1, wires=range(11)), qp.StatePrep(v2, wires=range(11))))
        pairs.append(("RX angles 1e-3 apart", qp.RX(0.3, 0), qp.RX(0.301, 0)))
        pairs.append(("Rot differing in the last angle", qp.Rot(0.1, 0.2, 0.3, 0), qp.Rot(0.1, 0.2, 0.31, 0)))
        pairs.append(("PauliRot words", qp.PauliRot(0.3, "XY", [0, 1]), qp.PauliRot(0.3, "YX", [0, 1])))
        for what, a, b in pairs:
            if hash(a) == hash(b) or qp.tape.QuantumScript([a]).hash == qp.tape.QuantumScript([b]).hash:
                return Outcome(REFUTED, "native", f"operators that differ share a cache key: {what}", witness=dict(pair=what),
                               replay=dict(confirmed=True, observed="equal hashes", expected="different hashes"))
        return Outcome(DISCHARGED, "native(bounded)", f"{len(pairs)} structured pairs of differing operators get different keys", extra=dict(bounded=True))
    plan.add(Obligation("C05/operator-hash/post:structured-pairs-get-different-keys", "post", separation, bounded=True, timeout=300,
                        func=(OP2, "_canonicalize_dynamic")))


def key_replay(wit):
    """replay of a relational counter-model: QubitUnitary of a diagonal unitary with the model's real / imaginary pattern"""
    try:
        import numpy as np
        def fr(s):
            from fractions import Fraction
            return float(Fraction(str(s).replace("?", ""))) if "/" in str(s) or str(s).lstrip("-").replace(".", "").isdigit() else 0.0
        if "period" in wit:
            return dict(confirmed=None, note="periodic-name case: no generic native replay")
        za, zb = complex(fr(wit.get("re_A", 0)), fr(wit.get("im_A", 0))), complex(fr(wit.get("re_B", 0)), fr(wit.get("im_B", 0)))
        # the same (re, im) pattern on the unit circle: conjugate phases (equal real parts) / different phases
        t = 0.4321
        # any two DIFFERENT operators with equal hashes confirm the refuted obligation: pairs that differ only in the imaginary
        # part / only in the real part / in both, in the pattern of the model
        da = np.array([np.exp(1j * t), np.exp(-1j * t)])
        cands = [np.array([np.exp(-1j * t), np.exp(1j * t)]), np.array([np.exp(1j * (np.pi - t)), np.exp(-1j * (np.pi - t))]),
                 np.array([np.exp(1j * (t + 0.1)), np.exp(-1j * (t + 0.1))])]
        tried = []
        for mk in (lambda d: qp.QubitUnitary(np.diag(d), wires=0), lambda d: qp.DiagonalQubitUnitary(d, wires=0)):
            for db in cands:
                a, b = mk(da), mk(db)
                tried.append((repr(b)[:70], hash(a) == hash(b)))
                if hash(a) == hash(b):
                    return dict(confirmed=True, A=repr(a), B=repr(b), hash_equal=True, model=[str(za), str(zb)])
        return dict(confirmed=False, tried=tried, model=[str(za), str(zb)])
    except Exception as ex:  # pylint: disable=broad-except
        return dict(confirmed=None, note=f"replay failed: {ex}")
