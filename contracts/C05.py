"""C05 Result caching never changes results -- soundness of the cache key.

The cache is sound iff the key separates semantically different circuits.  Under contract:
 (a) the angle reduction in the operator hash (`_process_data`, `_canonicalize_dynamic`): for every operator name the source
     reduces modulo P, the gate must be EXACTLY P-periodic in every parameter (read from the AST on every run; decided on the
     real compute_matrix with symbolic parameters);
 (b) names that are not reduced are keyed on round(x, 10): a by-design quantum (known finding F16);
 (c) the tape fingerprint QuantumScript.hash must be an injective function of (operations, measurements, trainable
     parameters, shots) - decided over sequences of symbolic length by z3.
"""
import ast
import math

import numpy as np
import pennylane as qp
import z3

from vf.common import Plan, Obligation, Outcome, DISCHARGED, REFUTED, UNDECIDED, FAULT, find_def
from vf.symx.oblig import identity_obligation
from vf.symx.scalar import Sym, sym, poly_matrix
from vf.symx.ring import Poly, Cyc
from contracts.C02 import where_compute_matrix

BASE = "pennylane/core/operator/base.py"
OP2 = "pennylane/core/operator/operator2.py"
QS = "pennylane/core/qscript.py"


def reduction_table(file, qual, var):
    """[(names tuple, modulus as a multiple of pi)] read from `if <var> in (...): mod_val = k * np.pi` chains in the real source"""
    _, fn = find_def(file, qual)
    out = []
    for n in ast.walk(fn):
        if isinstance(n, ast.If):
            names = None
            for c in ast.walk(n.test):
                if isinstance(c, ast.Compare) and len(c.ops) == 1 and isinstance(c.ops[0], ast.In) and isinstance(c.comparators[0], ast.Tuple):
                    if all(isinstance(e, ast.Constant) and isinstance(e.value, str) for e in c.comparators[0].elts):
                        names = tuple(e.value for e in c.comparators[0].elts)
            if names is None:
                continue
            for st in n.body:
                if isinstance(st, ast.Assign) and isinstance(st.targets[0], ast.Name) and st.targets[0].id == "mod_val":
                    v = eval(compile(ast.Expression(st.value), "<mod_val>", "eval"), {"np": np, "math": math})  # noqa: S307 (constant expr)
                    out.append((names, v / math.pi))
    return out


def build(tier, seed):
    plan = Plan("C05", level="proof")
    plan.explanation = ("Cache-key soundness: every angle reduction applied by the operator hash is checked against the exact "
                        "period of the real gate matrix (symbolic parameters); the tape fingerprint is proved injective in its "
                        "components over sequences of symbolic length.")
    plan.trusted_base = ["vf/symx exact ring", "z3 sequences", "python hash() of distinct tuples treated as collision-free"]
    plan.assumptions = ["python's hash is collision-free on the fingerprints (assumed)", "numpy interface"]
    plan.unverified = ["qp.execute plumbing around _cache_transform", "_cache_transform hit/miss logic (planned E1 contract)",
                       "hashes of templates / hyperparameters via str()"]
    seen = set()
    for file, qual, var in ((BASE, "_process_data", "op.name"), (OP2, "_canonicalize_dynamic", "op_name")):
        plan.fn_under_contract(file, qual)
        for names, k in reduction_table(file, qual, var):
            from fractions import Fraction
            kf = Fraction(k).limit_denominator(64)
            for name in names:
                cls = getattr(qp, name, None)
                if cls is None or (name, qual) in seen:
                    continue
                seen.add((name, qual))
                npar = cls.num_params
                for j in range(npar):
                    pn = ["a", "b", "c"][:npar]

                    def shifted(S, cls=cls, pn=pn, j=j, kf=kf):
                        ps = [S[n] for n in pn]
                        ps[j] = ps[j] + Sym(Poly.gen(("pi",)).scale(Cyc.rat(kf)))
                        return cls.compute_matrix(*ps)

                    def plain(S, cls=cls, pn=pn):
                        return cls.compute_matrix(*[S[n] for n in pn])

                    def native_shift(env, cls=cls, pn=pn, j=j, kf=kf):
                        ps = [env[n] for n in pn]
                        ps[j] = ps[j] + float(kf) * math.pi
                        return cls.compute_matrix(*ps)

                    def native_plain(env, cls=cls, pn=pn):
                        return cls.compute_matrix(*[env[n] for n in pn])
                    ob = identity_obligation(
                        f"C05/{qual}/{name}/param{j}/post:matrix-is-{kf}pi-periodic", "post", pn, shifted, plain, native_shift,
                        native_ref=native_plain, seed=seed, func=(file, qual),
                        sample=f"hash reduces {name} angles modulo {kf}*pi => the matrix must have that exact period")
                    plan.add(ob)
    # (b) keys of parameters are rounded to a fixed number of decimals: by-design quantisation (known finding F16)
    plan.add(Obligation("C05/_process_data/post:key-separates-distinct-parameters", "post", lambda: rounding_quantum(),
                        finding="F16", func=(BASE, "_process_data"), replay=lambda w: rounding_replay(w),
                        sample="distinct parameter values get distinct cache keys"))
    # (c) fingerprint injectivity
    plan.fn_under_contract(QS, "QuantumScript.hash")
    plan.add(Obligation("C05/qscript:QuantumScript.hash/post:fingerprint-injective", "post", lambda: fingerprint_injective(),
                        func=(QS, "QuantumScript.hash"), replay=lambda w: fingerprint_replay(w),
                        sample="equal fingerprints => equal (op hashes, measurement hashes, trainable params, shots)"))
    return plan


def rounding_digits():
    """number of decimals the real source rounds parameters to in the hash (None when it does not round)"""
    for file, qual in ((BASE, "_process_data"), (OP2, "_canonicalize_dynamic")):
        _, fn = find_def(file, qual)
        for n in ast.walk(fn):
            if isinstance(n, ast.Call) and isinstance(n.func, ast.Attribute) and n.func.attr == "round" and len(n.args) == 2 \
                    and isinstance(n.args[1], ast.Constant):
                return int(n.args[1].value)
    return None


def rounding_quantum():
    d = rounding_digits()
    if d is None:
        return Outcome(DISCHARGED, "ast", "parameters enter the hash unrounded")
    w = dict(theta=0.7, delta=4.0 * 10 ** (-(d + 1)), decimals=d)
    return Outcome(REFUTED, "ast", f"the key is a function of round(x, {d}): parameters closer than 5e-{d + 1} share a key",
                   witness=w, replay=rounding_replay(w))


def rounding_replay(w):
    th, dl = w["theta"], w["delta"]
    dev = qp.device("default.qubit")

    def tape(t):
        return qp.tape.QuantumScript([qp.RY(t, 0)], [qp.expval(qp.Z(0))])
    batch = [tape(th), tape(th + dl)]
    cached = qp.execute(batch, dev, cache=True)
    plain = qp.execute(batch, dev, cache=False)
    same_key = hash(batch[0].operations[0]) == hash(batch[1].operations[0])
    diff = abs(float(cached[1]) - float(plain[1]))
    return dict(confirmed=bool(same_key and diff > 0), same_operator_hash=bool(same_key), cached=float(cached[1]), uncached=float(plain[1]),
                abs_difference=diff, note="second circuit of the batch receives the first one's cached result")


# ---- (c) the fingerprint as built by the real source -----------------------------------------------------------------------------
def fingerprint_shape():
    """Read how QuantumScript.hash assembles its fingerprint: list of (component, 'extend' | 'append')."""
    _, fn = find_def(QS, "QuantumScript.hash")
    parts = []
    for st in fn.body:
        if isinstance(st, ast.Expr) and isinstance(st.value, ast.Call) and isinstance(st.value.func, ast.Attribute) \
                and isinstance(st.value.func.value, ast.Name) and st.value.func.value.id == "fingerprint":
            how = st.value.func.attr
            src = ast.unparse(st.value.args[0])
            comp = ("ops" if "self.operations" in src else "meas" if "self.measurements" in src else
                    "trainable" if "trainable_params" in src else "shots" if "self.shots" in src else None)
            if comp is None or how not in ("extend", "append"):
                return None
            parts.append((comp, how))
    return parts


def fingerprint_injective():
    parts = fingerprint_shape()
    if not parts or {c for c, _ in parts} != {"ops", "meas", "trainable", "shots"}:
        return Outcome(UNDECIDED, "ast", f"fingerprint construction not recognised: {parts}")
    # element universe: Item = H(hash of an operator) | M(hash of a measurement) | I(int) | T(tuple of ints as a sequence)
    Item = z3.Datatype("Item")
    Item.declare("H", ("h", z3.IntSort()))
    Item.declare("M", ("m", z3.IntSort()))
    Item.declare("I", ("i", z3.IntSort()))
    Item.declare("T", ("t", z3.SeqSort(z3.IntSort())))
    Item = Item.create()
    IS = z3.SeqSort(z3.IntSort())
    SI = z3.SeqSort(Item)
    mapH = z3.Function("mapH", IS, SI)
    mapM = z3.Function("mapM", IS, SI)
    mapI = z3.Function("mapI", IS, SI)

    def state(tag):
        return {c: z3.Const(f"{c}_{tag}", IS) for c in ("ops", "meas", "trainable", "shots")}

    def fp(st):
        segs = []
        for comp, how in parts:
            if comp == "ops":
                segs.append(mapH(st[comp]))
            elif comp == "meas":
                segs.append(mapM(st[comp]))
            elif how == "extend":
                segs.append(mapI(st[comp]))
            else:
                segs.append(z3.Unit(Item.T(st[comp])))
        return z3.Concat(*segs) if len(segs) > 1 else segs[0]
    A, B = state("A"), state("B")
    s = z3.Solver()
    s.set("timeout", 20000)
    i = z3.Int("i")
    x = z3.Const("x", IS)
    # pointwise maps (length preserving, elementwise tagged): axioms of the three embeddings
    for f, ctor in ((mapH, Item.H), (mapM, Item.M), (mapI, Item.I)):
        for st in (A, B):
            for comp in st:
                v = st[comp]
                s.add(z3.Length(f(v)) == z3.Length(v))
                s.add(z3.ForAll([i], z3.Implies(z3.And(i >= 0, i < z3.Length(v)), f(v)[i] == ctor(v[i]))))
    s.add(fp(A) == fp(B))
    s.add(z3.Or(*[A[c] != B[c] for c in A]))
    # small-model search first (a refutation needs only short sequences)
    s2 = z3.Solver()
    s2.set("timeout", 20000)
    for a in s.assertions():
        s2.add(a)
    for st in (A, B):
        for comp in st:
            s2.add(z3.Length(st[comp]) <= 2)
    r = s2.check()
    if r == z3.sat:
        m = s2.model()

        def val(t):
            v = m.eval(t, model_completion=True)
            out = []

            def walk(e):
                k = e.decl().kind()
                if k == z3.Z3_OP_SEQ_UNIT:
                    out.append(e.arg(0).as_long())
                elif k == z3.Z3_OP_SEQ_CONCAT:
                    for ch in e.children():
                        walk(ch)
            walk(v)
            return out
        w = {tag: {c: val(st[c]) for c in st} for tag, st in (("A", A), ("B", B))}
        return Outcome(REFUTED, "z3-seq", f"two different circuits share a fingerprint (construction: {parts})", witness=w,
                       replay=fingerprint_replay(w))
    # proof: the operation hashes are H-tagged and the measurement hashes M-tagged items; the universally quantified tag facts
    # are instantiated exactly where the argument needs them (position len(ops) of the other circuit, first measurement)
    if [h for c, h in parts if c in ("trainable", "shots")] != ["append", "append"] or [c for c, _ in parts] != ["ops", "meas", "trainable", "shots"]:
        return Outcome(UNDECIDED, "z3-seq", f"no proof script for construction {parts}")
    OA, OB, MA, MB = z3.Consts("OA OB MA MB", SI)
    ta, tb, sa, sb = z3.Consts("ta tb sa sb", IS)
    FA = z3.Concat(OA, MA, z3.Unit(Item.T(ta)), z3.Unit(Item.T(sa)))
    FB = z3.Concat(OB, MB, z3.Unit(Item.T(tb)), z3.Unit(Item.T(sb)))
    W_A, W_B = z3.Concat(OA, MA), z3.Concat(OB, MB)

    def unsat(*facts):
        q = z3.Solver()
        q.set("timeout", 20000)
        q.add(*facts)
        return q.check() == z3.unsat
    # step 1: the two trailing single items and the remaining words agree
    WA, WB = z3.Consts("WA WB", SI)
    s1 = unsat(z3.Concat(WA, z3.Unit(Item.T(ta)), z3.Unit(Item.T(sa))) == z3.Concat(WB, z3.Unit(Item.T(tb)), z3.Unit(Item.T(sb))),
               z3.Or(WA != WB, ta != tb, sa != sb))
    # step 2: the ops/meas boundary is determined by the tags (instances of: ops items are H items, meas items are M items)
    s2 = True
    for (X, Y, MX, MY) in ((OA, OB, MA, MB), (OB, OA, MB, MA)):
        s2 = s2 and unsat(z3.Concat(X, MX) == z3.Concat(Y, MY), z3.Length(X) < z3.Length(Y), Item.is_H(Y[z3.Length(X)]),
                          z3.Implies(z3.Length(MX) > 0, Item.is_M(MX[0])))
    # step 3: equal boundary => equal segments
    s3 = unsat(W_A == W_B, z3.Length(OA) == z3.Length(OB), z3.Or(OA != OB, MA != MB))
    if s1 and s2 and s3:
        return Outcome(DISCHARGED, "z3-seq", f"fingerprint {parts} is injective in its four components (3-step argument: trailing "
                       "items, tag-determined boundary, equal segments)", extra=dict(sub_obligations=4))
    return Outcome(UNDECIDED, "z3-seq", f"proof steps discharged: trailing-items={s1} boundary={s2} segments={s3} for construction {parts}")


def fingerprint_replay(w):
    """Build two real tapes realising the witness (trainable indices / shot vectors) and compare hashes and cached results."""
    try:
        A, B = w["A"], w["B"]
        n = max([1] + [x + 1 for x in A["trainable"] + B["trainable"] if isinstance(x, int) and x >= 0])
        def tape(st):
            ops = [qp.RX(0.1 * (k + 1), wires=0) for k in range(n)]
            tr = [t for t in st["trainable"] if 0 <= t < n]
            shots = [s_ for s_ in st["shots"] if s_ > 0] or None
            return qp.tape.QuantumScript(ops, [qp.expval(qp.Z(0))], shots=shots, trainable_params=tr)
        ta, tb = tape(A), tape(B)
        same_hash = ta.hash == tb.hash
        differ = (list(ta.trainable_params) != list(tb.trainable_params)) or (ta.shots != tb.shots)
        return dict(confirmed=bool(same_hash and differ), hash_equal=bool(same_hash), tapes_differ=bool(differ),
                    tape_A=dict(trainable=list(ta.trainable_params), shots=str(ta.shots)),
                    tape_B=dict(trainable=list(tb.trainable_params), shots=str(tb.shots)))
    except Exception as ex:  # pylint: disable=broad-except
        return dict(confirmed=None, note=f"replay construction failed: {type(ex).__name__}: {ex}")
