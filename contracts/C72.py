"""C72 QAOA cost Hamiltonians encode their objectives -- qaoa/cost.py, qaoa/mixers.py, ops/op_math/linear_combination.py.

Abstract view.  A bitstring is a set `bits` of nodes (the nodes whose qubit is |1>); z(w) = -1 if w in bits else +1.  The operators
the builders create are records Op(n, k0, w0, k1, w1): a Pauli word of n in {1, 2} single-wire factors of kind k (0 = I, 1 = X,
2 = Y, 3 = Z).  The diagonal entry of a word of I / Z factors at the bitstring is (-1)^(number of Z factors sitting on a 1-bit);
DIAG is that closed formula.  For a coefficient list and an operator list of SYMBOLIC length
    EV(coeffs, ops, bits) = sum_k coeffs[k] * DIAG(ops[k], bits)
is a snoc-defined specification function; it is only ever used through INSTANCES of its two defining equations and through laws
proved here as base + step lemma pairs (induction itself is meta-level).

Objectives are written independently of the operators, as COUNTS over the edge / node sequences of the graph:
    N00 / NMX / N11 (edges, bits)   number of edges whose endpoints are coloured 00 / 01 or 10 / 11
    ONES(nodes, bits)               number of nodes whose bit is 1
"""
import itertools
import random

import z3

from vf.common import Plan, Obligation, Outcome, DISCHARGED, REFUTED, UNDECIDED, FAULT
from vf.pyvc.engine import (World, T, Int, Bool, Float, Label, LabelSort, NoneT, RecT, SeqT, SetT, TupleT, Rec, SeqV, SetV, PyList, FloatV,
                            Unsupp, RaiseExc, Opaque, to_int_term, real_of, fresh, set_budget)
from vf.pyvc.contract import FnContract, Case, LoopSpec, obligations_for
from vf.pyvc.contract import lemma as _lemma
from vf.pyvc.interp import Interp
from vf.pyvc import spec as S
from vf.pyvc.spec import And, Or, Not, Implies, If

COST = "pennylane/qaoa/cost.py"
MIX = "pennylane/qaoa/mixers.py"
LCF = "pennylane/ops/op_math/linear_combination.py"
PID = "C72"

# ---- stub records (ENVIRONMENT objects: operators, graphs; never code under contract) ----------------------------------------------
OP_FIELDS = {"n": Int, "k0": Int, "w0": Label, "k1": Int, "w1": Label}
STUB_SRC = '''
class Operator:
    pass


class Op(Operator):
    def __matmul__(self, other):
        assert self.n == 1 and other.n == 1
        return Op(2, self.k0, self.w0, other.k0, other.w0)


class PauliSentence:
    def __add__(self, other):
        return PauliSentence()


class Graph:
    def nodes(self):
        return self._nodes


class PyGraph:
    def nodes(self):
        return self._nodes

    def edge_list(self):
        return self._edge_list


class Mixer:
    pass


class LinearCombination(Operator):
    def __init__(self, coeffs, ops):
        if len(coeffs) != len(ops):
            raise ValueError("number of coefficients and operators does not match")
        self._coeffs = coeffs
        self._ops = ops
        self.grouping_indices = None

    @property
    def coeffs(self):
        return self._coeffs

    @property
    def ops(self):
        return self._ops

    def __add__(self, H):
        pass

    def __mul__(self, a):
        pass

    def __rmul__(self, a):
        pass
'''
OPT = RecT("Op")
EDGE = TupleT(Label, Label)
IEDGE = TupleT(Int, Int)

_W0 = World(COST, stubs={"Op": (STUB_SRC, OP_FIELDS)})          # only to create the sorts once (shared by all worlds through the class cache)
OPS = _W0.sort_of(OPT)
MKOP = OPS.constructor(0)
OP_N, OP_K0, OP_W0, OP_K1, OP_W1 = (OPS.accessor(0, i) for i in range(5))
EDGES = _W0.sort_of(EDGE)
MKEDGE = EDGES.constructor(0)
E0, E1 = EDGES.accessor(0, 0), EDGES.accessor(0, 1)

RS = z3.SeqSort(z3.RealSort())
OSEQ = z3.SeqSort(OPS)
LSEQ = z3.SeqSort(LabelSort)
ESEQ = z3.SeqSort(EDGES)
BITS = z3.ArraySort(LabelSort, z3.BoolSort())
R = z3.RealVal
R_EMPTY, O_EMPTY, L_EMPTY, E_EMPTY = z3.Empty(RS), z3.Empty(OSEQ), z3.Empty(LSEQ), z3.Empty(ESEQ)

EV = z3.Function("EV", RS, OSEQ, BITS, z3.RealSort())             # sum_k coeffs[k] * DIAG(ops[k])           (snoc-defined)
REP = z3.Function("rep", z3.RealSort(), z3.IntSort(), RS)         # [c] * n                                   (defined by n -> n+1)
SCALE = z3.Function("scaled", z3.RealSort(), RS, RS)              # [a * c for c in coeffs]                   (snoc-defined)
OPS1 = z3.Function("ops1", z3.IntSort(), LSEQ, OSEQ)              # [P_kind(w) for w in wires]                (snoc-defined)
OPS2 = z3.Function("ops2", z3.IntSort(), ESEQ, OSEQ)              # [P_kind(e0) @ P_kind(e1) for e in edges]  (snoc-defined)
ONES = z3.Function("ones", LSEQ, BITS, z3.IntSort())              # number of 1-bits among the nodes          (snoc-defined)
N00 = z3.Function("n00", ESEQ, BITS, z3.IntSort())                # number of edges coloured 00               (snoc-defined)
NMX = z3.Function("nmixed", ESEQ, BITS, z3.IntSort())             # number of edges coloured 01 / 10 (cut edges)
N11 = z3.Function("n11", ESEQ, BITS, z3.IntSort())                # number of edges coloured 11


def snoc(s, x):
    return z3.Concat(s, z3.Unit(x))


def mkop1(k, w):
    return MKOP(z3.IntVal(1), z3.IntVal(k) if isinstance(k, int) else k, w, z3.IntVal(0), w)


def mkop2(k, a, b):
    k = z3.IntVal(k) if isinstance(k, int) else k
    return MKOP(z3.IntVal(2), k, a, k, b)


def bit(bits, w):
    return z3.Select(bits, w)


def neg_factor(bits, k, w):
    """the factor of kind k on wire w contributes -1 (a Z on a 1-bit)"""
    return z3.And(k == 3, bit(bits, w))


def parity(bits, op):
    return z3.Xor(neg_factor(bits, OP_K0(op), OP_W0(op)), z3.And(OP_N(op) == 2, neg_factor(bits, OP_K1(op), OP_W1(op))))


def term(bits, c, op):
    """c * DIAG(op, bits), written without a product"""
    return z3.If(parity(bits, op), -c, c)


def i01(c):
    return z3.If(c, z3.IntVal(1), z3.IntVal(0))


# ---- defining equations (instances) --------------------------------------------------------------------------------------------------
def ev_def(cs, c, os_, o, bits):
    return [EV(R_EMPTY, O_EMPTY, bits) == 0, EV(snoc(cs, c), snoc(os_, o), bits) == EV(cs, os_, bits) + term(bits, c, o)]


def rep_def(c, n):
    return [REP(c, 0) == R_EMPTY, z3.Implies(n >= 0, REP(c, n + 1) == snoc(REP(c, n), c))]


def scale_def(a, cs, c):
    return [SCALE(a, R_EMPTY) == R_EMPTY, SCALE(a, snoc(cs, c)) == snoc(SCALE(a, cs), a * c)]


def ops1_def(k, ws, w_):
    k = z3.IntVal(k) if isinstance(k, int) else k
    return [OPS1(k, L_EMPTY) == O_EMPTY, OPS1(k, snoc(ws, w_)) == snoc(OPS1(k, ws), mkop1(k, w_))]


def ops2_def(k, es, e):
    k = z3.IntVal(k) if isinstance(k, int) else k
    return [OPS2(k, E_EMPTY) == O_EMPTY, OPS2(k, snoc(es, e)) == snoc(OPS2(k, es), mkop2(k, E0(e), E1(e)))]


def ones_def(ws, w_, bits):
    return [ONES(L_EMPTY, bits) == 0, ONES(snoc(ws, w_), bits) == ONES(ws, bits) + i01(bit(bits, w_))]


def count_defs(es, e, bits):
    b0, b1 = bit(bits, E0(e)), bit(bits, E1(e))
    return [N00(E_EMPTY, bits) == 0, NMX(E_EMPTY, bits) == 0, N11(E_EMPTY, bits) == 0,
            N00(snoc(es, e), bits) == N00(es, bits) + i01(z3.And(z3.Not(b0), z3.Not(b1))),
            NMX(snoc(es, e), bits) == NMX(es, bits) + i01(z3.Xor(b0, b1)),
            N11(snoc(es, e), bits) == N11(es, bits) + i01(z3.And(b0, b1))]


def snoc_slice(s, k):
    """sequence fact: s[:k+1] == s[:k] ++ [s[k]]"""
    return z3.Implies(z3.And(k >= 0, k < z3.Length(s)), z3.Extract(s, 0, k + 1) == snoc(z3.Extract(s, 0, k), s[k]))


def flat(t):
    """children of a (possibly nested) concatenation, left to right"""
    if z3.is_app_of(t, z3.Z3_OP_SEQ_CONCAT):
        out = []
        for c in t.children():
            out += flat(c)
        return out
    return [t]


def cat(parts, empty):
    if not parts:
        return empty
    return parts[0] if len(parts) == 1 else z3.Concat(*parts)


def ev_unfold(cs, os_, bits):
    """instances of EV's defining equation for every trailing unit element that the terms `cs`, `os_` carry syntactically:
    EV(c' ++ [x1..xm], o' ++ [p1..pm]) is unfolded m times"""
    out = [EV(R_EMPTY, O_EMPTY, bits) == 0]
    a, b = flat(cs), flat(os_)
    while a and b and z3.is_app_of(a[-1], z3.Z3_OP_SEQ_UNIT) and z3.is_app_of(b[-1], z3.Z3_OP_SEQ_UNIT):
        x, p = a.pop().arg(0), b.pop().arg(0)
        out.append(ev_def(cat(a, R_EMPTY), x, cat(b, O_EMPTY), p, bits)[1])
    return out


# ---- laws (instances of the lemmas proved below by base + step) -----------------------------------------------------------------------
def ev_concat(c1, o1, c2, o2, bits):
    return z3.Implies(z3.Length(c2) == z3.Length(o2), EV(z3.Concat(c1, c2), z3.Concat(o1, o2), bits) == EV(c1, o1, bits) + EV(c2, o2, bits))


def ev_scale(a, cs, os_, bits):
    return z3.Implies(z3.Length(cs) == z3.Length(os_), z3.And(EV(SCALE(a, cs), os_, bits) == a * EV(cs, os_, bits),
                                                            z3.Length(SCALE(a, cs)) == z3.Length(cs)))


def scale_len(a, cs):
    return z3.Length(SCALE(a, cs)) == z3.Length(cs)


def ev_const_wires(c, k, ws, bits):
    """constant coefficient c on [P_k(w) for w in ws], k in {0: I, 3: Z}"""
    n = z3.Length(ws)
    val = c * z3.ToReal(n - 2 * ONES(ws, bits)) if k == 3 else c * z3.ToReal(n)
    return z3.And(EV(REP(c, n), OPS1(z3.IntVal(k), ws), bits) == val, z3.Length(REP(c, n)) == n, z3.Length(OPS1(z3.IntVal(k), ws)) == n)


def ev_const_identity_pairs(c, es, bits):
    n = z3.Length(es)
    return z3.And(EV(REP(c, n), OPS2(z3.IntVal(0), es), bits) == c * z3.ToReal(n), z3.Length(REP(c, n)) == n,
                  z3.Length(OPS2(z3.IntVal(0), es)) == n)


def counts_total(es, bits):
    return z3.And(N00(es, bits) + NMX(es, bits) + N11(es, bits) == z3.Length(es), N00(es, bits) >= 0, NMX(es, bits) >= 0, N11(es, bits) >= 0)


LEMMA_HYPS = []


def lemma(name, vars_, goal, assumptions=(), **kw):
    LEMMA_HYPS.append((name, list(assumptions)))
    return _lemma(PID, name, vars_, goal, assumptions=assumptions, **kw)


def add_lemmas(plan):
    cs, c1, c2 = z3.Consts("cs c1 c2", RS)
    os_, o1, o2 = z3.Consts("os o1 o2", OSEQ)
    ws = z3.Const("ws", LSEQ)
    es = z3.Const("es", ESEQ)
    bits = z3.Const("bits", BITS)
    x, a = z3.Reals("x a")
    p = z3.Const("p", OPS)
    w_ = z3.Const("w", LabelSort)
    e = z3.Const("e", EDGES)
    n = z3.Int("n")
    L = []
    # EV is additive over concatenation (induction on the second pair of lists, snoc)
    L.append(lemma("EV-concat/base", [c1, o1, bits], ev_concat(c1, o1, R_EMPTY, O_EMPTY, bits), ev_def(cs, x, os_, p, bits)))
    L.append(lemma("EV-concat/step", [c1, o1, c2, o2, x, p, bits], ev_concat(c1, o1, snoc(c2, x), snoc(o2, p), bits),
                   ev_def(z3.Concat(c1, c2), x, z3.Concat(o1, o2), p, bits) + ev_def(c2, x, o2, p, bits) + [ev_concat(c1, o1, c2, o2, bits)]))
    # EV is homogeneous (induction on the pair of lists, snoc); a is an arbitrary real
    L.append(lemma("EV-scale/base", [a, bits], ev_scale(a, R_EMPTY, O_EMPTY, bits), ev_def(cs, x, os_, p, bits) + scale_def(a, cs, x)))
    L.append(lemma("EV-scale/step", [a, cs, os_, x, p, bits], ev_scale(a, snoc(cs, x), snoc(os_, p), bits),
                   ev_def(cs, x, os_, p, bits) + ev_def(SCALE(a, cs), a * x, os_, p, bits) + scale_def(a, cs, x) + [ev_scale(a, cs, os_, bits)]))
    L.append(lemma("scaled-length/base", [a], scale_len(a, R_EMPTY), scale_def(a, cs, x)))
    L.append(lemma("scaled-length/step", [a, cs, x], scale_len(a, snoc(cs, x)), scale_def(a, cs, x) + [scale_len(a, cs)]))
    # constant coefficient lists on single-wire words
    for cname, c in (("+1", R(1)), ("-1", R(-1))):
        for k, kn in ((3, "Z"), (0, "I")):
            if k == 0 and cname == "-1":
                continue
            nn = z3.Length(ws)
            hyp = ev_def(REP(c, nn), c, OPS1(z3.IntVal(k), ws), mkop1(k, w_), bits) + rep_def(c, nn) + ops1_def(k, ws, w_) + ones_def(ws, w_, bits)
            L.append(lemma(f"EV-constant[{cname}*{kn}(w) over the wires]/base", [bits], ev_const_wires(c, k, L_EMPTY, bits), hyp))
            L.append(lemma(f"EV-constant[{cname}*{kn}(w) over the wires]/step", [ws, w_, bits], ev_const_wires(c, k, snoc(ws, w_), bits),
                           hyp + [ev_const_wires(c, k, ws, bits)]))
    c = R("-1/2")
    nn = z3.Length(es)
    hyp = ev_def(REP(c, nn), c, OPS2(z3.IntVal(0), es), mkop2(0, E0(e), E1(e)), bits) + rep_def(c, nn) + ops2_def(0, es, e)
    L.append(lemma("EV-constant[-1/2*(I@I) over the edges]/base", [bits], ev_const_identity_pairs(c, E_EMPTY, bits), hyp))
    L.append(lemma("EV-constant[-1/2*(I@I) over the edges]/step", [es, e, bits], ev_const_identity_pairs(c, snoc(es, e), bits),
                   hyp + [ev_const_identity_pairs(c, es, bits)]))
    # the three colour classes partition the edges
    L.append(lemma("edge-counts-partition/base", [bits], counts_total(E_EMPTY, bits), count_defs(es, e, bits)))
    L.append(lemma("edge-counts-partition/step", [es, e, bits], counts_total(snoc(es, e), bits), count_defs(es, e, bits) + [counts_total(es, bits)]))
    sq = z3.Const("sq", LSEQ)
    L.append(lemma("seq/snoc-slice[nodes]", [sq, n], snoc_slice(sq, n)))
    L.append(lemma("seq/snoc-slice[edges]", [es, n], snoc_slice(es, n)))
    for ob in L:
        plan.add(ob)


# ---- native evaluation (replay): diagonal entry of the returned operator at a bitstring, term by term ---------------------------------------
def native_diag(op, ones):
    import pennylane as qp
    from pennylane.ops.op_math import Prod, SProd
    if isinstance(op, Prod):
        v = 1.0
        for f in op.operands:
            v *= native_diag(f, ones)
        return v
    if isinstance(op, SProd):
        return float(op.scalar) * native_diag(op.base, ones)
    if isinstance(op, qp.Z):
        return -1.0 if op.wires[0] in ones else 1.0
    if isinstance(op, qp.Identity):
        return 1.0
    raise TypeError(f"not a word of I / Z factors: {op!r}")


def native_ev(H, ones):
    coeffs, ops = H.terms()
    if len(coeffs) != len(ops):
        raise ValueError("terms() of unequal lengths")
    return sum(float(c) * native_diag(o, ones) for c, o in zip(coeffs, ops))


def real_op(f):
    """stub record Op -> real PennyLane operator (kinds outside 0..3 / word lengths outside 1..2 are read as the spec reads them:
    only `k == 3` and `n == 2` matter for DIAG)"""
    import pennylane as qp
    mk = {0: qp.Identity, 1: qp.X, 2: qp.Y, 3: qp.Z}
    a = mk.get(f["k0"], qp.Identity)(f["w0"])
    if f["n"] == 2:
        return qp.prod(a, mk.get(f["k1"], qp.Identity)(f["w1"]))
    return a


def fl(x):
    """model value of a real (int / float / 'p/q' string) -> float"""
    from fractions import Fraction
    return float(Fraction(x)) if isinstance(x, str) else float(x)


def close(a, b):
    return abs(a - b) <= 1e-9 * (1 + abs(a) + abs(b))


def is_sym(x):
    return isinstance(x, (Rec, SeqV, SetV, z3.ExprRef, FloatV, PyList))


class QInterp(Interp):
    """additive value semantics: python sets of CONCRETE strings (the reward colourings)"""

    def binop(self, op, a, b, node=None):
        import ast
        if isinstance(a, frozenset) and isinstance(b, frozenset) and isinstance(op, ast.Sub):
            return a - b
        return super().binop(op, a, b, node)

    def index(self, obj, idx, node=None):
        if isinstance(obj, UList) and len(obj.items) > 1:
            raise Unsupp("element order of a python set with more than one element is unspecified")
        return super().index(obj, idx, node)


class UList(PyList):
    """list(<set>): only its length and -- for a singleton -- its element are determined"""


def b_set(it, args, kw):
    if len(args) == 1 and isinstance(args[0], PyList) and all(isinstance(x, str) for x in args[0].items):
        return frozenset(args[0].items)
    if len(args) == 1 and isinstance(args[0], frozenset):
        return args[0]
    return it.b_set(args, kw, None)


def b_list(it, args, kw):
    if len(args) == 1 and isinstance(args[0], frozenset):
        return UList(sorted(args[0]))
    return it.b_list(args, kw, None)


class GhostFn(FnContract):
    """the real function with one extra keyword-only GHOST parameter `bits` (the bitstring the postcondition speaks about): the body is
    the real one, statement for statement; the ghost parameter is never read by it"""

    def node(self):
        import ast
        import copy
        fn = FnContract.node(self)
        new = copy.copy(fn)
        new.args = copy.deepcopy(fn.args)
        if any(a.arg == "bits" for a in new.args.args + new.args.kwonlyargs):
            raise KeyError(f"{self.qualname} has a parameter called `bits`")
        new.args.kwonlyargs = list(new.args.kwonlyargs) + [ast.arg(arg="bits")]
        new.args.kw_defaults = list(new.args.kw_defaults) + [None]
        return new


GHOST = {"bits": "bits"}


def mk_op_rec(world, n, k0, w0, k1, w1):
    return Rec(world.classes["Op"], {"n": n, "k0": k0, "w0": w0, "k1": k1, "w1": w1})


def pauli_builtin(kind):
    def f(it, args, kw):
        (w_,) = args
        if not (isinstance(w_, z3.ExprRef) and w_.sort() == LabelSort):
            raise Unsupp(f"operator on a non-label wire {w_!r}")
        return mk_op_rec(it.world, 1, kind, w_, 0, w_)
    return f


def st(world, v, elem):
    return S.seqterm(world, v, elem)


def lc_terms(world, r):
    """(coeffs term, ops term) of a symbolic LinearCombination record"""
    return st(world, r.f["_coeffs"], Float), st(world, r.f["_ops"], OPT)


def bits_term(b):
    return b.term


# ======================================================================================================================================
def build(tier, seed):
    del LEMMA_HYPS[:]
    plan = Plan(PID, level="proof")
    plan.explanation = (
        "The real bodies of bit_driver, edge_driver, maxcut, max_independent_set, min_vertex_cover, max_clique (qaoa/cost.py), x_mixer "
        "(qaoa/mixers.py) and LinearCombination.__add__ / __mul__ (= __rmul__) are executed symbolically (E1) for graphs whose node and edge "
        "lists are sequences of SYMBOLIC length (networkx: node pairs; rustworkx for edge_driver / MIS / MVC: sorted index pairs read through "
        "nodes()[i]) and for an arbitrary bitstring (a ghost set of nodes). Operators are records of Pauli words; "
        "the diagonal entry of a coefficient/operator list pair is the snoc-defined EV. edge_driver: one loop invariant per reward set on the "
        "real `for e in graph_edges` loops -- EV(coeffs, ops) == sum over the edges processed so far of the documented energy "
        "|reward|/4 - [colouring in reward], with the counts of 00 / mixed / 11 edges as independent snoc-defined counters; the 0- and "
        "4-element reward sets give the constant |V|. bit_driver: EV == (-1)^(b+1) * (|wires| - 2 * #ones), ValueError iff b not in {0, 1}. "
        "LinearCombination: EV(a + b) == EV(a) + EV(b) and EV(c * a) == c * EV(a) on the real bodies (concatenation / elementwise scaling "
        "models of qp.math). The four optimisation problems are then executed modularly (callee contracts, not bodies) and their diagonal is "
        "proved equal to an objective written with counts only: maxcut == -(cut edges); MIS / clique == |V| - 2*chosen (constrained) or "
        "3*(violated edges) - 2*chosen + |V| - 3/4*|E| (unconstrained, on the complement graph for max_clique); MVC == 2*chosen - |V| or "
        "3*(uncovered edges) + 2*chosen - |V| - 3/4*|E|; the returned mixer is the documented builder applied to the documented argument. "
        "Laws about EV (additivity over concatenation, homogeneity, constant coefficient lists) and about the counters are base + step lemma "
        "pairs. Counter-models are replayed on the real functions with real networkx graphs, the diagonal being evaluated term by term from "
        "terms(). Bounded stand-ins (never counted as proof): random graphs of <= 6 nodes, networkx and rustworkx, weighted and unweighted, "
        "every bitstring, diagonal of qp.matrix against plain-python objectives, and the mixers against numpy.kron reference matrices.")
    plan.trusted_base = [
        "vf/pyvc encoder (Python subset semantics)", "z3: sequences, linear real/integer arithmetic, arrays, datatypes, EUF",
        "induction over finite sequences (meta-level) for every base + step lemma pair",
        "the defining equations of EV / rep / scaled / ops1 / ops2 / ones / n00 / nmixed / n11 in this file",
        "diagonal entry of a word of I / Z factors at a bitstring == (-1)^(number of Z factors on 1-bits) (DIAG); a LinearCombination "
        "denotes sum_k coeffs[k] * ops[k]",
        "a finite sum does not depend on the order of its terms (the objectives are sums over the edge / node SEQUENCES in iteration order)"]
    plan.assumptions = [
        "A-float-as-real: coefficients (0.25, 0.5, -0.5, 3 * 0.25 ..., all dyadic) are real numbers; binary64 rounding is not modelled",
        "graph nodes are opaque hashable labels; networkx `graph.edges` iterates 2-tuples of nodes, `graph.nodes()` iterates the nodes (stub "
        "record Graph(_nodes, edges)); the proofs hold for ARBITRARY node / edge sequences (duplicates, self-loops, endpoints outside the "
        "node list included), a superset of well-formed graphs",
        "the bitstring is a set of nodes (ghost parameter `bits` added to the signature of the function under contract; never read by the body)",
        "reward lists are concrete python lists WITHOUT duplicates (one case per reward set, in the element orders used by cost.py and one other)"]
    plan.assumed_contracts = [
        "LinearCombination(coeffs, ops) (constructor, stub): ValueError when the lengths differ, otherwise stores both lists and denotes "
        "sum_k coeffs[k]*ops[k]; the cached _pauli_rep / grouping data are consistent with the lists (only the bounded qp.matrix stand-ins see them)",
        "Z(w) / Identity(w) / X(w) and `A @ B` of two single-wire operators build the Pauli word records Op(n, kinds, wires)",
        "qp.math.concatenate([a, b], axis=0) of two coefficient lists is their concatenation; qp.math.multiply(c, a) is elementwise scaling; "
        "copy(list) is a shallow copy; qp.math.cast_like([1.0], .) is [1.0]",
        "networkx.complement(G): same nodes, edge list a function of G's node and edge lists (COMPL, uninterpreted): max_clique's objective "
        "is stated over the complement's edge list without saying which pairs it contains",
        "rustworkx: PyGraph.nodes() is the list of node payloads, edge_list() a list of index pairs; sorted(edge_list()) has the same length "
        "and its elements are elements of edge_list() (used as: every pair of the sorted list indexes inside nodes(), given that every "
        "pair of edge_list() does); the objective of the rustworkx cases is the sum over the SORTED index pairs mapped to node pairs",
        "python set(list of str) / list(set): only the length and the element of a singleton are used (any other indexing is refused)",
        "Wires(seq) of distinct labels iterates them in order (x_mixer)",
        "x_mixer / bit_flip_mixer inside cost.py are opaque builders (their results are compared by builder name and arguments)"]
    plan.unverified = [
        "rustworkx inputs: edge_driver (reward sets {00}, {10,01}, {10,01,00}, {11,10,01}), max_independent_set and min_vertex_cover are proved "
        "on the is_rx path; maxcut's and max_clique's rustworkx paths (identity_h over sorted index pairs, rx.complement) only by the bounded "
        "native stand-ins; rustworkx graphs whose node indices are not 0..n-1 (nodes removed) are EXCLUDED by precondition -- there "
        "graph_nodes[i] reads another node or raises IndexError (observation reported to the lead)",
        "max_weight_cycle, loss_hamiltonian, cycle_mixer, net_flow_constraint, out_flow_constraint (cycle.py): not covered",
        "xy_mixer, bit_flip_mixer: only the bounded native stand-ins (reference matrices)",
        "reward lists with repeated entries (edge_driver tests len(reward) before deduplicating)",
        "the docstring FORMULAS of the unconstrained Hamiltonians (3 * sum(ZiZj -+ Zi -+ Zj)): the code builds 3 * edge_driver = 3/4 * sum(...); "
        "the contract follows the composition 3 * edge_driver + bit_driver with edge_driver's documented energies",
        "grouping_indices set by the builders; the cached pauli_rep of the results; LinearCombination + number / non-operator operands",
        "that the minimisers of the objectives are the optimal cuts / independent sets / covers / cliques (combinatorics, not code)"]
    plan.size_bounds = ["bounded native stand-ins: 12 (quick) / 60 (thorough) graphs of <= 6 nodes (mixers <= 5), all 2^n bitstrings; every third graph also with edge weights"]
    plan.dropped = ["docstrings, annotations, f-string messages; `import networkx` statements; the TYPE_CHECKING block"]
    add_lemmas(plan)
    add_linear_combination(plan, tier)
    add_bit_driver(plan, tier)
    add_edge_driver(plan, tier)
    add_problems(plan, tier)
    add_mixers(plan, tier)
    add_edge_driver_rx(plan, tier)
    add_bounded_native(plan, tier, seed)

    def hyps_consistent(snapshot=tuple(LEMMA_HYPS)):
        bad = []
        for name, asm in snapshot:
            sv = z3.Solver()
            set_budget(sv, 4000)
            sv.add(*asm)
            if sv.check() == z3.unsat:
                bad.append(name)
        if bad:
            return Outcome(FAULT, "z3", f"contradictory lemma hypotheses: {bad}")
        return Outcome(DISCHARGED, "z3", f"hypotheses of {len(snapshot)} lemmas are not refutable")
    plan.add(Obligation(f"{PID}/lemma-hypotheses-are-consistent", "lemma", hyps_consistent, bounded=True, timeout=240,
                        sample="no lemma is proved from contradictory hypotheses"))
    return plan


# ======================================================================================================================================
# LinearCombination arithmetic (the real __add__ / __mul__ / __rmul__ bodies)
def lc_model_ctor(world, ps_default=True):
    """assumed contract of the LinearCombination constructor: ValueError on a length mismatch, otherwise an operator denoting
    sum_k coeffs[k] * ops[k] that stores the two lists"""
    def ctor(it, args, kw):
        coeffs, ops = args[0], args[1]
        lc_, lo_ = z3.Length(st(world, coeffs, Float)), z3.Length(st(world, ops, OPT))
        if it.ctx.branch(lc_ != lo_):
            raise RaiseExc("ValueError")
        ci = world.classes["LinearCombination"]
        f = {"_coeffs": coeffs, "_ops": ops}
        if "pauli_rep" in ci.fields:
            pr = kw.get("_pauli_rep")
            f["pauli_rep"] = pr if pr is not None else Rec(world.classes["PauliSentence"], {})
        if "grouping_indices" in ci.fields:
            f["grouping_indices"] = None
        return Rec(ci, f)
    return ctor


def as_real_seq(world, v):
    if isinstance(v, SeqV):
        return v.term
    return world.box(v, SeqT(Float))


def add_linear_combination(plan, tier):
    def m_concat(it, args, kw):
        parts = args[0]
        if not isinstance(parts, PyList) or len(parts.items) != 2:
            raise Unsupp("concatenate of other than two lists")
        a, b = (as_real_seq(it.world, p) for p in parts.items)
        return SeqV(z3.Concat(a, b), Float)

    def m_multiply(it, args, kw):
        a, cs = args
        t = as_real_seq(it.world, cs)
        it.ctx.assume(scale_len(real_of(a), t))          # instance of the proved lemma scaled-length
        return SeqV(SCALE(real_of(a), t), Float)

    def m_copy(it, args, kw):
        (v,) = args
        if isinstance(v, SeqV):
            return SeqV(v.term, v.elem, v.is_tuple)
        raise Unsupp("copy of a non-list")
    w = World(LCF, classes={"LinearCombination": {"_coeffs": SeqT(Float), "_ops": SeqT(OPT), "pauli_rep": RecT("PauliSentence")}},
              stubs={"Operator": (STUB_SRC, {}), "Op": (STUB_SRC, OP_FIELDS), "PauliSentence": (STUB_SRC, {})},
              extra_builtins={"qp.math.concatenate": m_concat, "qp.math.multiply": m_multiply, "copy": m_copy,
                              "qp.math.cast_like": lambda it, a, k: a[0]})
    w.extra_builtins["qp.ops.LinearCombination"] = lc_model_ctor(w)

    def real_lc(f):
        import pennylane as qp
        return qp.ops.LinearCombination([fl(c) for c in f["_coeffs"]], list(f["_ops"]))
    w.stub_realize = {"Op": real_op, "LinearCombination": real_lc, "PauliSentence": lambda f: None}
    LC = RecT("LinearCombination")
    LC_NOREP = T("rec", "LinearCombination", override={"pauli_rep": NoneT})

    def wf(x):
        if not isinstance(x, Rec):
            return len(x.coeffs) == len(x.ops)
        c, o = lc_terms(w, x)
        return z3.Length(c) == z3.Length(o)

    def fix_lengths(rng, m):
        """well-formed inputs for the native run: equally long lists (the class invariant)"""
        m = dict(m)
        for k in ("self", "H"):
            v = m.get(k)
            if isinstance(v, dict) and v.get("__class__") == "LinearCombination":
                n = min(len(v["_coeffs"]), len(v["_ops"]))
                m[k] = dict(v, _coeffs=list(v["_coeffs"])[:n], _ops=list(v["_ops"])[:n])
        return m

    # ---- __add__ ----------------------------------------------------------------------------------------------------------------------
    def add_ens(o, r, nw):
        if isinstance(o.self, Rec):
            if not isinstance(r, Rec):
                return False
            b = o.bits.term
            rc, ro = lc_terms(w, r)
            sc, so = lc_terms(w, o.self)
            hc, ho = lc_terms(w, o.H)
            return z3.And(rc == z3.Concat(sc, hc), ro == z3.Concat(so, ho), z3.Length(rc) == z3.Length(ro),
                          EV(rc, ro, b) == EV(sc, so, b) + EV(hc, ho, b))
        rc, ro = r.terms()
        return (len(rc) == len(ro) and [float(c) for c in rc] == [float(c) for c in o.self.coeffs] + [float(c) for c in o.H.coeffs]
                and len(ro) == len(o.self.ops) + len(o.H.ops) and close(native_ev(r, o.bits), native_ev(o.self, o.bits) + native_ev(o.H, o.bits)))

    def add_ax(o, r, nw):
        b = o.bits.term
        sc, so = lc_terms(w, o.self)
        hc, ho = lc_terms(w, o.H)
        return [ev_concat(sc, so, hc, ho, b)]

    def add_op_ens(o, r, nw):
        if isinstance(o.self, Rec):
            if not isinstance(r, Rec):
                return False
            b = o.bits.term
            rc, ro = lc_terms(w, r)
            sc, so = lc_terms(w, o.self)
            h = w.box(o.H, OPT)
            return z3.And(rc == snoc(sc, R(1)), ro == snoc(so, h), EV(rc, ro, b) == EV(sc, so, b) + term(b, R(1), h))
        return close(native_ev(r, o.bits), native_ev(o.self, o.bits) + native_diag(o.H, o.bits)) and len(r.ops) == len(o.self.ops) + 1

    add_cases = []
    for lab, t in (("both operands carry a pauli_rep", LC), ("no pauli_rep", LC_NOREP)):
        add_cases.append(Case(f"LinearCombination + LinearCombination [any lengths; {lab}]", {"self": t, "H": t, "bits": SetT(Label)},
                              requires=lambda a: And(wf(a.self), wf(a.H)), ensures=add_ens, axioms=add_ax, must_return=lambda o: True,
                              native_gen=fix_lengths, kwargs_map=GHOST, native_call=lambda mod, a: a["self"] + a["H"]))
    add_cases.append(Case("LinearCombination + single operator [any length]", {"self": LC, "H": OPT, "bits": SetT(Label)},
                          requires=lambda a: wf(a.self), ensures=add_op_ens, must_return=lambda o: True,
                          axioms=lambda o, r, nw: ev_unfold(lc_terms(w, r)[0], lc_terms(w, r)[1], o.bits.term) if isinstance(r, Rec) else [],
                          native_gen=fix_lengths, kwargs_map=GHOST, native_call=lambda mod, a: a["self"] + a["H"]))
    fadd = GhostFn(w, "LinearCombination.__add__", add_cases)

    # ---- __mul__ / __rmul__ ---------------------------------------------------------------------------------------------------------------
    def mul_ens(o, r, nw):
        if isinstance(o.self, Rec):
            if not isinstance(r, Rec):
                return False
            b = o.bits.term
            rc, ro = lc_terms(w, r)
            sc, so = lc_terms(w, o.self)
            a = real_of(o.a)
            return z3.And(rc == SCALE(a, sc), ro == so, z3.Length(rc) == z3.Length(ro), EV(rc, ro, b) == a * EV(sc, so, b))
        return (len(r.coeffs) == len(r.ops) == len(o.self.ops) and all(close(float(x), o.a * float(y)) for x, y in zip(r.coeffs, o.self.coeffs))
                and close(native_ev(r, o.bits), o.a * native_ev(o.self, o.bits)))

    def mul_ax(o, r, nw):
        sc, so = lc_terms(w, o.self)
        return [ev_scale(real_of(o.a), sc, so, o.bits.term)]
    fmul = GhostFn(w, "LinearCombination.__mul__", [
        Case(f"scalar multiple [any length; {lab} scalar]", {"self": LC, "a": t, "bits": SetT(Label)}, requires=lambda a: wf(a.self),
             ensures=mul_ens, axioms=mul_ax, must_return=lambda o: True, native_gen=fix_lengths, kwargs_map=GHOST,
             native_call=(lambda mod, a: a["self"] * a["a"]) if lab == "int" else (lambda mod, a: a["a"] * a["self"]))
        for lab, t in (("int", Int), ("float", Float))])

    def rmul_alias():
        """`__rmul__ = __mul__` and `__radd__ = __add__` in the class body (what `3 * H` dispatches to)"""
        import ast
        from vf.common import find_def
        _, node = find_def(LCF, "LinearCombination")
        al = {n.targets[0].id: n.value.id for n in node.body if isinstance(n, ast.Assign) and len(n.targets) == 1
              and isinstance(n.targets[0], ast.Name) and isinstance(n.value, ast.Name)}
        ok = al.get("__rmul__") == "__mul__" and al.get("__radd__") == "__add__"
        if ok:
            return Outcome(DISCHARGED, "ast", "class body binds __rmul__ = __mul__ and __radd__ = __add__")
        import pennylane as qp
        H = qp.ops.LinearCombination([0.5, -1.0], [qp.Z(0), qp.Z(0) @ qp.Z(1)])
        try:
            r = 3 * H
            bad = not (hasattr(r, "terms") and [float(c) for c in r.terms()[0]] == [1.5, -3.0])
            obs = repr(r)
        except Exception as ex:  # pylint: disable=broad-except
            bad, obs = True, f"raised {type(ex).__name__}: {ex}"
        if bad:
            return Outcome(REFUTED, "ast+native", "LinearCombination.__rmul__ is no longer __mul__", witness=dict(expr="3 * LinearCombination([0.5, -1], [Z0, Z0@Z1])"),
                           replay=dict(confirmed=True, observed=obs, expected="coefficients [1.5, -3.0]"))
        return Outcome(UNDECIDED, "ast", f"aliases changed: {al}")
    plan.add(Obligation(f"{PID}/linear_combination:LinearCombination.__rmul__/is-__mul__", "frame", rmul_alias, func=(LCF, "LinearCombination"),
                        sample="`__rmul__ = __mul__`, `__radd__ = __add__`"))
    for fc in (fadd, fmul):
        for ob in obligations_for(PID, fc, tier):
            plan.add(ob)
        plan.fn_under_contract(LCF, fc.qualname)


# ======================================================================================================================================
# cost.py
def cost_world(modular=None, extra=None):
    fields_lc = {"_coeffs": SeqT(Float), "_ops": SeqT(OPT), "grouping_indices": NoneT}
    xb = {"Z": pauli_builtin(3), "Identity": pauli_builtin(0), "set": b_set, "list": b_list}
    xb.update(extra or {})
    w = World(COST, functions=["_validate_graph", "bit_driver", "edge_driver", "maxcut", "max_independent_set", "min_vertex_cover", "max_clique"],
              stubs={"Operator": (STUB_SRC, {}), "Op": (STUB_SRC, OP_FIELDS), "LinearCombination": (STUB_SRC, fields_lc),
                     "Graph": (STUB_SRC, {"_nodes": SeqT(Label), "edges": SeqT(EDGE)}),
                     "PyGraph": (STUB_SRC, {"_nodes": SeqT(Label), "_edge_list": SeqT(IEDGE)}),
                     "Mixer": (STUB_SRC, {"kind": NoneT, "args": NoneT})},
              extra_builtins=xb, modular=modular or {})

    def real_lc(f):
        import pennylane as qp
        return qp.ops.LinearCombination([fl(c) for c in f["_coeffs"]], list(f["_ops"]))
    w.stub_realize = {"Op": real_op, "LinearCombination": real_lc, "Graph": real_nx_graph, "PyGraph": real_rx_graph}
    return w


def real_nx_graph(f):
    import networkx as nx
    g = nx.Graph()
    g.add_nodes_from(f["_nodes"])
    g.add_edges_from([tuple(e) for e in f["edges"]])
    return g


def add_bit_driver(plan, tier):
    w = cost_world()

    def sgn(b):
        return If(b == 1, 1, -1)

    def ens(o, r, nw):
        if isinstance(o.wires, SeqV):
            if not isinstance(r, Rec):
                return False
            ws, b = o.wires.term, o.bits.term
            n = z3.Length(ws)
            rc, ro = lc_terms(w, r)
            c = z3.If(o.b == 1, R(1), R(-1))
            return z3.And(EV(rc, ro, b) == c * z3.ToReal(n - 2 * ONES(ws, b)), rc == REP(c, n), ro == OPS1(z3.IntVal(3), ws),
                          z3.Length(rc) == z3.Length(ro))
        want = sgn(o.b) * sum(-1 if x in o.bits else 1 for x in o.wires)
        import pennylane as qp
        return (close(native_ev(r, o.bits), want) and len(r.ops) == len(o.wires)
                and all(isinstance(p, qp.Z) and p.wires[0] == x for p, x in zip(r.ops, o.wires)))

    def post_ax(o, r, nw):
        ws, b = o.wires.term, o.bits.term
        return [z3.Extract(ws, 0, z3.Length(ws)) == ws, ev_const_wires(R(1), 3, ws, b), ev_const_wires(R(-1), 3, ws, b)]

    def coeff_inv(v):
        c = z3.If(v.old.b == 1, R(1), R(-1))
        return z3.And(st(w, v.comp_r, Float) == REP(c, v.comp_i), z3.Length(st(w, v.comp_r, Float)) == v.comp_i)

    def coeff_ax(v):
        c = z3.If(v.old.b == 1, R(1), R(-1))
        i = to_int_term(v.comp_i)
        return rep_def(c, i) + rep_def(c, i - 1)

    def ops_inv(v):
        ws = v.old.wires.term
        return z3.And(st(w, v.comp_r, OPT) == OPS1(z3.IntVal(3), z3.Extract(ws, 0, v.comp_i)), z3.Length(st(w, v.comp_r, OPT)) == v.comp_i)

    def ops_ax(v):
        ws = v.old.wires.term
        i = to_int_term(v.comp_i)
        out = [z3.Extract(ws, 0, 0) == L_EMPTY, OPS1(z3.IntVal(3), L_EMPTY) == O_EMPTY]
        for k in (i - 1, i):
            out.append(snoc_slice(ws, k))
            out.append(z3.Implies(z3.And(k >= 0, k < z3.Length(ws)), z3.And(*ops1_def(3, z3.Extract(ws, 0, k), ws[k]))))
        return out
    case = Case("(-1)^(b+1) * sum_w z_w [wires of any length, every b]", {"wires": SeqT(Label), "b": Int, "bits": SetT(Label)},
                ensures=ens, axioms=post_ax, raises={"ValueError": lambda o: And(o.b != 0, o.b != 1)}, must_return=lambda o: Or(o.b == 0, o.b == 1),
                loops={"comp0": LoopSpec(coeff_inv, types={"comp_r": SeqT(Float)}, axioms=coeff_ax),
                       "comp1": LoopSpec(ops_inv, types={"comp_r": SeqT(OPT)}, axioms=ops_ax)},
                kwargs_map=GHOST, native_call=lambda mod, a: mod.bit_driver(a["wires"], a["b"]))
    case.interp_cls = QInterp
    fc = GhostFn(w, "bit_driver", [case])
    for ob in obligations_for(PID, fc, tier):
        plan.add(ob)
    plan.fn_under_contract(COST, "bit_driver")


# ---- edge_driver ---------------------------------------------------------------------------------------------------------------------------
COLOURINGS = ("00", "01", "10", "11")


def energy_table(reward):
    """documented per-edge energy: colourings in `reward` lie lower by exactly 1 than the others, and the four energies sum to 0 (the
    Hamiltonian has no identity component -- the docstring's values -1/4 / 3/4 for a three-element reward set, -3/4 / 1/4 for one
    rewarded colouring, -1/2 / 1/2 for two):   energy(c) = |reward|/4 - [c in reward].   Returns (e00, e_mixed, e11) as Fractions."""
    from fractions import Fraction
    rs = set(reward)
    assert ("01" in rs) == ("10" in rs)
    r = Fraction(len(rs), 4)
    return tuple(r - (1 if c in rs else 0) for c in ("00", "01", "11"))


def colour_counts_native(edges, ones):
    n00 = sum(1 for a, b in edges if a not in ones and b not in ones)
    n11 = sum(1 for a, b in edges if a in ones and b in ones)
    return n00, len(edges) - n00 - n11, n11


def edge_objective(table, es, bits):
    e00, emx, e11 = (R(str(x)) for x in table)
    return e00 * z3.ToReal(N00(es, bits)) + emx * z3.ToReal(NMX(es, bits)) + e11 * z3.ToReal(N11(es, bits))


def edge_loop_axioms(world, coeffs, ops, es, i, bits):
    out = ev_unfold(st(world, coeffs, Float), st(world, ops, OPT), bits)
    out += [z3.Extract(es, 0, 0) == E_EMPTY] + count_defs(E_EMPTY, es[0], bits)[:3]
    for k in (i - 1, i):
        out.append(snoc_slice(es, k))
        out.append(z3.Implies(z3.And(k >= 0, k < z3.Length(es)), z3.And(*count_defs(z3.Extract(es, 0, k), es[k], bits)[3:])))
    return out


def reward_param(reward):
    return T("build", lambda ctx, name, reward=tuple(reward): PyList(list(reward)), gen=lambda rng, reward=tuple(reward): list(reward))


def add_edge_driver(plan, tier):
    w = cost_world()
    GR = RecT("Graph")

    def nx_case(reward):
        rs = set(reward)
        constant = len(reward) in (0, 4)
        table = energy_table(reward)

        def ens(o, r, nw):
            if isinstance(o.graph, Rec):
                if not isinstance(r, Rec):
                    return False
                b, es, ns = o.bits.term, o.graph.f["edges"].term, o.graph.f["_nodes"].term
                rc, ro = lc_terms(w, r)
                val = z3.ToReal(z3.Length(ns)) if constant else edge_objective(table, es, b)
                return z3.And(EV(rc, ro, b) == val, z3.Length(rc) == z3.Length(ro))
            n00, nmx, n11 = colour_counts_native(list(o.graph.edges), o.bits)
            want = o.graph.number_of_nodes() if constant else float(table[0] * n00 + table[1] * nmx + table[2] * n11)
            return close(native_ev(r, o.bits), want)

        def post_ax(o, r, nw):
            b, es, ns = o.bits.term, o.graph.f["edges"].term, o.graph.f["_nodes"].term
            return [z3.Extract(es, 0, z3.Length(es)) == es, z3.Extract(ns, 0, z3.Length(ns)) == ns, ev_const_wires(R(1), 0, ns, b)]

        def inv(v):
            b, es = v.old.bits.term, v.old.graph.f["edges"].term
            cs, os_ = st(w, v.coeffs, Float), st(w, v.ops, OPT)
            return z3.And(EV(cs, os_, b) == edge_objective(table, z3.Extract(es, 0, v._i0), b), z3.Length(cs) == z3.Length(os_))

        def ax(v):
            return edge_loop_axioms(w, v.coeffs, v.ops, v.old.graph.f["edges"].term, to_int_term(v._i0), v.old.bits.term)

        def c_inv(v):       # the constant branch: [1 for _ in nodes], [Identity(v) for v in nodes]
            return z3.And(st(w, v.comp_r, Float) == REP(R(1), v.comp_i), z3.Length(st(w, v.comp_r, Float)) == v.comp_i)

        def c_ax(v):
            i = to_int_term(v.comp_i)
            return rep_def(R(1), i) + rep_def(R(1), i - 1)

        def i_inv(v):
            ns = v.old.graph.f["_nodes"].term
            return z3.And(st(w, v.comp_r, OPT) == OPS1(z3.IntVal(0), z3.Extract(ns, 0, v.comp_i)), z3.Length(st(w, v.comp_r, OPT)) == v.comp_i)

        def i_ax(v):
            ns = v.old.graph.f["_nodes"].term
            i = to_int_term(v.comp_i)
            out = [z3.Extract(ns, 0, 0) == L_EMPTY, OPS1(z3.IntVal(0), L_EMPTY) == O_EMPTY]
            for k in (i - 1, i):
                out.append(snoc_slice(ns, k))
                out.append(z3.Implies(z3.And(k >= 0, k < z3.Length(ns)), z3.And(*ops1_def(0, z3.Extract(ns, 0, k), ns[k]))))
            return out
        loops = ({"comp0": LoopSpec(c_inv, types={"comp_r": SeqT(Float)}, axioms=c_ax), "comp1": LoopSpec(i_inv, types={"comp_r": SeqT(OPT)}, axioms=i_ax)}
                 if constant else {0: LoopSpec(inv, types={"coeffs": SeqT(Float), "ops": SeqT(OPT)}, axioms=ax)})
        lab = "{" + ",".join(reward) + "}"
        what = "constant (one identity per node)" if constant else "sum over edges of (|reward|/4 - [colouring in reward])"
        c = Case(f"networkx graph of any size, reward={lab}: diagonal == {what}", {"graph": GR, "reward": reward_param(reward), "bits": SetT(Label)},
                 ensures=ens, axioms=post_ax, must_return=lambda o: True, loops=loops, kwargs_map=GHOST,
                 native_call=lambda mod, a: mod.edge_driver(a["graph"], list(a["reward"])))
        c.interp_cls = QInterp
        return c
    rewards = [[], ["00"], ["11"], ["00", "11"], ["10", "01"], ["10", "01", "00"], ["11", "10", "01"], ["00", "01", "10", "11"], ["01", "10", "11"]]
    cases = [nx_case(r) for r in rewards]

    def err_case(label, reward, graph_t=GR):
        c = Case(label, {"graph": graph_t, "reward": reward_param(reward), "bits": SetT(Label)}, ensures=lambda o, r, nw: False,
                 raises={"ValueError": lambda o: True}, kwargs_map=GHOST, native_call=lambda mod, a: mod.edge_driver(a["graph"], list(a["reward"])))
        c.interp_cls = QInterp
        return c
    cases.append(err_case("reward with '01' but not '10' is rejected", ["01", "11"]))
    cases.append(err_case("reward with '10' but not '01' is rejected", ["10"]))
    cases.append(err_case("reward entry that is not a 2-bit string is rejected", ["11", "2"]))
    cases.append(err_case("an object that is not a graph is rejected", ["11"], graph_t=Label))
    fc = GhostFn(w, "edge_driver", cases)
    for ob in obligations_for(PID, fc, tier):
        plan.add(ob)
    plan.fn_under_contract(COST, "edge_driver")
    # the finite per-edge table, stated on its own (4 colourings): what each reward branch adds for ONE edge
    b0, b1 = z3.Bools("b0 b1")
    for reward in rewards:
        if len(reward) in (0, 4):
            continue
        t = energy_table(reward)
        want = z3.If(z3.And(z3.Not(b0), z3.Not(b1)), R(str(t[0])), z3.If(z3.And(b0, b1), R(str(t[2])), R(str(t[1]))))
        inr = lambda c: R(1) if c in reward else R(0)
        doc = R(str(len(set(reward)))) / 4 - z3.If(z3.And(z3.Not(b0), z3.Not(b1)), inr("00"), z3.If(z3.And(b0, b1), inr("11"), z3.If(b0, inr("10"), inr("01"))))
        plan.add(lemma("energy-table{" + ",".join(reward) + "}: rewarded colourings lie lower by exactly 1, energies sum to 0", [b0, b1], want == doc))


# ======================================================================================================================================
# the optimisation problems: executed on their real bodies with the CONTRACTS (not the bodies) of edge_driver / bit_driver /
# LinearCombination.__add__ / __rmul__ proved above
VERIFIED_REWARDS = [frozenset(r) for r in ([], ["00"], ["11"], ["00", "11"], ["10", "01"], ["10", "01", "00"], ["11", "10", "01"], ["00", "01", "10", "11"])]
COMPL = z3.Function("complement_edges", ESEQ, LSEQ, ESEQ)          # edge list of networkx.complement(G) as a function of G's edge and node lists


RX_VERIFIED_REWARDS = [frozenset(r) for r in (["00"], ["10", "01"], ["10", "01", "00"], ["11", "10", "01"])]


def rx_wellformed(graph):
    el, ns = graph.f["_edge_list"].term, graph.f["_nodes"].term
    k = z3.Int("k!wf")
    return z3.ForAll([k], z3.Implies(z3.And(k >= 0, k < z3.Length(el)), in_range_ij(el[k], ns)))


def in_range_ij(ij, ns):
    srt = ij.sort()
    a, b = srt.accessor(0, 0)(ij), srt.accessor(0, 1)(ij)
    n = z3.Length(ns)
    return z3.And(a >= 0, a < n, b >= 0, b < n)


def fresh_lc(it, world, name):
    ctx = it.ctx
    c = SeqV(z3.Const(ctx.fresh_name(name + ".coeffs"), RS), Float)
    o = SeqV(z3.Const(ctx.fresh_name(name + ".ops"), OSEQ), OPT)
    ctx.assume(z3.Length(c.term) == z3.Length(o.term))
    return Rec(world.classes["LinearCombination"], {"_coeffs": c, "_ops": o, "grouping_indices": None}), c.term, o.term


def problem_world():
    holder = {}

    def bits_of(it):
        return it.old_args["bits"].term

    def mc_edge_driver(it, args, kw):
        """contract of edge_driver as proved above (networkx graphs, duplicate-free reward lists)"""
        w = holder["w"]
        graph, reward = args
        if not (isinstance(graph, Rec) and graph.cls.name in ("Graph", "PyGraph")):
            raise Unsupp("edge_driver contract: graph expected")
        is_rx = graph.cls.name == "PyGraph"
        if is_rx and frozenset(reward.items if isinstance(reward, PyList) else ()) not in RX_VERIFIED_REWARDS:
            raise Unsupp(f"edge_driver contract (rustworkx) does not cover reward {reward!r}")
        if not (isinstance(reward, PyList) and all(isinstance(x, str) for x in reward.items)) or len(set(reward.items)) != len(reward.items) \
                or frozenset(reward.items) not in VERIFIED_REWARDS:
            raise Unsupp(f"edge_driver contract does not cover reward {reward!r}")
        b = bits_of(it)
        ns = graph.f["_nodes"].term
        if is_rx:
            it.ctx.prove(rx_wellformed(graph), "pre:edge_driver[rustworkx node indices are 0..n-1]")
            es = EMAP(ns, SORTED(graph.f["_edge_list"].term))
        else:
            es = graph.f["edges"].term
        r, c, o = fresh_lc(it, w, "edge_driver")
        if len(reward.items) in (0, 4):
            it.ctx.assume(EV(c, o, b) == z3.ToReal(z3.Length(ns)))
        else:
            it.ctx.assume(EV(c, o, b) == edge_objective(energy_table(reward.items), es, b))
        return r

    def mc_bit_driver(it, args, kw):
        w = holder["w"]
        wires, bb = args
        if not isinstance(wires, SeqV) or not isinstance(bb, int) or bb not in (0, 1):
            raise Unsupp("bit_driver contract: symbolic wire list and b in {0, 1} expected")
        b = bits_of(it)
        n = z3.Length(wires.term)
        cst = R(1) if bb == 1 else R(-1)
        ci = w.classes["LinearCombination"]
        r = Rec(ci, {"_coeffs": SeqV(REP(cst, n), Float), "_ops": SeqV(OPS1(z3.IntVal(3), wires.term), OPT), "grouping_indices": None})
        it.ctx.assume(z3.And(EV(REP(cst, n), OPS1(z3.IntVal(3), wires.term), b) == cst * z3.ToReal(n - 2 * ONES(wires.term, b)),
                             z3.Length(REP(cst, n)) == n, z3.Length(OPS1(z3.IntVal(3), wires.term)) == n))
        return r

    def mc_add(it, args, kw):
        w = holder["w"]
        a, h = args
        if not (isinstance(h, Rec) and h.cls.name == "LinearCombination"):
            raise Unsupp("__add__ contract: LinearCombination operand expected")
        b = bits_of(it)
        ac, ao = lc_terms(w, a)
        hc, ho = lc_terms(w, h)
        it.ctx.prove(z3.And(z3.Length(ac) == z3.Length(ao), z3.Length(hc) == z3.Length(ho)), "pre:LinearCombination.__add__")
        rc, ro = z3.Concat(ac, hc), z3.Concat(ao, ho)
        it.ctx.assume(z3.And(EV(rc, ro, b) == EV(ac, ao, b) + EV(hc, ho, b), z3.Length(rc) == z3.Length(ro)))
        return Rec(w.classes["LinearCombination"], {"_coeffs": SeqV(rc, Float), "_ops": SeqV(ro, OPT), "grouping_indices": None})

    def mc_mul(it, args, kw):
        w = holder["w"]
        a, k = args
        if not (isinstance(k, (int, FloatV)) or (isinstance(k, z3.ExprRef) and k.sort() == z3.IntSort())):
            raise Unsupp("__mul__ contract: int / float scalar expected")
        b = bits_of(it)
        ac, ao = lc_terms(w, a)
        it.ctx.prove(z3.Length(ac) == z3.Length(ao), "pre:LinearCombination.__mul__")
        rc = SCALE(real_of(k), ac)
        it.ctx.assume(z3.And(EV(rc, ao, b) == real_of(k) * EV(ac, ao, b), z3.Length(rc) == z3.Length(ao)))
        return Rec(w.classes["LinearCombination"], {"_coeffs": SeqV(rc, Float), "_ops": SeqV(ao, OPT), "grouping_indices": None})

    def mixer(kind):
        def f(it, args, kw):
            return Rec(holder["w"].classes["Mixer"], {"kind": kind, "args": tuple(args)})
        return f

    def m_complement(it, args, kw):
        """assumed contract of networkx.complement: same nodes; the edge list is a function of G's edge and node lists"""
        (g,) = args
        if not (isinstance(g, Rec) and g.cls.name == "Graph"):
            raise Unsupp("complement of a non-networkx graph")
        return Rec(g.cls, {"_nodes": SeqV(g.f["_nodes"].term, Label), "edges": SeqV(COMPL(g.f["edges"].term, g.f["_nodes"].term), EDGE)})
    w = cost_world(modular={"edge_driver": mc_edge_driver, "bit_driver": mc_bit_driver, "LinearCombination.__add__": mc_add,
                            "LinearCombination.__mul__": mc_mul, "LinearCombination.__rmul__": mc_mul},
                   extra={"x_mixer": mixer("x_mixer"), "bit_flip_mixer": mixer("bit_flip_mixer"), "nx.complement": m_complement})
    holder["w"] = w
    return w


def same_hamiltonian(a, b):
    import pennylane as qp
    ca, oa = a.terms()
    cb, ob = b.terms()
    return len(ca) == len(cb) and all(close(float(x), float(y)) for x, y in zip(ca, cb)) and all(qp.equal(x, y) for x, y in zip(oa, ob))


def add_problems(plan, tier):
    w = problem_world()
    GR = RecT("Graph")

    def is_mixer(m, kind, *args):
        if not (isinstance(m, Rec) and m.cls.name == "Mixer" and m.f["kind"] == kind and len(m.f["args"]) == len(args)):
            return False
        out = []
        for x, y in zip(m.f["args"], args):
            if isinstance(y, int):
                out.append(isinstance(x, int) and x == y)
            elif isinstance(y, z3.ExprRef):          # a node sequence
                out.append(x.term == y if isinstance(x, SeqV) else False)
            elif isinstance(y, Rec):                 # the very graph object that was passed in (rustworkx)
                out.append(S.same_object(x, y))
            else:                                    # (edges term, nodes term) of a graph record
                out.append(z3.And(x.f["edges"].term == y[0], x.f["_nodes"].term == y[1]) if isinstance(x, Rec) and x.cls.name == "Graph" else False)
        return And(*out) if out else True

    def counts(o, complement=False):
        """native: (|V|, |E|, n00, cut, n11, chosen) of the (complement) graph at the bitstring"""
        import networkx as nx
        if not isinstance(o.graph, nx.Graph):
            nodes = list(o.graph.nodes())
            edges = [(nodes[i], nodes[j]) for i, j in o.graph.edge_list()]
            n00, nmx, n11 = colour_counts_native(edges, o.bits)
            return len(nodes), len(edges), n00, nmx, n11, sum(1 for v in nodes if v in o.bits)
        g = nx.complement(o.graph) if complement else o.graph
        edges = list(g.edges)
        n00, nmx, n11 = colour_counts_native(edges, o.bits)
        return g.number_of_nodes(), len(edges), n00, nmx, n11, sum(1 for v in g.nodes if v in o.bits)

    def rx_repair(rng, m):
        m = dict(m)
        g = dict(m["graph"])
        nodes = []
        for x in g["_nodes"]:
            if x not in nodes:
                nodes.append(x)
        n = len(nodes)
        g["_nodes"] = nodes
        g["_edge_list"] = [(int(a) % n, int(b) % n) for a, b in g["_edge_list"]] if n else []
        m["graph"] = g
        return m

    def problem(qual, label, constrained, objective_sym, objective_nat, mixer_sym, mixer_nat, complement=False, rx=False):
        GT = RecT("PyGraph") if rx else GR
        params = {"graph": GT, "bits": SetT(Label)}
        if constrained is not None:
            params = {"graph": GT, "constrained": T("const", constrained), "bits": SetT(Label)}

        def edge_term(o):
            if rx:
                return EMAP(o.graph.f["_nodes"].term, SORTED(o.graph.f["_edge_list"].term))
            return o.graph.f["edges"].term

        def req(a):
            if not rx:
                return True
            if isinstance(a.graph, Rec):
                return rx_wellformed(a.graph)
            n = len(a.graph.nodes())
            return list(a.graph.node_indices()) == list(range(n)) and all(0 <= i < n and 0 <= j < n for i, j in a.graph.edge_list())

        def ens(o, r, nw):
            if isinstance(o.graph, Rec):
                if not (isinstance(r, tuple) and len(r) == 2 and isinstance(r[0], Rec) and r[0].cls.name == "LinearCombination"):
                    return False
                b, es, ns = o.bits.term, edge_term(o), o.graph.f["_nodes"].term
                ges = COMPL(es, ns) if complement else es
                rc, ro = lc_terms(w, r[0])
                return z3.And(EV(rc, ro, b) == objective_sym(ges, ns, b), z3.Length(rc) == z3.Length(ro),
                              mixer_sym(r[1], es, ns, o.graph if rx else ges))
            nv, ne, n00, nmx, n11, chosen = counts(o, complement)
            return close(native_ev(r[0], o.bits), objective_nat(nv, ne, n00, nmx, n11, chosen)) and same_hamiltonian(r[1], mixer_nat(o.graph))

        def ax(o, r, nw):
            b, es, ns = o.bits.term, edge_term(o), o.graph.f["_nodes"].term
            ges = COMPL(es, ns) if complement else es
            return [counts_total(ges, b), ev_const_identity_pairs(R("-1/2"), ges, b), z3.Extract(ges, 0, z3.Length(ges)) == ges]

        def call(mod, a):
            f = getattr(mod, qual)
            return f(a["graph"]) if constrained is None else f(a["graph"], constrained=a["constrained"])
        c = Case(label, params, requires=req, ensures=ens, axioms=ax, must_return=lambda o: True, kwargs_map=GHOST, native_call=call,
                 native_gen=rx_repair if rx else None)
        c.interp_cls = QInterp
        return c

    def tr(x):
        return z3.ToReal(x)
    import pennylane as qp                                               # noqa: F401  (native mixers below)
    x_sym = lambda m, es, ns, ges: is_mixer(m, "x_mixer", ns)
    x_nat = lambda g: __import__("pennylane").qaoa.x_mixer(g.nodes())

    def bf_sym(bb, complement=False):
        return lambda m, es, ns, ges: is_mixer(m, "bit_flip_mixer", ges if isinstance(ges, Rec) else (ges, ns), bb)

    def bf_nat(bb, complement=False):
        def f(g):
            import networkx as nx
            import pennylane as qp
            return qp.qaoa.bit_flip_mixer(nx.complement(g) if complement else g, bb)
        return f
    # ---- maxcut: comprehension loops of identity_h
    def half_inv(v):
        return z3.And(st(w, v.comp_r, Float) == REP(R("-1/2"), v.comp_i), z3.Length(st(w, v.comp_r, Float)) == v.comp_i)

    def half_ax(v):
        i = to_int_term(v.comp_i)
        return rep_def(R("-1/2"), i) + rep_def(R("-1/2"), i - 1)

    def ii_inv(v):
        es = v.old.graph.f["edges"].term
        return z3.And(st(w, v.comp_r, OPT) == OPS2(z3.IntVal(0), z3.Extract(es, 0, v.comp_i)), z3.Length(st(w, v.comp_r, OPT)) == v.comp_i)

    def ii_ax(v):
        es = v.old.graph.f["edges"].term
        i = to_int_term(v.comp_i)
        out = [z3.Extract(es, 0, 0) == E_EMPTY, OPS2(z3.IntVal(0), E_EMPTY) == O_EMPTY]
        for k in (i - 1, i):
            out.append(snoc_slice(es, k))
            out.append(z3.Implies(z3.And(k >= 0, k < z3.Length(es)), z3.And(*ops2_def(0, z3.Extract(es, 0, k), es[k]))))
        return out
    mc = problem("maxcut", "networkx graph of any size: diagonal == -(number of cut edges); mixer == x_mixer(nodes)", None,
                 lambda es, ns, b: -tr(NMX(es, b)), lambda nv, ne, n00, nmx, n11, ch: -nmx, x_sym, x_nat)
    mc.loops = {"comp0": LoopSpec(half_inv, types={"comp_r": SeqT(Float)}, axioms=half_ax), "comp1": LoopSpec(ii_inv, types={"comp_r": SeqT(OPT)}, axioms=ii_ax)}
    contracts = [GhostFn(w, "maxcut", [mc])]
    Q = R("3/4")
    # chosen = number of 1-bits (selected vertices); n11 = edges inside the selection; n00 = edges with no selected endpoint
    contracts.append(GhostFn(w, "max_independent_set", [
        problem("max_independent_set", "constrained: diagonal == |V| - 2*(number of chosen vertices); mixer == bit_flip_mixer(graph, 0)", True,
                lambda es, ns, b: tr(z3.Length(ns) - 2 * ONES(ns, b)), lambda nv, ne, n00, nmx, n11, ch: nv - 2 * ch, bf_sym(0), bf_nat(0)),
        problem("max_independent_set", "unconstrained: diagonal == 3*(edges inside the selection) - 2*(chosen vertices) + |V| - 3/4*|E|; mixer == x_mixer(nodes)",
                False, lambda es, ns, b: 3 * tr(N11(es, b)) - 2 * tr(ONES(ns, b)) + tr(z3.Length(ns)) - Q * tr(z3.Length(es)),
                lambda nv, ne, n00, nmx, n11, ch: 3 * n11 - 2 * ch + nv - 0.75 * ne, x_sym, x_nat)]))
    contracts.append(GhostFn(w, "min_vertex_cover", [
        problem("min_vertex_cover", "constrained: diagonal == 2*(number of chosen vertices) - |V|; mixer == bit_flip_mixer(graph, 1)", True,
                lambda es, ns, b: -tr(z3.Length(ns) - 2 * ONES(ns, b)), lambda nv, ne, n00, nmx, n11, ch: 2 * ch - nv, bf_sym(1), bf_nat(1)),
        problem("min_vertex_cover", "unconstrained: diagonal == 3*(uncovered edges) + 2*(chosen vertices) - |V| - 3/4*|E|; mixer == x_mixer(nodes)", False,
                lambda es, ns, b: 3 * tr(N00(es, b)) + 2 * tr(ONES(ns, b)) - tr(z3.Length(ns)) - Q * tr(z3.Length(es)),
                lambda nv, ne, n00, nmx, n11, ch: 3 * n00 + 2 * ch - nv - 0.75 * ne, x_sym, x_nat)]))
    contracts[1].cases += [
        problem("max_independent_set", "rustworkx, constrained: diagonal == |V| - 2*(number of chosen vertices); mixer == bit_flip_mixer(graph, 0)", True,
                lambda es, ns, b: tr(z3.Length(ns) - 2 * ONES(ns, b)), lambda nv, ne, n00, nmx, n11, ch: nv - 2 * ch, bf_sym(0), bf_nat(0), rx=True),
        problem("max_independent_set", "rustworkx, unconstrained: diagonal == 3*(edges inside the selection) - 2*(chosen vertices) + |V| - 3/4*|E|; "
                "mixer == x_mixer(nodes)", False,
                lambda es, ns, b: 3 * tr(N11(es, b)) - 2 * tr(ONES(ns, b)) + tr(z3.Length(ns)) - Q * tr(z3.Length(es)),
                lambda nv, ne, n00, nmx, n11, ch: 3 * n11 - 2 * ch + nv - 0.75 * ne, x_sym, x_nat, rx=True)]
    contracts[2].cases += [
        problem("min_vertex_cover", "rustworkx, constrained: diagonal == 2*(number of chosen vertices) - |V|; mixer == bit_flip_mixer(graph, 1)", True,
                lambda es, ns, b: -tr(z3.Length(ns) - 2 * ONES(ns, b)), lambda nv, ne, n00, nmx, n11, ch: 2 * ch - nv, bf_sym(1), bf_nat(1), rx=True),
        problem("min_vertex_cover", "rustworkx, unconstrained: diagonal == 3*(uncovered edges) + 2*(chosen vertices) - |V| - 3/4*|E|; "
                "mixer == x_mixer(nodes)", False,
                lambda es, ns, b: 3 * tr(N00(es, b)) + 2 * tr(ONES(ns, b)) - tr(z3.Length(ns)) - Q * tr(z3.Length(es)),
                lambda nv, ne, n00, nmx, n11, ch: 3 * n00 + 2 * ch - nv - 0.75 * ne, x_sym, x_nat, rx=True)]
    contracts.append(GhostFn(w, "max_clique", [
        problem("max_clique", "constrained: diagonal == |V| - 2*(number of chosen vertices); mixer == bit_flip_mixer(complement graph, 0)", True,
                lambda es, ns, b: tr(z3.Length(ns) - 2 * ONES(ns, b)), lambda nv, ne, n00, nmx, n11, ch: nv - 2 * ch, bf_sym(0, True), bf_nat(0, True),
                complement=True),
        problem("max_clique", "unconstrained: diagonal == 3*(non-adjacent pairs inside the selection) - 2*(chosen vertices) + |V| - 3/4*|E(complement)|; "
                "mixer == x_mixer(nodes)", False,
                lambda es, ns, b: 3 * tr(N11(es, b)) - 2 * tr(ONES(ns, b)) + tr(z3.Length(ns)) - Q * tr(z3.Length(es)),
                lambda nv, ne, n00, nmx, n11, ch: 3 * n11 - 2 * ch + nv - 0.75 * ne, x_sym, x_nat, complement=True)]))
    for fc in contracts:
        for ob in obligations_for(PID, fc, tier):
            plan.add(ob)
        plan.fn_under_contract(COST, fc.qualname)


# ======================================================================================================================================
# mixers.py: x_mixer returns the documented operator (structure of the coefficient / operator lists)
def add_mixers(plan, tier):
    fields_lc = {"_coeffs": SeqT(Float), "_ops": SeqT(OPT), "grouping_indices": NoneT}

    def m_wires(it, args, kw):
        (v,) = args
        if not isinstance(v, SeqV):
            raise Unsupp("Wires of a non-sequence")
        return SeqV(v.term, v.elem, True)
    w = World(MIX, functions=["_validate_graph"],
              stubs={"Operator": (STUB_SRC, {}), "Op": (STUB_SRC, OP_FIELDS), "LinearCombination": (STUB_SRC, fields_lc)},
              extra_builtins={"X": pauli_builtin(1), "Y": pauli_builtin(2), "Z": pauli_builtin(3), "Identity": pauli_builtin(0), "Wires": m_wires})

    def ens(o, r, nw):
        if isinstance(o.wires, SeqV):
            if not isinstance(r, Rec):
                return False
            ws = o.wires.term
            rc, ro = lc_terms(w, r)
            return z3.And(rc == REP(R(1), z3.Length(ws)), ro == OPS1(z3.IntVal(1), ws), z3.Length(rc) == z3.Length(ws), z3.Length(ro) == z3.Length(ws))
        import pennylane as qp
        cs, ops = r.terms()
        return (len(cs) == len(ops) == len(o.wires) and all(float(c) == 1.0 for c in cs)
                and all(isinstance(p, qp.X) and list(p.wires) == [x] for p, x in zip(ops, o.wires)))

    def c_inv(v):
        return z3.And(st(w, v.comp_r, Float) == REP(R(1), v.comp_i), z3.Length(st(w, v.comp_r, Float)) == v.comp_i)

    def c_ax(v):
        i = to_int_term(v.comp_i)
        return rep_def(R(1), i) + rep_def(R(1), i - 1)

    def x_inv(v):
        ws = v.old.wires.term
        return z3.And(st(w, v.comp_r, OPT) == OPS1(z3.IntVal(1), z3.Extract(ws, 0, v.comp_i)), z3.Length(st(w, v.comp_r, OPT)) == v.comp_i)

    def x_ax(v):
        ws = v.old.wires.term
        i = to_int_term(v.comp_i)
        out = [z3.Extract(ws, 0, 0) == L_EMPTY, OPS1(z3.IntVal(1), L_EMPTY) == O_EMPTY]
        for k in (i - 1, i):
            out.append(snoc_slice(ws, k))
            out.append(z3.Implies(z3.And(k >= 0, k < z3.Length(ws)), z3.And(*ops1_def(1, z3.Extract(ws, 0, k), ws[k]))))
        return out

    def distinct_wires(rng, m):
        m = dict(m)
        seen = []
        for x in m["wires"]:
            if x not in seen:
                seen.append(x)
        m["wires"] = seen           # Wires(...) rejects duplicates (graph nodes are distinct)
        return m
    fc = FnContract(w, "x_mixer", [Case("wires of any length: coefficients all 1, k-th operator == X(wires[k])", {"wires": SeqT(Label)},
                                        ensures=ens, axioms=lambda o, r, nw: [z3.Extract(o.wires.term, 0, z3.Length(o.wires.term)) == o.wires.term],
                                        must_return=lambda o: True, native_gen=distinct_wires,
                                        loops={"comp0": LoopSpec(c_inv, types={"comp_r": SeqT(Float)}, axioms=c_ax),
                                               "comp1": LoopSpec(x_inv, types={"comp_r": SeqT(OPT)}, axioms=x_ax)})])
    for ob in obligations_for(PID, fc, tier):
        plan.add(ob)
    plan.fn_under_contract(MIX, "x_mixer")


# ======================================================================================================================================
# bounded native stand-in: the REAL builders on random small graphs (networkx and rustworkx), diagonal of qp.matrix at EVERY bitstring
# against the objective written as plain python counting; the mixers against reference matrices built with numpy.kron
def random_graphs(rng, count, max_nodes=6):
    """(labels, edge list) -- includes edgeless, complete, weighted (ignored attribute), string-labelled graphs"""
    out = [(list(range(1)), []), (list(range(4)), []), (list(range(4)), list(itertools.combinations(range(4), 2))), (["a", "b", "c"], [("a", "b"), ("b", "c")]),
           ([3, 1, 2, 0], [(3, 1), (1, 0), (0, 2)])]
    while len(out) < count:
        n = rng.randint(1, max_nodes)
        labels = list(range(n))
        rng.shuffle(labels)
        p = rng.choice([0.2, 0.5, 0.8])
        out.append((labels, [e for e in itertools.combinations(labels, 2) if rng.random() < p]))
    return out[:count]


def build_graph(kind, labels, edges, weighted=False):
    if kind == "nx":
        import networkx as nx
        g = nx.Graph()
        g.add_nodes_from(labels)
        for k, (a, b) in enumerate(edges):
            g.add_edge(a, b, **({"weight": 0.5 + k} if weighted else {}))
        return g
    import rustworkx as rx
    g = rx.PyGraph()
    g.add_nodes_from(labels)
    g.add_edges_from([(labels.index(a), labels.index(b), (0.5 + k) if weighted else "") for k, (a, b) in enumerate(edges)])
    return g


def diag_of(H, labels):
    import numpy as np
    import pennylane as qp
    if len(H.terms()[0]) == 0:
        # an edgeless graph gives LinearCombination([], []): the empty sum is the zero operator (qp.matrix raises TypeError on it --
        # reported as an observation, not part of this property)
        return np.zeros(2 ** len(labels))
    m = qp.matrix(H, wire_order=labels)
    d = np.diag(m)
    if not np.allclose(m, np.diag(d)):
        raise ValueError("cost Hamiltonian is not diagonal")
    return np.real(d)


def bitstrings(labels):
    n = len(labels)
    for idx in range(2 ** n):
        yield idx, {labels[j] for j in range(n) if (idx >> (n - 1 - j)) & 1}


def pauli_ref(n, factors):
    """kron over positions 0..n-1 of the given single-qubit matrices (identity elsewhere)"""
    import numpy as np
    P = {"I": np.eye(2), "X": np.array([[0, 1], [1, 0]]), "Y": np.array([[0, -1j], [1j, 0]]), "Z": np.diag([1, -1])}
    m = np.array([[1.0 + 0j]])
    for j in range(n):
        m = np.kron(m, P[factors.get(j, "I")])
    return m


def add_bounded_native(plan, tier, seed):
    import functools
    count = 12 if tier == "quick" else 60

    def graphs():
        rng = random.Random(1000 + seed)
        return random_graphs(rng, count)

    def complement_edges(labels, edges):
        es = {frozenset(e) for e in edges}
        return [e for e in itertools.combinations(labels, 2) if frozenset(e) not in es]

    def z(v, ones):
        return -1 if v in ones else 1

    def colouring(e, ones):
        return ("1" if e[0] in ones else "0") + ("1" if e[1] in ones else "0")

    def obj_edge(reward):
        rs = set(reward)
        if len(rs) in (0, 4):
            return lambda labels, edges, ones: len(labels)
        return lambda labels, edges, ones: sum(len(rs) / 4 - (1 if colouring(e, ones) in rs else 0) for e in edges)

    def violated(edges, ones):          # edges with both endpoints chosen
        return sum(1 for a, b in edges if a in ones and b in ones)

    def uncovered(edges, ones):
        return sum(1 for a, b in edges if a not in ones and b not in ones)
    import pennylane as qp
    Q = qp.qaoa
    targets = {
        "bit_driver": [(f"b={b}", lambda g, labels, b=b: Q.bit_driver(labels, b), lambda labels, edges, ones, b=b: (-1) ** (b + 1) * sum(z(v, ones) for v in labels))
                       for b in (0, 1)],
        "edge_driver": [("reward={" + ",".join(r) + "}", lambda g, labels, r=r: Q.edge_driver(g, list(r)), obj_edge(r))
                        for r in ([], ["00"], ["11"], ["00", "11"], ["10", "01"], ["10", "01", "00"], ["11", "10", "01"], ["00", "01", "10", "11"])],
        "maxcut": [("", lambda g, labels: Q.maxcut(g)[0], lambda labels, edges, ones: -sum(1 for a, b in edges if (a in ones) != (b in ones)))],
        "max_independent_set": [
            ("constrained", lambda g, labels: Q.max_independent_set(g, constrained=True)[0], lambda labels, edges, ones: len(labels) - 2 * len(ones)),
            ("unconstrained", lambda g, labels: Q.max_independent_set(g, constrained=False)[0],
             lambda labels, edges, ones: 3 * violated(edges, ones) - 2 * len(ones) + len(labels) - 0.75 * len(edges))],
        "min_vertex_cover": [
            ("constrained", lambda g, labels: Q.min_vertex_cover(g, constrained=True)[0], lambda labels, edges, ones: 2 * len(ones) - len(labels)),
            ("unconstrained", lambda g, labels: Q.min_vertex_cover(g, constrained=False)[0],
             lambda labels, edges, ones: 3 * uncovered(edges, ones) + 2 * len(ones) - len(labels) - 0.75 * len(edges))],
        "max_clique": [
            ("constrained", lambda g, labels: Q.max_clique(g, constrained=True)[0], lambda labels, edges, ones: len(labels) - 2 * len(ones)),
            ("unconstrained", lambda g, labels: Q.max_clique(g, constrained=False)[0],
             lambda labels, edges, ones: 3 * violated(complement_edges(labels, edges), ones) - 2 * len(ones) + len(labels)
             - 0.75 * len(complement_edges(labels, edges)))],
    }

    def cost_ob(fname, variants):
        def fn():
            import numpy as np
            n_checked = 0
            for gi, (labels, edges) in enumerate(graphs()):
                for kind in ("nx", "rx"):
                    for weighted in ((False, True) if gi % 3 == 2 else (False,)):
                        g = build_graph(kind, labels, edges, weighted)
                        for vlab, build_h, objective in variants:
                            d = diag_of(build_h(g, labels), labels)
                            for idx, ones in bitstrings(labels):
                                want = objective(labels, edges, ones)
                                n_checked += 1
                                if not close(float(d[idx]), float(want)):
                                    return Outcome(REFUTED, "native", f"{fname} [{vlab}] on a {kind} graph: diagonal entry differs from the objective",
                                                   witness=dict(graph_kind=kind, nodes=[str(x) for x in labels], edges=[[str(a), str(b)] for a, b in edges],
                                                                bitstring=format(idx, f"0{len(labels)}b"), variant=vlab),
                                                   replay=dict(confirmed=True, observed=float(d[idx]), expected=float(want),
                                                               note="native run of the real builder; diagonal of qp.matrix"))
            return Outcome(DISCHARGED, "native", f"{n_checked} (graph, variant, bitstring) combinations agree")
        return Obligation(f"{PID}/cost:{fname}/bounded-native[{count} graphs of <= 6 nodes, networkx + rustworkx, all bitstrings]", "bounded", fn,
                          bounded=True, func=(COST, fname), timeout=600,
                          sample="diagonal of qp.matrix(cost Hamiltonian) == objective counted in plain python, at every bitstring")
    for fname, variants in targets.items():
        plan.add(cost_ob(fname, variants))

    # ---- mixers against reference matrices ---------------------------------------------------------------------------------------------
    def ref_x(labels, edges):
        return sum(pauli_ref(len(labels), {j: "X"}) for j in range(len(labels)))

    def ref_xy(labels, edges):
        import numpy as np
        n = len(labels)
        tot = np.zeros((2 ** n, 2 ** n), dtype=complex)
        for a, b in edges:
            i, j = labels.index(a), labels.index(b)
            tot = tot + 0.5 * (pauli_ref(n, {i: "X", j: "X"}) + pauli_ref(n, {i: "Y", j: "Y"}))
        return tot

    def ref_bit_flip(bb):
        def f(labels, edges, complement=False):
            import numpy as np
            n = len(labels)
            if complement:
                edges = complement_edges(labels, edges)
            tot = np.zeros((2 ** n, 2 ** n), dtype=complex)
            for v in labels:
                nb = [b if a == v else a for a, b in edges if v in (a, b)]
                m = pauli_ref(n, {labels.index(v): "X"}) / 2 ** len(nb)
                for u in nb:
                    m = m @ (np.eye(2 ** n) + (-1) ** bb * pauli_ref(n, {labels.index(u): "Z"}))
                tot = tot + m
            return tot
        return f
    mixer_targets = {
        (MIX, "x_mixer"): [("", lambda g, labels: Q.x_mixer(labels), ref_x)],
        (MIX, "xy_mixer"): [("", lambda g, labels: Q.xy_mixer(g), ref_xy)],
        (MIX, "bit_flip_mixer"): [(f"b={bb}", lambda g, labels, bb=bb: Q.bit_flip_mixer(g, bb), ref_bit_flip(bb)) for bb in (0, 1)],
        (COST, "maxcut"): [("recommended mixer", lambda g, labels: Q.maxcut(g)[1], ref_x)],
        (COST, "max_independent_set"): [("constrained mixer", lambda g, labels: Q.max_independent_set(g, True)[1], ref_bit_flip(0)),
                                        ("unconstrained mixer", lambda g, labels: Q.max_independent_set(g, False)[1], ref_x)],
        (COST, "min_vertex_cover"): [("constrained mixer", lambda g, labels: Q.min_vertex_cover(g, True)[1], ref_bit_flip(1)),
                                     ("unconstrained mixer", lambda g, labels: Q.min_vertex_cover(g, False)[1], ref_x)],
        (COST, "max_clique"): [("constrained mixer", lambda g, labels: Q.max_clique(g, True)[1],
                                lambda labels, edges: ref_bit_flip(0)(labels, edges, complement=True)),
                               ("unconstrained mixer", lambda g, labels: Q.max_clique(g, False)[1], ref_x)],
    }

    def mixer_ob(file, fname, variants):
        def fn():
            import numpy as np
            n_checked = 0
            for labels, edges in graphs():
                if len(labels) > 5:
                    continue
                for kind in ("nx", "rx"):
                    g = build_graph(kind, labels, edges)
                    for vlab, build_h, ref in variants:
                        H = build_h(g, labels)
                        want = ref(labels, edges)
                        got = qp.matrix(H, wire_order=labels) if len(H.terms()[0]) else np.zeros_like(want)
                        n_checked += 1
                        if not np.allclose(got, want):
                            return Outcome(REFUTED, "native", f"{fname} [{vlab}] on a {kind} graph: matrix differs from the documented operator",
                                           witness=dict(graph_kind=kind, nodes=[str(x) for x in labels], edges=[[str(a), str(b)] for a, b in edges], variant=vlab),
                                           replay=dict(confirmed=True, observed=f"max abs deviation {float(np.max(np.abs(got - want))):.3g}",
                                                       expected="reference matrix from numpy.kron", note="native run of the real builder"))
            return Outcome(DISCHARGED, "native", f"{n_checked} (graph, variant) matrices agree with the reference")
        stem = file.split("/")[-1][:-3]
        return Obligation(f"{PID}/{stem}:{fname}/bounded-native-mixer[graphs of <= 5 nodes, networkx + rustworkx]", "bounded", fn, bounded=True,
                          func=(file, fname), timeout=600, sample="qp.matrix(mixer) == documented operator built with numpy.kron")
    for (file, fname), variants in mixer_targets.items():
        plan.add(mixer_ob(file, fname, variants))


# ======================================================================================================================================
# rustworkx path of edge_driver: graph_edges = sorted(graph.edge_list()) are INDEX pairs, nodes are read through graph_nodes[i]
IEDGES = _W0.sort_of(IEDGE)
IE0, IE1 = IEDGES.accessor(0, 0), IEDGES.accessor(0, 1)
IESEQ = z3.SeqSort(IEDGES)
IE_EMPTY = z3.Empty(IESEQ)
SORTED = z3.Function("sorted_edge_list", IESEQ, IESEQ)           # sorted(edge_list): assumed a permutation of its argument
EMAP = z3.Function("edges_as_node_pairs", LSEQ, IESEQ, ESEQ)     # [(nodes[i], nodes[j]) for (i, j) in index_pairs]   (snoc-defined)


def emap_def(ns, s, ij):
    return [EMAP(ns, IE_EMPTY) == E_EMPTY, EMAP(ns, snoc(s, ij)) == snoc(EMAP(ns, s), MKEDGE(ns[IE0(ij)], ns[IE1(ij)]))]


def in_range(ij, ns):
    n = z3.Length(ns)
    return z3.And(IE0(ij) >= 0, IE0(ij) < n, IE1(ij) >= 0, IE1(ij) < n)


def real_rx_graph(f):
    import rustworkx as rx
    g = rx.PyGraph()
    g.add_nodes_from(list(f["_nodes"]))
    g.add_edges_from([(int(a), int(b), "") for a, b in f["_edge_list"]])
    return g


def add_edge_driver_rx(plan, tier):
    def m_sorted(it, args, kw):
        (v,) = args
        if isinstance(v, SeqV) and not kw and it.world.sort_of(v.elem) == IEDGES:
            it.ctx.assume(z3.Length(SORTED(v.term)) == z3.Length(v.term))
            return SeqV(SORTED(v.term), v.elem)
        return it.b_sorted(args, kw, None)
    w = cost_world(extra={"sorted": m_sorted})
    w.stub_realize["PyGraph"] = real_rx_graph
    PG = RecT("PyGraph")

    def wf(a):
        if isinstance(a.graph, Rec):
            el, ns = a.graph.f["_edge_list"].term, a.graph.f["_nodes"].term
            k = z3.Int("k!wf")
            return z3.ForAll([k], z3.Implies(z3.And(k >= 0, k < z3.Length(el)), in_range(el[k], ns)))
        n = len(a.graph.nodes())
        return list(a.graph.node_indices()) == list(range(n)) and all(0 <= i < n and 0 <= j < n for i, j in a.graph.edge_list())

    def repair(rng, m):
        m = dict(m)
        g = dict(m["graph"])
        nodes = []
        for x in g["_nodes"]:
            if x not in nodes:
                nodes.append(x)
        n = len(nodes)
        g["_nodes"] = nodes
        g["_edge_list"] = [(int(a) % n, int(b) % n) for a, b in g["_edge_list"]] if n else []
        m["graph"] = g
        return m

    def rx_case(reward):
        table = energy_table(reward)

        def parts(o):
            ns = o.graph.f["_nodes"].term
            s = SORTED(o.graph.f["_edge_list"].term)
            return ns, s

        def ens(o, r, nw):
            if isinstance(o.graph, Rec):
                if not isinstance(r, Rec):
                    return False
                ns, s = parts(o)
                rc, ro = lc_terms(w, r)
                return z3.And(EV(rc, ro, o.bits.term) == edge_objective(table, EMAP(ns, s), o.bits.term), z3.Length(rc) == z3.Length(ro))
            nodes = list(o.graph.nodes())
            n00, nmx, n11 = colour_counts_native([(nodes[i], nodes[j]) for i, j in o.graph.edge_list()], o.bits)
            return close(native_ev(r, o.bits), float(table[0] * n00 + table[1] * nmx + table[2] * n11))

        def inv(v):
            ns, s = parts(v.old)
            cs, os_ = st(w, v.coeffs, Float), st(w, v.ops, OPT)
            return z3.And(EV(cs, os_, v.old.bits.term) == edge_objective(table, EMAP(ns, z3.Extract(s, 0, v._i0)), v.old.bits.term),
                          z3.Length(cs) == z3.Length(os_))

        def ax(v):
            ns, s = parts(v.old)
            b = v.old.bits.term
            i = to_int_term(v._i0)
            out = ev_unfold(st(w, v.coeffs, Float), st(w, v.ops, OPT), b)
            out += [z3.Extract(s, 0, 0) == IE_EMPTY, EMAP(ns, IE_EMPTY) == E_EMPTY] + count_defs(E_EMPTY, MKEDGE(ns[0], ns[0]), b)[:3]
            for k in (i - 1, i):
                ok = z3.And(k >= 0, k < z3.Length(s))
                pre = z3.Extract(s, 0, k)
                out.append(snoc_slice(s, k))
                out.append(z3.Implies(ok, in_range(s[k], ns)))      # instance of: sorted(edge_list) is a permutation of edge_list + precondition
                out.append(z3.Implies(ok, emap_def(ns, pre, s[k])[1]))
                out.append(z3.Implies(ok, z3.And(*count_defs(EMAP(ns, pre), MKEDGE(ns[IE0(s[k])], ns[IE1(s[k])]), b)[3:])))
            return out
        c = Case("rustworkx graph of any size, reward={" + ",".join(reward) + "}: diagonal == sum over edges of (|reward|/4 - [colouring in reward])",
                 {"graph": PG, "reward": reward_param(reward), "bits": SetT(Label)}, requires=wf, ensures=ens, must_return=lambda o: True,
                 axioms=lambda o, r, nw: [z3.Extract(parts(o)[1], 0, z3.Length(parts(o)[1])) == parts(o)[1]],
                 loops={0: LoopSpec(inv, types={"coeffs": SeqT(Float), "ops": SeqT(OPT)}, axioms=ax)}, kwargs_map=GHOST, native_gen=repair,
                 native_call=lambda mod, a: mod.edge_driver(a["graph"], list(a["reward"])))
        c.interp_cls = QInterp
        return c
    fc = GhostFn(w, "edge_driver", [rx_case(r) for r in (["00"], ["10", "01"], ["10", "01", "00"], ["11", "10", "01"])])
    for ob in obligations_for(PID, fc, tier):
        plan.add(ob)
    s, ns = z3.Const("s", IESEQ), z3.Const("ns", LSEQ)
    n = z3.Int("n")
    plan.add(lemma("seq/snoc-slice[index pairs]", [s, n], snoc_slice(s, n)))
