"""C16 Exact ring arithmetic behind gridsynth is lawful.

Contracts on the real methods of rings.py / norm_solver.py: every operator's result equals an independently written spec
function of the abstract views  ZSqrtTwo -> Z[x]/(x^2-2),  ZOmega -> Z[w]/(w^4+1); the ring laws are lemmas over the spec.
"""
import z3

from vf.common import Plan
from vf.pyvc.engine import World, T, Int, Bool, Float, RecT, NoneT, TupleT, Rec, Unsupp, RaiseExc
from vf.pyvc.contract import FnContract, Case, LoopSpec, obligations_for, lemma
from vf.pyvc import spec as S
from vf.pyvc.spec import And, Or, Not, Implies, If

RINGS = "pennylane/ops/op_math/decompositions/rings.py"
NORM = "pennylane/ops/op_math/decompositions/norm_solver.py"

Z2 = RecT("ZSqrtTwo")
ZO = RecT("ZOmega")
FloatIntegral = T("float", integral=True)
FloatFractional = T("float", where=lambda v: z3.Not(z3.IsInt(v.t)))
Str = T("const", "some string")
NoneV = T("const", None)


# ---- spec (written from x^2 = 2 and w^4 = -1, independently of the code) --------------------------------------------------
def v2(o):
    return (o.a, o.b)


def vo(o):
    """coefficients by ascending power of w: (d, c, b, a)"""
    return (o.d, o.c, o.b, o.a)


def add2(x, y):
    return (x[0] + y[0], x[1] + y[1])


def mul2(x, y):
    return (x[0] * y[0] + 2 * x[1] * y[1], x[0] * y[1] + x[1] * y[0])


def neg(x):
    return tuple(-c for c in x)


def addo(x, y):
    return tuple(a + b for a, b in zip(x, y))


def mulo(x, y):
    """product in Z[w]/(w^4+1), ascending coefficients"""
    out = [0, 0, 0, 0]
    for i in range(4):
        for j in range(4):
            k = i + j
            if k < 4:
                out[k] = out[k] + x[i] * y[j]
            else:
                out[k - 4] = out[k - 4] - x[i] * y[j]
    return tuple(out)


def conjo(x):
    """complex conjugation: w -> w^-1 = -w^3"""
    d, c, b, a = x
    return (d, -a, -b, -c)


def adj2o(x):
    """sqrt2 -> -sqrt2, i.e. w -> -w"""
    d, c, b, a = x
    return (d, -c, b, -a)


def norm2(x):
    return x[0] * x[0] - 2 * x[1] * x[1]


def eqv(x, y):
    return And(*[a == b for a, b in zip(x, y)])


def trunc(f):
    """int() of an integral float"""
    if isinstance(f, float):
        return int(f)
    from vf.pyvc.engine import FloatV
    if isinstance(f, FloatV):
        return f.i if f.i is not None else z3.ToInt(f.t)
    return f


def scal(k):
    return trunc(k)


# ---- recursive spec functions: n-th power in both rings, powers of sqrt2 = w - w^3 in Z[w] --------------------------------
# n-th power in Z[sqrt2]: uninterpreted, used only through INSTANCES of  P(x,0) = 1,  n >= 0 => P(x,n+1) = P(x,n) * x
PA2 = z3.Function("PA2", z3.IntSort(), z3.IntSort(), z3.IntSort(), z3.IntSort())
PB2 = z3.Function("PB2", z3.IntSort(), z3.IntSort(), z3.IntSort(), z3.IntSort())


def pow2_spec(x, n):
    if isinstance(n, int) and all(isinstance(c, int) for c in x):
        r = (1, 0)
        for _ in range(n):
            r = mul2(r, x)
        return r
    return (PA2(x[0], x[1], n), PB2(x[0], x[1], n))


def pow2_axioms(x, ns):
    out = [z3.And(*[p == q for p, q in zip(pow2_spec(x, z3.IntVal(0)), (1, 0))])]
    for n in ns:
        n = z3.IntVal(n) if isinstance(n, int) else n
        out.append(z3.Implies(n >= 0, z3.And(*[p == q for p, q in zip(pow2_spec(x, n + 1), mul2(pow2_spec(x, n), x))])))
    return out


# n-th power in Z[w]: uninterpreted, used only through explicit INSTANCES of its two definitional axioms
#   PO(x, 0) = 1      and      n >= 0  =>  PO(x, n+1) = PO(x, n) * x
PO = [z3.Function(f"PO{i}", *([z3.IntSort()] * 6)) for i in range(4)]   # PO_i(d,c,b,a,n): i-th ascending coefficient of x^n


def powo_spec(x, n):
    if isinstance(n, int) and all(isinstance(c, int) for c in x):
        r = (1, 0, 0, 0)
        for _ in range(n):
            r = mulo(r, x)
        return r
    return tuple(PO[i](x[0], x[1], x[2], x[3], n) for i in range(4))


def powo_axioms(x, ns):
    """instances of the definitional axioms at the exponents ns"""
    out = [z3.And(*[p == q for p, q in zip(powo_spec(x, z3.IntVal(0)), (1, 0, 0, 0))])]
    for n in ns:
        n = z3.IntVal(n) if isinstance(n, int) else n
        step = z3.And(*[p == q for p, q in zip(powo_spec(x, n + 1), mulo(powo_spec(x, n), x))])
        out.append(z3.Implies(n >= 0, step))
    return out


SQRT2_O = (0, 1, 0, -1)     # sqrt2 = w - w^3, ascending coefficients


def sq_spec(n):
    """(sqrt 2)^n as an element of Z[w]"""
    return powo_spec(SQRT2_O, n)


def mul_sqrt2(x):
    """x * sqrt2 in Z[w] (a linear map)"""
    return mulo(x, SQRT2_O)


# LIT_i(x, n) = i-th coefficient of x * sqrt2^n, specified by iteration of the linear map (so that the loop VCs are linear):
#   LIT(x, 0) = x        n >= 0  =>  LIT(x, n+1) = LIT(x * sqrt2, n)
LIT = [z3.Function(f"LIT{i}", *([z3.IntSort()] * 6)) for i in range(4)]


def lit_spec(x, n):
    if isinstance(n, int) and all(isinstance(c, int) for c in x):
        for _ in range(n):
            x = mul_sqrt2(x)
        return tuple(x)
    return tuple(LIT[i](x[0], x[1], x[2], x[3], n) for i in range(4))


def lit_axioms(x, ns):
    x = tuple(z3.IntVal(c) if isinstance(c, int) else c for c in x)
    out = [z3.And(*[p == q for p, q in zip(lit_spec(x, z3.IntVal(0)), x)])]
    for n in ns:
        n = z3.IntVal(n) if isinstance(n, int) else n
        out.append(z3.Implies(n >= 0, z3.And(*[p == q for p, q in zip(lit_spec(x, n + 1), lit_spec(mul_sqrt2(x), n))])))
    return out


def abso(x):
    """integer norm of Z[w]: N(x) = norm2( x * conj(x) viewed in Z[sqrt2] )"""
    nn = mulo(x, conjo(x))      # = (p, q, 0, -q)  i.e.  p + q*sqrt2
    return nn[0] * nn[0] - 2 * nn[1] * nn[1]


POW2 = z3.Function("POW2", z3.IntSort(), z3.IntSort())          # 2**n for n >= 0, used through  POW2(0) = 1, POW2(n+1) = 2*POW2(n)


def two_pow(n):
    return 2 ** n if isinstance(n, int) else POW2(n)


def two_pow_axioms(ns):
    out = [POW2(z3.IntVal(0)) == 1]
    for n in ns:
        n = z3.IntVal(n) if isinstance(n, int) else n
        out.append(z3.Implies(n >= 0, z3.And(POW2(n + 1) == 2 * POW2(n), POW2(n) >= 1)))
    return out


def scale_o(x, k):
    return tuple(c * k for c in x)


def lit_even_axioms(x, m):
    """instances of the lemma pair LIT-even (proved below by induction):  LIT(x, 2m) == x * 2^m  for m >= 0, and its odd companion
    LIT(x, 2m+1) == LIT(x*sqrt2, 2m) == (x*sqrt2) * 2^m"""
    x = tuple(z3.IntVal(c) if isinstance(c, int) else c for c in x)
    xs = mul_sqrt2(x)
    return [z3.Implies(m >= 0, z3.And(*[p == q for p, q in zip(lit_spec(x, 2 * m), scale_o(x, two_pow(m)))])),
            z3.Implies(m >= 0, z3.And(*[p == q for p, q in zip(lit_spec(xs, 2 * m), scale_o(xs, two_pow(m)))]))] + lit_axioms(x, [2 * m])


def is_zero_o(x):
    return And(*[c == 0 for c in x])


def primality_standin(plan, tier, seed):
    """BOUNDED stand-in: _primality_test against an independent oracle (sympy.isprime) on stratified ranges"""
    from vf.common import Obligation, Outcome, DISCHARGED, REFUTED, FAULT

    def candidates():
        import random
        rng = random.Random(1234 + seed)
        quick = tier == "quick"
        yield from range(-3, 30000 if quick else 300000)                                   # exhaustive small range
        bases = [2, 325, 9375, 28178, 450775, 9780504, 1795265022]
        import sympy
        for b in bases:                                                                    # the guard `base % n`: n around / dividing a base
            yield from range(max(2, b - 40), b + 41)
            for q in sympy.factorint(b):
                yield from (q, q * q, b // q)
            for m in (2, 3, 5):
                yield from range(b * m - 3, b * m + 4)
        for k in range(4, 65):                                                             # around powers of two (d, s extraction)
            yield from range(2 ** k - (24 if quick else 200), 2 ** k + (25 if quick else 201))
        yield from (2047, 3277, 4033, 4681, 8321, 15841, 29341, 42799, 49141, 52633, 65281, 74665, 80581, 85489, 88357, 90751,      # strong pseudoprimes
                    561, 1105, 1729, 2465, 2821, 6601, 8911, 10585, 15841, 29341, 41041, 46657, 52633, 62745, 63973, 75361,       # Carmichael numbers
                    3215031751, 3825123056546413051, 318665857834031151167461, 2152302898747, 3474749660383, 341550071728321)
        small_primes = list(sympy.primerange(2, 400))
        for _ in range(300 if quick else 3000):                                            # semiprimes and prime squares near 2^32 / 2^31
            pq = sympy.nextprime(rng.randrange(2 ** 30, 2 ** 32))
            yield from (pq * pq, pq * sympy.nextprime(pq), pq * rng.choice(small_primes))
        for _ in range(3000 if quick else 40000):                                          # random 64-bit, random primes
            n = rng.getrandbits(rng.choice([20, 31, 32, 40, 48, 56, 63, 64]))
            yield from (n, n | 1)
        for _ in range(300 if quick else 3000):
            yield sympy.nextprime(rng.getrandbits(rng.choice([24, 33, 47, 62])))

    def fn():
        import importlib
        import sympy
        mod = importlib.import_module("pennylane.ops.op_math.decompositions.norm_solver")
        test = getattr(mod._primality_test, "__wrapped__", mod._primality_test)
        n_checked = 0
        for n in candidates():
            n_checked += 1
            try:
                got = bool(test(n))
            except Exception as ex:  # pylint: disable=broad-except
                return Outcome(REFUTED, "native+sympy", f"_primality_test({n}) raised {type(ex).__name__}", witness=dict(n=n),
                               replay=dict(confirmed=True, observed=f"raised {type(ex).__name__}: {ex}", expected=str(sympy.isprime(n)), inputs=dict(n=n)),
                               extra=dict(bounded=True))
            want = bool(sympy.isprime(n)) if n >= 0 else False
            if got != want:
                return Outcome(REFUTED, "native+sympy", f"_primality_test({n}) == {got}, oracle says {want}", witness=dict(n=n),
                               replay=dict(confirmed=True, observed=got, expected=want, inputs=dict(n=n)), extra=dict(bounded=True))
        return Outcome(DISCHARGED, "native+sympy", f"{n_checked} integers agree with sympy.isprime (no counterexample in this bounded set)",
                       extra=dict(bounded=True))
    plan.add(Obligation("C16/norm_solver:_primality_test/agrees-with-oracle[bounded]", "standin", fn, bounded=True, func=(NORM, "_primality_test"),
                        sample="stratified + random integers up to 2^64 against sympy.isprime", timeout=600))
    plan.fn_under_contract(NORM, "_primality_test")


def dyadic_contracts(plan, tier):
    """DyadicMatrix: the denoted value is (1/sqrt2)^k * [[a, b], [c, d]].  `LIT(x, n)` = x * sqrt2^n in Z[omega] (spec function of this
    module); two representations (E, K), (R, k) with k <= K denote the same matrix iff LIT(R_i, K - k) == E_i for every entry."""
    from vf.pyvc.engine import fresh, FloatV, to_int_term, PyList
    DM = RecT("DyadicMatrix")
    ENT = ("a", "b", "c", "d")
    ring = {"ZSqrtTwo": {"a": Int, "b": Int}, "ZOmega": {"a": Int, "b": Int, "c": Int, "d": Int},
            "DyadicMatrix": {"a": ZO, "b": ZO, "c": ZO, "d": ZO, "k": Int}}

    def b_allclose(it, args, kw):
        """np.allclose([integers], 0)  <=>  every integer is 0   (assumed contract of numpy on exact integers)"""
        xs, ref = args
        if ref != 0:
            raise Unsupp("np.allclose against a non-zero reference")
        r = True
        for x in it.iter_concrete(xs):
            r = it.and_(r, it.equal(x, 0))
        return r

    def b_math_pow(it, args, kw):
        """math.pow(2, e) for an INTEGER e >= 0: the exact power of two (every 2^e with e <= 1023 is a binary64 number),
        OverflowError beyond; other bases / exponents are refused (-> bounded native stand-in)"""
        base, e = args
        if base != 2 or isinstance(e, (FloatV, float)):
            raise Unsupp("math.pow with a base other than 2 or a non-integer exponent")
        et = to_int_term(e)
        if not it.ctx.branch(et >= 0):
            raise Unsupp("math.pow(2, negative)")
        if it.ctx.branch(et >= 1024):
            raise RaiseExc("OverflowError")
        for ax in two_pow_axioms([et]):
            it.ctx.assume(ax)
        return FloatV(z3.ToReal(POW2(et)), POW2(et))

    def entries(m):
        return [vo(getattr(m, e)) for e in ENT]

    def all_zero(es):
        return And(*[is_zero_o(x) for x in es])

    def denotes(r, es, K):
        """the DyadicMatrix r denotes (1/sqrt2)^K * es  and is what normalize makes of it"""
        rs = entries(r)
        if isinstance(K, int) and isinstance(r.k, int) and r.k > K:
            return False
        return Or(And(all_zero(es), all_zero(rs), r.k == 0),
                  And(r.k <= K, *[eqv(lit_spec(x, K - r.k), y) for x, y in zip(rs, es)]))

    def mc_init(it, args, kwargs):
        """DyadicMatrix(a, b, c, d, k) by the contract of __init__ (verified below): the normalised representation of the same value"""
        env = it.bind(wd.classes["DyadicMatrix"].methods["__init__"], args, kwargs)
        self_, ctx = env["self"], it.ctx
        es = [vo(env[e]) for e in ENT]
        for e in ENT:
            self_.f[e] = fresh(ctx, ZO, f"norm.{e}")
        self_.f["k"] = z3.Int(ctx.fresh_name("norm.k"))
        ctx.assume(S.to_z3(denotes(self_, es, env["k"])))
        return None

    def mc_normalize(it, args, kwargs):
        (self_,) = args
        es, K, ctx = entries(self_), self_.k, it.ctx
        for e in ENT:
            self_.f[e] = fresh(ctx, ZO, f"norm.{e}")
        self_.f["k"] = z3.Int(ctx.fresh_name("norm.k"))
        ctx.assume(S.to_z3(denotes(self_, es, K)))
        return None
    def mc_zo_eq(it, args, kwargs):
        """ZOmega.__eq__ by its contract (verified in this module): component-wise equality, as ONE formula (no path fork)"""
        self_, other = args
        if isinstance(other, Rec) and other.cls.name == "ZOmega":
            return S.to_z3(eqv(vo(self_), vo(other)))
        if isinstance(other, int) or (isinstance(other, z3.ArithRef) and other.is_int()):
            return S.to_z3(eqv(vo(self_), (other, 0, 0, 0)))
        raise Unsupp("ZOmega.__eq__ with this operand")
    xb = {"np.allclose": b_allclose, "math.pow": b_math_pow}
    w_norm = World(RINGS, classes=ring, extra_builtins=xb, modular={"ZOmega.__eq__": mc_zo_eq})
    w_init = World(RINGS, classes=ring, extra_builtins=xb, modular={"DyadicMatrix.normalize": mc_normalize})
    wd = World(RINGS, classes=ring, extra_builtins=xb, modular={"DyadicMatrix.__init__": mc_init})

    # ---- normalize: loop invariant  LIT(entry, k0 - k) == entry0  (value (1/sqrt2)^k * M preserved by every iteration) --------------------
    def norm_inv(v):
        cur, old = v.self, v.old.self
        return And(cur.k <= old.k, *[eqv(lit_spec(x, old.k - cur.k), y) for x, y in zip(entries(cur), entries(old))])

    def norm_axioms(v):
        cur, old = v.self, v.old.self
        D = old.k - cur.k
        out = []
        for x in entries(cur):
            out += lit_axioms(x, [D - 1]) + lit_axioms(mul_sqrt2(x), [D - 2]) + lit_axioms(x, [])
        return out
    fc_norm = FnContract(w_norm, "DyadicMatrix.normalize", [
        Case("", {"self": DM}, ensures=lambda o, r, nw: denotes(nw.self, entries(o.self), o.self.k),
             axioms=lambda o, r, nw: [ax for x in entries(nw.self) for ax in lit_axioms(x, [])],
             loops={0: LoopSpec(norm_inv, axioms=norm_axioms), 1: LoopSpec(norm_inv, axioms=norm_axioms)})])

    def native_ctor(mod, a):
        a["self"] = mod.DyadicMatrix(a["a"], a["b"], a["c"], a["d"], a["k"])
        return None
    fc_init = FnContract(w_init, "DyadicMatrix.__init__", [
        Case("", {"self": DM, "a": ZO, "b": ZO, "c": ZO, "d": ZO, "k": Int}, native_call=native_ctor,
             ensures=lambda o, r, nw: denotes(nw.self, [vo(o.a), vo(o.b), vo(o.c), vo(o.d)], o.k))])

    # ---- operators: the result denotes the product / sum / scalar multiple / conjugate of the denoted values -----------------------------
    def matmul_entries(x, y):
        A, B = entries(x), entries(y)
        return [addo(mulo(A[0], B[0]), mulo(A[1], B[2])), addo(mulo(A[0], B[1]), mulo(A[1], B[3])),
                addo(mulo(A[2], B[0]), mulo(A[3], B[2])), addo(mulo(A[2], B[1]), mulo(A[3], B[3]))]

    def sum_entries(x, y):
        """entries of x + y over the larger exponent K (the smaller-exponent operand is multiplied by sqrt2^(K - k))"""
        big, small = (x, y) if S.truth(x.k >= y.k) else (y, x)
        return [addo(p, lit_spec(q, big.k - small.k)) for p, q in zip(entries(big), entries(small))], big.k

    def add_post(o, r, nw):
        x, y = o.self, o.other
        if isinstance(x.k, int) and isinstance(y.k, int):
            es, K = sum_entries(x, y)
            return denotes(r, es, K)
        es1 = [addo(p, lit_spec(q, x.k - y.k)) for p, q in zip(entries(x), entries(y))]
        es2 = [addo(p, lit_spec(q, y.k - x.k)) for p, q in zip(entries(y), entries(x))]
        return If(x.k >= y.k, denotes(r, es1, x.k), denotes(r, es2, y.k))

    def add_axioms(o, r, nw):
        x, y = o.self, o.other
        out = []
        for big, small in ((x, y), (y, x)):
            g = big.k - small.k
            m = z3.If(g >= 0, g / 2, 0)
            for q in entries(small):
                out += [z3.Implies(g >= 0, ax) for ax in lit_even_axioms(q, m)] + [z3.Implies(g >= 0, ax) for ax in lit_axioms(q, [2 * m])]
            out += two_pow_axioms([m])
        return out

    def add_overflows(o):
        g = absdiff(o.self.k, o.other.k)
        return S.fdiv(g, 2) >= 1024

    def absdiff(a, b):
        return If(a >= b, a - b, b - a)
    fc_add = FnContract(wd, "DyadicMatrix.__add__", [
        Case("other:DyadicMatrix", {"self": DM, "other": DM}, ensures=add_post, axioms=add_axioms,
             raises={"OverflowError": add_overflows}, must_return=lambda o: Not(add_overflows(o))),
        Case("other:str", {"self": DM, "other": Str}, raises={"TypeError": lambda o: True})])
    fc_matmul = FnContract(wd, "DyadicMatrix.__matmul__", [
        Case("other:DyadicMatrix", {"self": DM, "other": DM},
             ensures=lambda o, r, nw: denotes(r, matmul_entries(o.self, o.other), o.self.k + o.other.k)),
        Case("other:int", {"self": DM, "other": Int}, raises={"TypeError": lambda o: True})])
    fc_mul = FnContract(wd, "DyadicMatrix.__mul__", [
        Case("other:int", {"self": DM, "other": Int},
             ensures=lambda o, r, nw: denotes(r, [scale_o(x, o.other) for x in entries(o.self)], o.self.k)),
        Case("other:ZOmega", {"self": DM, "other": ZO},
             ensures=lambda o, r, nw: denotes(r, [mulo(x, vo(o.other)) for x in entries(o.self)], o.self.k))])
    fc_conj = FnContract(wd, "DyadicMatrix.conj", [
        Case("", {"self": DM}, ensures=lambda o, r, nw: denotes(r, [conjo(x) for x in entries(o.self)], o.self.k))])
    fc_adj2 = FnContract(wd, "DyadicMatrix.adj2", [
        Case("", {"self": DM}, ensures=lambda o, r, nw: denotes(r, [adj2o(x) for x in entries(o.self)], o.self.k))])

    # mult2k(k): the denoted value is multiplied by 2^k, i.e. the entries stay and the exponent drops by 2k
    def same_value(r, es, D):
        """r denotes (1/sqrt2)^D * es  (either exponent may be the larger one)"""
        rs = entries(r)
        hi = And(*[eqv(lit_spec(x, D - r.k), y) for x, y in zip(rs, es)])
        lo = And(*[eqv(lit_spec(y, r.k - D), x) for x, y in zip(rs, es)])
        if isinstance(D, int) and isinstance(r.k, int):
            return hi if D >= r.k else lo
        return If(D >= r.k, hi, lo)
    fc_mult2k = FnContract(wd, "DyadicMatrix.mult2k", [
        Case("k:int", {"self": DM, "k": Int}, requires=lambda a: Not(all_zero(entries(a.self))),
             ensures=lambda o, r, nw: same_value(r, entries(o.self), o.self.k - 2 * o.k),
             # k == 0 returns self: LIT(x, 0) == x (defining equation) for the entries
             axioms=lambda o, r, nw: [ax for x in entries(o.self) for ax in lit_axioms(x, [])])])
    for fc in (fc_norm, fc_init, fc_add, fc_matmul, fc_mul, fc_conj, fc_adj2, fc_mult2k):
        plan.fn_under_contract(fc.world.file, fc.qualname)
        for ob in obligations_for("C16", fc, tier):
            plan.add(ob)

    # LIT-even: LIT(x, 2m) == x * 2^m by induction on m (for all x: the hypothesis is used at 2x)
    a_, b_, c_, d_ = z3.Ints("a b c d")
    X = (a_, b_, c_, d_)
    mm = z3.Int("m")

    def EQ(p_, q_):
        return z3.And(*[u == v for u, v in zip(p_, q_)])
    plan.add(lemma("C16", "ZOmega/LIT-even:LIT(x,2m)==x*2^m/base", list(X), EQ(lit_spec(X, z3.IntVal(0)), scale_o(X, POW2(z3.IntVal(0)))),
                   assumptions=lit_axioms(X, []) + two_pow_axioms([])))
    X2 = scale_o(X, 2)
    plan.add(lemma("C16", "ZOmega/LIT-even:LIT(x,2m)==x*2^m/step", list(X) + [mm], EQ(lit_spec(X, 2 * (mm + 1)), scale_o(X, POW2(mm + 1))),
                   assumptions=[mm >= 0, EQ(lit_spec(X2, 2 * mm), scale_o(X2, POW2(mm)))] + lit_axioms(X, [2 * mm + 1])
                   + lit_axioms(mul_sqrt2(X), [2 * mm]) + two_pow_axioms([mm])))
    plan.assumed_contracts += ["np.allclose([exact integers], 0) <=> all of them are 0",
                               "math.pow(2, e) for integer 0 <= e <= 1023 is the exact power of two (binary64), OverflowError for e >= 1024"]


def sub2(x, y):
    return (x[0] - y[0], x[1] - y[1])


def subo(x, y):
    return tuple(a - b for a, b in zip(x, y))


def n_divides2(d, x):
    """REPLAY: d | x in Z[sqrt2] (exact integer test: x * adj2(d) is divisible by the integer norm of d)"""
    nd = norm2(d)
    if nd == 0:
        return all(c == 0 for c in x) if all(c == 0 for c in d) else False
    p = mul2(x, (d[0], -d[1]))
    return p[0] % nd == 0 and p[1] % nd == 0


def n_divideso(d, x):
    """REPLAY: d | x in Z[omega]: x * conj(d) * adj2(d * conj(d)) is divisible by the integer norm of d"""
    nd = abso(d)
    if nd == 0:
        return all(c == 0 for c in x)
    p = mulo(mulo(x, conjo(d)), adj2o(mulo(d, conjo(d))))
    return all(c % nd == 0 for c in p)


_RING_SPECS = {}


def ring_specs():
    """per ring: (type, view, mul, sub, native divisibility test, DIV predicate, closure-axiom instances, arbitrary divisor D0, zero).
    DIV(d, x) -- `d divides x` -- is uninterpreted and used through  x == m*d => DIV(d, x)  and the closure properties of
    divisibility in a commutative ring (lemmas divisibility/*)."""
    if _RING_SPECS:
        return _RING_SPECS
    for nm, T_, view, mul_, sub_, n_div, arity in (("ZSqrtTwo", Z2, v2, mul2, sub2, n_divides2, 2), ("ZOmega", ZO, vo, mulo, subo, n_divideso, 4)):
        DIV = z3.Function(f"divides_{nm}", *([z3.IntSort()] * (2 * arity)), z3.BoolSort())
        D0 = tuple(z3.Int(f"d0_{nm}_{i}") for i in range(arity))        # an ARBITRARY candidate divisor
        zero = tuple([0] * arity)

        def div(d, x, DIV=DIV):
            return DIV(*[S._t(c) for c in d], *[S._t(c) for c in x])

        def closure(d, x, y, q, div=div, mul_=mul_, sub_=sub_, zero=zero):
            """instances of: d|x and d|y => d | x - q*y ;  d | x <=> d | -x ;  d | 0 ;  d | d"""
            return [z3.Implies(z3.And(div(d, x), div(d, y)), div(d, sub_(x, mul_(q, y)))),
                    div(d, x) == div(d, neg(x)), div(d, y) == div(d, neg(y)), div(d, zero), div(d, d)]
        _RING_SPECS[nm] = (T_, view, mul_, sub_, n_div, div, closure, D0, zero)
    return _RING_SPECS


def div_intro(nm, d, x, m):
    """x == m*d  =>  d | x   (definition of divisibility)"""
    T_, view, mul_, sub_, n_div, div, closure, D0, zero = ring_specs()[nm]
    return z3.Implies(S.to_z3(eqv(x, mul_(m, d))), div(d, x))


def mod_gcd_contracts(plan, tier):
    """ring __mod__: the result is +-(self - q*other) for the code's own quotient q (so  {common divisors of self, other} ==
    {common divisors of other, result});  ring _gcd: the loop keeps the set of common divisors, hence the result divides both
    arguments and every common divisor divides the result (gcd up to a unit).  Termination is NOT claimed."""
    from vf.pyvc.engine import fresh
    cell = {}

    def b_round_any(it, args, kw):
        """round(n / d) on integers goes through binary64: beyond 2^53 the rounded value need not be the exact one.  The contract of
        __mod__ is proved for EVERY integer this expression may produce (it only selects which remainder is returned)."""
        return z3.Int(it.ctx.fresh_name("rounded_float_quotient"))
    w = World(RINGS, classes={"ZSqrtTwo": {"a": Int, "b": Int}, "ZOmega": {"a": Int, "b": Int, "c": Int, "d": Int}},
              extra_builtins={"round": b_round_any})

    def keep(o, r, nw, loc):
        cell["loc"] = loc
        return []

    def z2_quotient(o):
        loc = cell["loc"]
        if hasattr(loc, "dv_a"):
            return (loc.dv_a, loc.dv_b)
        if hasattr(loc, "dv"):
            return v2(loc.dv)
        same = eqv(v2(o.self), v2(o.other))
        return (If(same, 1, 0), 0)

    def z2_mod_post(o, r, nw):
        x, y = v2(o.self), v2(o.other)
        if isinstance(r, Rec):
            q = z2_quotient(o)
            rest = sub2(x, mul2(q, y))
            return Or(eqv(v2(r), rest), eqv(neg(v2(r)), rest))
        rv = v2(r)
        return n_divides2(y, sub2(x, rv)) or n_divides2(y, add2(x, rv))

    def zo_mod_post(o, r, nw):
        x, y = vo(o.self), vo(o.other)
        if isinstance(r, Rec):
            loc = cell["loc"]
            dd = loc.d
            q = tuple(S.fdiv(c + S.fdiv(dd, 2), dd) for c in vo(loc.n))
            rest = subo(x, mulo(y, q))
            return Or(eqv(vo(r), rest), eqv(neg(vo(r)), rest))
        rv = vo(r)
        return n_divideso(y, subo(x, rv)) or n_divideso(y, addo(x, rv))
    contracts = [
        FnContract(w, "ZSqrtTwo.__mod__", [
            Case("other:same", {"self": Z2, "other": Z2}, ensures=z2_mod_post, axioms=keep,
                 raises={"ZeroDivisionError": lambda o: norm2(v2(o.other)) == 0}, must_return=lambda o: norm2(v2(o.other)) != 0),
            Case("other:int", {"self": Z2, "other": Int},
                 # component-wise python remainder (so self == (a // k, b // k) * k + result by the definition of // and %)
                 ensures=lambda o, r, nw: And(r.a == S.mod(o.self.a, o.other), r.b == S.mod(o.self.b, o.other)),
                 raises={"ZeroDivisionError": lambda o: o.other == 0}, must_return=lambda o: o.other != 0)]),
        FnContract(w, "ZOmega.__mod__", [
            Case("other:same", {"self": ZO, "other": ZO}, ensures=zo_mod_post, axioms=keep,
                 raises={"ZeroDivisionError": lambda o: abso(vo(o.other)) == 0}, must_return=lambda o: abso(vo(o.other)) != 0)]),
    ]
    for fc in contracts:
        plan.fn_under_contract(fc.world.file, fc.qualname)
        for ob in obligations_for("C16", fc, tier):
            plan.add(ob)

    # ---- _gcd over a ring: divisibility DIV(d, x) is an uninterpreted predicate used through the closure properties of `d | x` in a
    # commutative ring (each proved below from the definition  x == m*d  with an explicit witness)
    specs = ring_specs()

    def mc_mod(nm):
        T_, view, mul_, sub_, n_div, div, closure, D0, zero = specs[nm]

        def mc(it, args, kwargs):
            """ring __mod__ by its contract (verified above): ZeroDivisionError for a zero-norm divisor, else r with +-r == self - q*other"""
            self_, other = args
            ctx = it.ctx
            if not (isinstance(other, Rec) and other.cls.name == nm):
                raise Unsupp("modular __mod__ only for ring operands")
            nrm = norm2(v2(other)) if nm == "ZSqrtTwo" else abso(vo(other))
            if ctx.branch(nrm == 0):
                raise RaiseExc("ZeroDivisionError")
            r, q = fresh(ctx, T_, "rem"), fresh(ctx, T_, "quot")
            rest = sub_(view(self_), mul_(view(q), view(other)))
            ctx.assume(z3.Or(S.to_z3(eqv(view(r), rest)), S.to_z3(eqv(neg(view(r)), rest))))
            ctx.ghost["mod_call"] = (view(self_), view(other), view(q), view(r))
            return r
        return mc
    wg = World(NORM, classes={"ZSqrtTwo": (RINGS, {"a": Int, "b": Int}), "ZOmega": (RINGS, {"a": Int, "b": Int, "c": Int, "d": Int})},
               modular={"ZSqrtTwo.__mod__": mc_mod("ZSqrtTwo"), "ZOmega.__mod__": mc_mod("ZOmega")})
    gcases = []
    for nm in ("ZSqrtTwo", "ZOmega"):
        T_, view, mul_, sub_, n_div, div, closure, D0, zero = specs[nm]

        def cd(x, y, div=div, D0=D0):
            return z3.And(div(D0, x), div(D0, y))

        def inv(v, view=view, cd=cd):
            return cd(view(v.elem1), view(v.elem2)) == cd(view(v.old.elem1), view(v.old.elem2))

        def inv_axioms(v, closure=closure, D0=D0, mul_=mul_, sub_=sub_, view=view, zero=zero):
            mc_ = getattr(v.ghost, "mod_call", None)
            out = closure(D0, view(v.elem1), view(v.elem2), zero)
            if mc_ is not None:
                x, y, q, r = mc_
                for rr in (r, neg(r)):                      # +-r == x - q*y   and   x == +-r + q*y
                    out += closure(D0, x, y, q) + closure(D0, rr, y, neg(q)) + closure(D0, r, y, zero)
            return out

        def post(o, r, nw, view=view, div=div, D0=D0, cd=cd, n_div=n_div):
            if isinstance(r, Rec):
                return div(D0, view(r)) == cd(view(o.elem1), view(o.elem2))
            return n_div(view(r), view(o.elem1)) and n_div(view(r), view(o.elem2))
        def post_axioms_for(closure=closure, D0=D0, view=view, zero=zero):
            return lambda o, r, nw: closure(D0, view(r), zero, zero)
        gcases.append(Case(f"{nm}", {"elem1": T_, "elem2": T_}, ensures=post, axioms=post_axioms_for(),
                           raises={"ZeroDivisionError": lambda o: True},
                           loops={0: LoopSpec(inv, axioms=inv_axioms)}))
    fc_gcd = FnContract(wg, "_", gcases)
    plan.fn_under_contract(NORM, "_gcd[ring]")
    for ob in obligations_for("C16", fc_gcd, tier):
        plan.add(ob)

    # the closure properties of divisibility, from the definition with explicit witnesses (Z[omega]; Z[sqrt2] embeds)
    xs = z3.Ints("x0 x1 x2 x3")
    ys = z3.Ints("y0 y1 y2 y3")
    ds = z3.Ints("d0 d1 d2 d3")
    ms = z3.Ints("m0 m1 m2 m3")
    ns = z3.Ints("n0 n1 n2 n3")
    qs = z3.Ints("q0 q1 q2 q3")

    def EQ(p_, q_):
        return z3.And(*[u == v for u, v in zip(p_, q_)])
    X, Y, D, M, N, Q = tuple(xs), tuple(ys), tuple(ds), tuple(ms), tuple(ns), tuple(qs)
    plan.add(lemma("C16", "divisibility/ZOmega:x=m*d,y=n*d=>x-q*y=(m-q*n)*d", list(X + Y + D + M + N + Q),
                   EQ(subo(X, mulo(Q, Y)), mulo(subo(M, mulo(Q, N)), D)), assumptions=[EQ(X, mulo(M, D)), EQ(Y, mulo(N, D))]))
    plan.add(lemma("C16", "divisibility/ZSqrtTwo:x=m*d,y=n*d=>x-q*y=(m-q*n)*d", list(X[:2] + Y[:2] + D[:2] + M[:2] + N[:2] + Q[:2]),
                   EQ(sub2(X[:2], mul2(Q[:2], Y[:2])), mul2(sub2(M[:2], mul2(Q[:2], N[:2])), D[:2])),
                   assumptions=[EQ(X[:2], mul2(M[:2], D[:2])), EQ(Y[:2], mul2(N[:2], D[:2]))]))
    plan.add(lemma("C16", "divisibility/negation-zero-self", list(X + D + M),
                   z3.And(EQ(neg(X), mulo(neg(M), D)), EQ(mulo((0, 0, 0, 0), D), (0, 0, 0, 0)), EQ(mulo((1, 0, 0, 0), D), D)),
                   assumptions=[EQ(X, mulo(M, D))]))


# ---- modular exponentiation: pow(a, e, p) for p >= 1 is the spec function MP, used through
#   0 <= MP(a,e,p) < p,   MP(a,0,p) == 1 % p,   a*MP(a,e,p) - MP(a,e+1,p) == p*QS(a,e,p)          (definition of  (MP*a) % p  with its quotient)
# and the derived law  MP(a,e,p)^2 - MP(a,2e,p) == p*QD(a,e,p)  (lemma pair modpow-double, QD defined by the recursion the proof yields)
MP = z3.Function("modpow", z3.IntSort(), z3.IntSort(), z3.IntSort(), z3.IntSort())
QS = z3.Function("modpow_step_quotient", z3.IntSort(), z3.IntSort(), z3.IntSort(), z3.IntSort())
QD = z3.Function("modpow_double_quotient", z3.IntSort(), z3.IntSort(), z3.IntSort(), z3.IntSort())


def mp_axioms(a, es, p):
    out = [z3.Implies(p >= 2, MP(a, z3.IntVal(0), p) == 1)]
    for e in es:
        e = z3.IntVal(e) if isinstance(e, int) else e
        out += [z3.Implies(p >= 1, z3.And(MP(a, e, p) >= 0, MP(a, e, p) < p, MP(a, e + 1, p) >= 0, MP(a, e + 1, p) < p)),
                z3.Implies(z3.And(p >= 1, e >= 0), a * MP(a, e, p) - MP(a, e + 1, p) == p * QS(a, e, p))]
    return out


def qd_def(a, e, p):
    return [QD(a, z3.IntVal(0), p) == 0,
            z3.Implies(e >= 0, QD(a, e + 1, p) == a * a * QD(a, e, p) - 2 * a * MP(a, e, p) * QS(a, e, p) + p * QS(a, e, p) * QS(a, e, p)
                       + a * QS(a, 2 * e, p) + QS(a, 2 * e + 1, p))]


def mp_double(a, e, p):
    return [z3.Implies(z3.And(p >= 2, e >= 0), MP(a, e, p) * MP(a, e, p) - MP(a, 2 * e, p) == p * QD(a, e, p))]


def mod_def(x, p):
    """x == p * (x div p) + (x mod p)  and  0 <= x mod p < p   (p > 0): the definition of python's // and % on a positive modulus"""
    return z3.Implies(p > 0, z3.And(x == p * (x / p) + x % p, x % p >= 0, x % p < p))


def sqrt_mod_contracts(plan, tier):
    from vf.pyvc import xmaps as X
    from vf.pyvc.engine import to_int_term, is_intlike
    cell = {}

    def b_pow(it, args, kw):
        """pow(a, e, p): ValueError for p == 0, otherwise the spec function (0 <= result < p for p >= 1)"""
        cell["ctx"] = it.ctx
        if len(args) != 3:
            raise Unsupp("two-argument pow on symbolic integers")
        a, e, p = (to_int_term(x) for x in args)
        if it.ctx.branch(p == 0):
            raise RaiseExc("ValueError")
        if not it.ctx.branch(e >= 0):
            raise Unsupp("pow with a negative exponent (modular inverse)")
        it.ctx.assume(z3.Implies(p >= 1, z3.And(MP(a, e, p) >= 0, MP(a, e, p) < p)))
        return MP(a, e, p)

    def b_lshift(it, args, kw):
        a, b = args
        if a != 1:
            raise Unsupp("left shift of a value other than 1")
        bt = to_int_term(b)
        if not it.ctx.branch(bt >= 0):
            raise RaiseExc("ValueError")
        it.ctx.assume(POW2(bt) >= 1)             # 2^b >= 1 for b >= 0 (consequence of the defining equations of POW2)
        return POW2(bt)
    w = World(NORM, functions=["_legendre_symbol"], extra_builtins={"pow": b_pow, "lshift": b_lshift})

    def cong0(x, p):
        return S.mod(x, p) == 0

    def sq_post(o, r, nw):
        if r is None:
            return True
        return And(r >= 0, r < o.p, cong0(r * r - o.n, o.p))

    # main loop (ordinal 2):  r*r - a*t == p*K  for the ghost quotient K,  0 <= r < p
    def main_inv(v):
        return And(v.r * v.r - v.a * v.t == v.p * v.ghost.K, v.r >= 0, v.r < v.p, v.p >= 2)

    def main_axioms(v):
        ctx = cell["ctx"]
        ctx.sq_phase = getattr(ctx, "sq_phase", 0) + 1
        a, p = S._t(v.a), S._t(v.p)
        if ctx.sq_phase == 1:
            # entry: r = a^((q+1)/2), t = a^q  =>  r*r == a^(q+1) + p*QD == a*t - p*QS + p*QD
            q = S._t(v.q)
            e = (q + 1) / 2
            ctx.ghost["K"] = QD(a, e, p) - QS(a, q, p)
            return mp_axioms(a, [q, e], p) + mp_double(a, e, p)
        if ctx.sq_phase == 2:
            cell["head"] = (S._t(v.r), S._t(v.t), v.ghost.K)
            return []
        r_h, t_h, K_h = cell["head"]
        b, c1 = S._t(v.b), S._t(v.c)
        x1, x3 = r_h * b, t_h * c1
        k1, k3 = x1 / p, x3 / p
        kc = b * QS(b, z3.IntVal(0), p) + QS(b, z3.IntVal(1), p)
        ctx.ghost["K"] = b * b * K_h + a * t_h * kc - 2 * r_h * b * k1 + p * k1 * k1 + a * k3
        return [mod_def(x1, p), mod_def(x3, p)] + mp_axioms(b, [0, 1], p) + [z3.Implies(p >= 2, b * b - c1 == p * kc)]

    def post_axioms(o, r, nw, loc):
        n, p = S._t(o.n), S._t(o.p)
        out = [mod_def(n, p), two_pow_axioms([0])[0], POW2(z3.IntVal(1)) == 2] + two_pow_axioms([0])
        a = n % p
        x = None if r is None else S._t(r) * S._t(r) - n
        wit = []
        if r is not None and hasattr(loc, "t") and hasattr(loc.ghost, "K") and hasattr(loc, "m"):
            t = S._t(loc.t)
            out.append(mod_def(t, p))
            wit.append(loc.ghost.K + a * (t / p) - n / p)                           # exit of the main loop: t == 1 (mod p)
        if r is not None and hasattr(loc, "q"):
            e = (p + 1) / 4
            out += mp_axioms(a, [(p - 1) / 2, e], p) + mp_double(a, e, p)
            wit.append(QD(a, e, p) - QS(a, (p - 1) / 2, p) - n / p)                 # s == 1 shortcut
        if r is not None:
            wit.append(-(n / p))                                                    # a == 0: r == 0
        for wv in wit:                                                                # lemma mod-zero: x == p*w  =>  x % p == 0
            out.append(z3.Implies(z3.And(p >= 1, x == p * wv), x % p == 0))
        return out
    ls_q = LoopSpec(lambda v: And(v.q * two_pow(v.s) == v.p - 1, v.s >= 0, v.q >= 1),
                    axioms=lambda v: two_pow_axioms([S._t(v.s), S._t(v.s) - 1]))
    ls_z = LoopSpec(lambda v: True, types={"z": Int})
    ls_main = LoopSpec(main_inv, axioms=main_axioms)
    ls_main.ghost_types = {"K": Int}
    ls_inner = LoopSpec(lambda v: True)
    fc_sqrt = FnContract(w, "_sqrt_modulo_p", [
        Case("p>=2", {"n": Int, "p": Int}, requires=lambda a: a.p >= 2, ensures=sq_post, axioms=post_axioms,
             loops={0: ls_q, 1: ls_z, 2: ls_main, 3: ls_inner})])
    fc_leg = FnContract(w, "_legendre_symbol", [
        Case("p!=0", {"a": Int, "p": Int}, requires=lambda a: a.p >= 1,
             ensures=lambda o, r, nw: (r == MP(S._t(o.a), (S._t(o.p) - 1) / 2, S._t(o.p))) if isinstance(r, z3.ExprRef)
             else r == pow(o.a, (o.p - 1) // 2, o.p)),
        Case("p==0", {"a": Int, "p": T("const", 0)}, raises={"ValueError": lambda o: True})])
    for fc in (fc_sqrt, fc_leg):
        X.use_xinterp(fc)
        plan.fn_under_contract(NORM, fc.qualname)
        for ob in obligations_for("C16", fc, tier):
            plan.add(ob)

    # ---- lemmas ------------------------------------------------------------------------------------------------------------------------
    a, e, p, x, wv = z3.Ints("a e p x w")
    plan.add(lemma("C16", "modpow-double/base", [a, p], MP(a, z3.IntVal(0), p) * MP(a, z3.IntVal(0), p) - MP(a, 2 * z3.IntVal(0), p) == p * QD(a, z3.IntVal(0), p),
                   assumptions=[p >= 2] + mp_axioms(a, [], p) + qd_def(a, e, p)[:1]))
    plan.add(lemma("C16", "modpow-double/step", [a, e, p],
                   MP(a, e + 1, p) * MP(a, e + 1, p) - MP(a, 2 * (e + 1), p) == p * QD(a, e + 1, p),
                   assumptions=[p >= 2, e >= 0, MP(a, e, p) * MP(a, e, p) - MP(a, 2 * e, p) == p * QD(a, e, p)]
                   + mp_axioms(a, [e, 2 * e, 2 * e + 1], p) + qd_def(a, e, p), timeout_ms=60000))
    plan.add(lemma("C16", "mod-zero:x==p*w=>x%p==0", [x, p, wv], x % p == 0, assumptions=[p >= 1, x == p * wv]))
    plan.assumed_contracts.append("pow(a, e, p) for e >= 0, p >= 1: the modular power (spec function modpow: result in [0, p), modpow(a,0,p) == 1 % p, "
                                  "modpow(a,e+1,p) == (modpow(a,e,p)*a) % p); ValueError for p == 0")


def ring_callee_models():
    """callee contracts (verified in this module) used by the factorisation functions and by _solve_diophantine"""
    from vf.pyvc.engine import fresh, to_int_term
    specs = ring_specs()

    def mc_sqrt_mod(it, args, kwargs):
        """_sqrt_modulo_p(n, p) by its contract: requires p >= 2; None, or r in [0, p) with r*r == n (mod p)"""
        n, p = (to_int_term(x) for x in args)
        ctx = it.ctx
        ctx.prove(p >= 2, "pre-call:_sqrt_modulo_p(p >= 2)")
        if ctx.branch(z3.Bool(ctx.fresh_name("no_square_root"))):
            return None
        r = z3.Int(ctx.fresh_name("sqrt_mod"))
        ctx.assume(z3.And(r >= 0, r < p, (r * r - n) % p == 0))
        return r

    def mc_ring_gcd(it, args, kwargs):
        """_gcd on ring elements by its contract: the result divides both arguments (and every common divisor divides it);
        ZeroDivisionError is possible; termination is not claimed"""
        e1, e2 = args
        ctx = it.ctx
        if not (isinstance(e1, Rec) and isinstance(e2, Rec) and e1.cls.name == e2.cls.name and e1.cls.name in specs):
            raise Unsupp("_gcd on these operands")
        T_, view, mul_, sub_, n_div, div, closure, D0, zero = specs[e1.cls.name]
        if ctx.branch(z3.Bool(ctx.fresh_name("gcd_raises"))):
            raise RaiseExc("ZeroDivisionError")
        res = fresh(ctx, T_, "gcd")
        ctx.assume(z3.And(div(view(res), view(e1)), div(view(res), view(e2))))
        ctx.assume(div(D0, view(res)) == z3.And(div(D0, view(e1)), div(D0, view(e2))))
        return res
    return mc_sqrt_mod, mc_ring_gcd


def factorize_contracts(plan, tier):
    """_factorize_prime_zsqrt_two(p): every returned factor divides p in Z[sqrt2];  _factorize_prime_zomega(x, p): the returned element
    divides x (as an element of Z[omega]) -- the divisibility facts behind the candidate `scale` of _solve_diophantine (whose result is
    re-checked by the code, so its soundness does not depend on them)."""
    specs = ring_specs()
    mc_sqrt_mod, mc_ring_gcd = ring_callee_models()
    ring_classes = {"ZSqrtTwo": (RINGS, {"a": Int, "b": Int}), "ZOmega": (RINGS, {"a": Int, "b": Int, "c": Int, "d": Int})}
    w = World(NORM, classes=ring_classes, extra_builtins={"_sqrt_modulo_p": mc_sqrt_mod, "_gcd": mc_ring_gcd})
    div2, closure2 = specs["ZSqrtTwo"][5], specs["ZSqrtTwo"][6]
    divo, closureo = specs["ZOmega"][5], specs["ZOmega"][6]

    def to_om(x):
        return (x[0], x[1], 0, -x[1])

    def items(r):
        from vf.pyvc.engine import PyList
        return r.items if isinstance(r, PyList) else list(r)

    def z2_post(o, r, nw):
        if r is None:
            return True
        fs = items(r)
        if len(fs) not in (1, 2):
            return False
        if isinstance(fs[0], Rec):
            return And(*[div2(v2(f), (o.p, 0)) for f in fs])
        return all(n_divides2(v2(f), (o.p, 0)) for f in fs)

    def z2_axioms(o, r, nw):
        if r is None:
            return []
        out = []
        pv = (S._t(o.p), z3.IntVal(0))
        fs = [v2(f) for f in items(r)]
        for i, f in enumerate(fs):
            out += closure2(f, pv, pv, (0, 0))
            for other in fs:
                out.append(div_intro("ZSqrtTwo", f, pv, other))                        # p == other * f  (the +-2 case)
            out.append(div_intro("ZSqrtTwo", f, pv, (1, 0)))                           # p == 1 * f      (p inert)
            # adj2 is a ring automorphism fixing the integers: d | p  =>  adj2(d) | p      (lemma divisibility/adj2)
            out.append(z3.Implies(div2((f[0], -f[1]), pv), div2(f, pv)))
        return out

    def zo_post(o, r, nw):
        x = to_om(v2(o.x))
        shape = And(Implies(o.p == 2, False if r is None else eqv(vo(r), (1, 1, 0, 0))),
                    Implies(Or(S.mod(S.mod(o.p, 8), 2) == 0, S.mod(o.p, 8) == 7), Or(o.p == 2, r is None)))
        if r is None:
            return shape
        if isinstance(r, Rec):
            return And(shape, Or(o.p == 2, divo(vo(r), x)))
        return shape and (o.p == 2 or n_divideso(vo(r), x))
    contracts = [
        FnContract(w, "_factorize_prime_zsqrt_two", [
            Case("p>=2", {"p": Int}, requires=lambda a: a.p >= 2, ensures=z2_post, axioms=z2_axioms, raises={"ZeroDivisionError": lambda o: True})]),
        FnContract(w, "_factorize_prime_zomega", [
            Case("p>=2", {"x": Z2, "p": Int}, requires=lambda a: a.p >= 2, ensures=zo_post, raises={"ZeroDivisionError": lambda o: True})]),
    ]
    for fc in contracts:
        plan.fn_under_contract(NORM, fc.qualname)
        for ob in obligations_for("C16", fc, tier):
            plan.add(ob)
    a_, b_, c_, d_, m0, m1 = z3.Ints("a b c d m0 m1")
    plan.add(lemma("C16", "divisibility/adj2:x=m*d=>adj2(x)=adj2(m)*adj2(d)", [a_, b_, c_, d_, m0, m1],
                   z3.And(*[u == v for u, v in zip((a_, -b_), mul2((m0, -m1), (c_, -d_)))]),
                   assumptions=[z3.And(*[u == v for u, v in zip((a_, b_), mul2((m0, m1), (c_, d_)))])]))


def prime_factorize_contracts(plan, tier):
    """_prime_factorize: the stack loop keeps  prod(factors) * prod(stack) == n  and `every element of factors passed _primality_test`;
    the returned (sorted) list has product n and consists of integers that passed the primality test."""
    from vf.pyvc import xmaps as X
    from vf.pyvc.engine import to_int_term, fresh, SeqT, SeqV, PyList
    IS = z3.SeqSort(z3.IntSort())
    PROD = z3.Function("prod", IS, z3.IntSort())
    ALLP = z3.Function("all_passed_primality_test", IS, z3.BoolSort())
    POS = z3.Function("all_positive", IS, z3.BoolSort())
    PT = z3.Function("primality_test", z3.IntSort(), z3.BoolSort())

    def snoc_defs(s_, x):
        t = z3.Concat(s_, z3.Unit(x))
        return [PROD(t) == PROD(s_) * x, ALLP(t) == z3.And(ALLP(s_), PT(x)), POS(t) == z3.And(POS(s_), x >= 1)]
    EMPTY = z3.Empty(IS)
    base_defs = [PROD(EMPTY) == 1, ALLP(EMPTY), POS(EMPTY)]

    def term_of(v):
        return v.term if isinstance(v, SeqV) else S.seqterm(w, v, Int)

    def unfold(t, depth=0):
        """instances of the snoc equations along the syntactic structure of a sequence term (pop = extract, append/extend = concat)"""
        out = list(base_defs)
        if depth > 6:
            return out
        if z3.is_app_of(t, z3.Z3_OP_SEQ_EXTRACT):
            b_, off, ln = t.children()
            last = b_[z3.Length(b_) - 1]
            out.append(z3.Implies(z3.Length(b_) >= 1, b_ == z3.Concat(z3.Extract(b_, 0, z3.Length(b_) - 1), z3.Unit(last))))
            out += snoc_defs(z3.Extract(b_, 0, z3.Length(b_) - 1), last) + unfold(b_, depth + 1)
        elif z3.is_app_of(t, z3.Z3_OP_SEQ_CONCAT):
            ch = t.children()
            units = []
            for c_ in ch:
                if z3.is_app_of(c_, z3.Z3_OP_SEQ_CONCAT):
                    units += c_.children()
                else:
                    units.append(c_)
            pre = units[0]
            out += unfold(pre, depth + 1)
            for u in units[1:]:
                if z3.is_app_of(u, z3.Z3_OP_SEQ_UNIT):
                    out += snoc_defs(pre, u.arg(0))
                    pre = z3.Concat(pre, u)
                else:
                    break
        elif z3.is_app_of(t, z3.Z3_OP_SEQ_UNIT):
            out += snoc_defs(EMPTY, t.arg(0)) + [z3.Concat(EMPTY, t) == t]
        return out

    def b_primality(it, args, kw):
        x = to_int_term(args[0])
        it.ctx.assume(z3.Implies(PT(x), x >= 2))          # _primality_test(n) is False for n < 2 (verified below)
        return PT(x)

    def b_integer_factorize(it, args, kw):
        """ASSUMED contract of _integer_factorize (Pollard rho, randomised): None, or a divisor g of n with 1 < g < n"""
        n = to_int_term(args[0])
        if it.ctx.branch(z3.Bool(it.ctx.fresh_name("no_factor_found"))):
            return None
        g = z3.Int(it.ctx.fresh_name("factor"))
        it.ctx.assume(z3.And(g > 1, g < n, n == g * (n / g), n % g == 0))
        return g

    def b_sorted(it, args, kw):
        """ASSUMED contract of sorted(): a permutation of its argument; the product and `all passed the test` are permutation invariant"""
        v = args[0]
        t = term_of(v)
        r = fresh(it.ctx, SeqT(Int), "sorted")
        it.ctx.assume(z3.And(PROD(r.term) == PROD(t), ALLP(r.term) == ALLP(t), z3.Length(r.term) == z3.Length(t)))
        return r
    w = World(NORM, extra_builtins={"_primality_test": b_primality, "_integer_factorize": b_integer_factorize, "sorted": b_sorted})

    def inv(v):
        f, st = term_of(v.factors), term_of(v.stack)
        return And(PROD(f) * PROD(st) == v.n, ALLP(f), POS(st), v.n >= 1)

    def inv_axioms(v):
        return unfold(term_of(v.factors)) + unfold(term_of(v.stack))

    def post(o, r, nw):
        if r is None:
            return True
        if isinstance(r, SeqV):
            return And(PROD(r.term) == o.n, ALLP(r.term))
        import importlib
        import math
        mod = importlib.import_module("pennylane.ops.op_math.decompositions.norm_solver")
        test = getattr(mod._primality_test, "__wrapped__", mod._primality_test)
        return math.prod(r) == o.n and all(test(x) for x in r) and list(r) == sorted(r)

    def native_pf(mod, a):
        f = getattr(mod._prime_factorize, "__wrapped__", mod._prime_factorize)
        return f(a["n"], a["max_trials"], a["z_sqrt_two"])
    fc = FnContract(w, "_prime_factorize", [
        Case(f"z_sqrt_two={zs}", {"n": Int, "max_trials": Int, "z_sqrt_two": T("const", zs)}, requires=lambda a: And(a.n >= 1, a.max_trials >= 1),
             native_call=native_pf, native_gen=lambda rng, m: dict(m, n=abs(int(m["n"])) % 5000 + 1, max_trials=50) if rng is not None else m,
             ensures=post, axioms=lambda o, r, nw: base_defs,
             loops={0: LoopSpec(inv, types={"factors": SeqT(Int), "stack": SeqT(Int)}, axioms=inv_axioms)}) for zs in (True, False)])
    fc_pt = FnContract(World(NORM), "_primality_test", [
        Case("n<2", {"n": Int}, requires=lambda a: a.n < 2, ensures=lambda o, r, nw: r == False,  # noqa: E712
             native_call=lambda mod, a: getattr(mod._primality_test, "__wrapped__", mod._primality_test)(a["n"]))])
    for f_ in (fc, fc_pt):
        X.use_xinterp(f_)
        plan.fn_under_contract(NORM, f_.qualname)
        for ob in obligations_for("C16", f_, tier):
            plan.add(ob)
    plan.assumed_contracts += ["_integer_factorize(n, tries) (randomised Pollard rho): None, or a divisor g of n with 1 < g < n",
                               "sorted(list of ints): a permutation (product and element-wise predicates are permutation invariant)"]


# x * sqrt2^n in Z[sqrt2], by iteration of the linear map (a, b) -> (2b, a):   LIT2(x, 0) = x,   LIT2(x, n+1) = LIT2(x*sqrt2, n)
LIT2 = [z3.Function(f"LITs{i}", *([z3.IntSort()] * 4)) for i in range(2)]


def mul_sqrt2_2(x):
    return (2 * x[1], x[0])


def lit2_spec(x, n):
    if isinstance(n, int) and all(isinstance(c, int) for c in x):
        for _ in range(n):
            x = mul_sqrt2_2(x)
        return tuple(x)
    return tuple(LIT2[i](x[0], x[1], n) for i in range(2))


def lit2_axioms(x, ns):
    x = tuple(z3.IntVal(c) if isinstance(c, int) else c for c in x)
    out = [z3.And(*[p == q for p, q in zip(lit2_spec(x, z3.IntVal(0)), x)])]
    for n in ns:
        n = z3.IntVal(n) if isinstance(n, int) else n
        out.append(z3.Implies(n >= 0, z3.And(*[p == q for p, q in zip(lit2_spec(x, n + 1), lit2_spec(mul_sqrt2_2(x), n))])))
    return out


def so3_contracts(plan, tier):
    """SO3Matrix: the denoted value is (1/sqrt2)^k * so3mat (3x3 over Z[sqrt2]).  normalize preserves it; __matmul__ denotes the matrix
    product of the denoted values (and multiplies the underlying dyadic matrices)."""
    from vf.pyvc import xmaps as X
    from vf.pyvc.engine import fresh, PyList, ListT
    DM = RecT("DyadicMatrix")
    ring = {"ZSqrtTwo": {"a": Int, "b": Int}, "ZOmega": {"a": Int, "b": Int, "c": Int, "d": Int},
            "DyadicMatrix": {"a": ZO, "b": ZO, "c": ZO, "d": ZO, "k": Int}, "SO3Matrix": {"matrix": DM, "k": Int, "so3mat": Int}}

    def mk_so3(ctx, name):
        rows = PyList([PyList([fresh(ctx, Z2, f"{name}.m{i}{j}") for j in range(3)]) for i in range(3)])
        return Rec(wn.classes["SO3Matrix"], {"matrix": fresh(ctx, DM, f"{name}.matrix"), "k": z3.Int(ctx.fresh_name(f"{name}.k")), "so3mat": rows})

    def gen_so3(rng):
        zo = lambda: {"__class__": "ZOmega", **{f: rng.randint(-3, 4) for f in "abcd"}}
        return {"__class__": "SO3Matrix", "matrix": {"__class__": "DyadicMatrix", "a": zo(), "b": zo(), "c": zo(), "d": zo(), "k": rng.randint(0, 4)},
                "k": rng.randint(-2, 6), "so3mat": [[{"__class__": "ZSqrtTwo", "a": rng.choice([0, 2, 4, -2, 1, 3, 8]), "b": rng.choice([0, 2, -4, 1, 6])}
                                                      for _ in range(3)] for _ in range(3)]}
    SO3 = T("build", mk_so3, gen=gen_so3)

    def flat(m):
        rows = m.so3mat.items if isinstance(m.so3mat, PyList) else m.so3mat
        return [v2(x) for row in rows for x in (row.items if isinstance(row, PyList) else row)]

    def all_zero(es):
        return And(*[And(x[0] == 0, x[1] == 0) for x in es])

    def denotes(rs, rk, es, K):
        if isinstance(K, int) and isinstance(rk, int) and rk > K:
            return False
        return Or(And(all_zero(es), all_zero(rs), rk == 0), And(rk <= K, *[eqv(lit2_spec(x, K - rk), y) for x, y in zip(rs, es)]))

    def elems(v):
        return [v2(x) for x in v.elements.items]

    def norm_inv(v):
        return And(v.self.k <= v.old.self.k, *[eqv(lit2_spec(x, v.old.self.k - v.self.k), y) for x, y in zip(elems(v), flat(v.old.self))])

    def norm_axioms(v):
        D = v.old.self.k - v.self.k
        out = []
        for x in elems(v):
            out += lit2_axioms(x, [D - 1]) + lit2_axioms(mul_sqrt2_2(x), [D - 2])
        return out

    def mc_so3_normalize(it, args, kwargs):
        (self_,) = args
        es, K, ctx = flat(self_), self_.k, it.ctx
        rows = PyList([PyList([fresh(ctx, Z2, f"norm.m{i}{j}") for j in range(3)]) for i in range(3)])
        self_.f["so3mat"], self_.f["k"] = rows, z3.Int(ctx.fresh_name("norm.k"))
        ctx.assume(S.to_z3(denotes(flat(self_), self_.k, es, K)))
        return None

    def mc_dm_matmul(it, args, kwargs):
        """DyadicMatrix.__matmul__ by its contract (verified above): a normalised representation of the matrix product"""
        x, y = args
        ctx = it.ctx
        r = fresh(ctx, DM, "dyadic_product")
        cell["dm_product"] = (r, x, y)
        return r
    cell = {}
    xb = {"pure_generators": True}
    wn = World(RINGS, classes=ring, extra_builtins=xb)
    wm = World(RINGS, classes=ring, extra_builtins=xb, modular={"SO3Matrix.normalize": mc_so3_normalize, "DyadicMatrix.__matmul__": mc_dm_matmul})
    types = {"elements": ListT(Z2, 9)}
    fc_norm = FnContract(wn, "SO3Matrix.normalize", [
        Case("", {"self": SO3}, size_bounded=False, ensures=lambda o, r, nw: denotes(flat(nw.self), nw.self.k, flat(o.self), o.self.k),
             axioms=lambda o, r, nw: [ax for x in flat(nw.self) for ax in lit2_axioms(x, [])],
             loops={0: LoopSpec(norm_inv, types=types, axioms=norm_axioms), 1: LoopSpec(norm_inv, types=types, axioms=norm_axioms)})])

    def matprod(A, B):
        return [add2(add2(mul2(A[3 * i], B[j]), mul2(A[3 * i + 1], B[3 + j])), mul2(A[3 * i + 2], B[6 + j])) for i in range(3) for j in range(3)]

    def matmul_post(o, r, nw):
        ok = denotes(flat(r), r.k, matprod(flat(o.self), flat(o.other)), o.self.k + o.other.k)
        if isinstance(r, Rec):
            dm, x, y = cell["dm_product"]
            return And(ok, r.matrix is dm, x is nw.self.matrix, y is nw.other.matrix, r is not nw.self, r is not nw.other,
                       And(*[eqv(p, q) for p, q in zip(flat(nw.self), flat(o.self))]), nw.self.k == o.self.k)
        prod = nw.self.matrix @ nw.other.matrix
        return ok and r.matrix == prod and r is not nw.self and flat(nw.self) == flat(o.self) and nw.self.k == o.self.k
    fc_matmul = FnContract(wm, "SO3Matrix.__matmul__", [
        Case("other:SO3Matrix", {"self": SO3, "other": SO3}, ensures=matmul_post)])
    # ---- from_matrix: the adjoint representation  R_ij = 1/2 Tr(sigma_i U sigma_j U^dagger)  of a matrix of special-unitary shape
    # U = (1/sqrt2)^k [[u, v], [-v*, u*]]; each entry s = a w^3 + b w^2 + c w + d has sqrt2*s = ((c-a) + d sqrt2) + i((c+a) + b sqrt2).
    # The specification is computed independently with 2x2 complex matrices over Z[sqrt2] (pairs (re, im) of pairs).
    Z0, ONE = (0, 0), (1, 0)

    def cadd(x, y):
        return (add2(x[0], y[0]), add2(x[1], y[1]))

    def cmul(x, y):
        return (add2(mul2(x[0], y[0]), neg(mul2(x[1], y[1]))), add2(mul2(x[0], y[1]), mul2(x[1], y[0])))

    def cconj(x):
        return (x[0], neg(x[1]))

    def mmul(A, B):
        return [[cadd(cmul(A[i][0], B[0][j]), cmul(A[i][1], B[1][j])) for j in range(2)] for i in range(2)]
    SIG = [[[(Z0, Z0), (ONE, Z0)], [(ONE, Z0), (Z0, Z0)]],                       # sigma_x
           [[(Z0, Z0), (Z0, neg(ONE))], [(Z0, ONE), (Z0, Z0)]],                  # sigma_y
           [[(ONE, Z0), (Z0, Z0)], [(Z0, Z0), (neg(ONE), Z0)]]]                  # sigma_z

    def scaled_entry(sv):
        """sqrt2 * s as a complex number over Z[sqrt2] (sv = ascending coefficients (d, c, b, a) of s)"""
        d_, c_, b_, a_ = sv
        return ((c_ - a_, d_), (c_ + a_, b_))

    def adjoint_rep(m):
        U = [[scaled_entry(vo(m.a)), scaled_entry(vo(m.b))], [scaled_entry(vo(m.c)), scaled_entry(vo(m.d))]]
        Ud = [[cconj(U[0][0]), cconj(U[1][0])], [cconj(U[0][1]), cconj(U[1][1])]]
        out = []
        for i in range(3):
            for j in range(3):
                M = mmul(mmul(SIG[i], U), mmul(SIG[j], Ud))
                out.append(cadd(M[0][0], M[1][1]))          # the trace (a complex number over Z[sqrt2])
        return out

    def su2_shape(m):
        return And(eqv(vo(m.c), neg(conjo(vo(m.b)))), eqv(vo(m.d), conjo(vo(m.a))))

    def from_matrix_post(o, r, nw):
        rows = r.items if isinstance(r, PyList) else r
        got = [v2(x) for row in rows for x in (row.items if isinstance(row, PyList) else row)]
        spec = adjoint_rep(o.matrix)
        # Tr(...) == 2 * entry  (the entries carry the factor 1/2 of R_ij together with the two factors sqrt2: k = 2*matrix.k + 2)
        return And(nw.self.k == 2 * o.matrix.k + 2, *[And(eqv(t[0], (2 * g[0], 2 * g[1])), eqv(t[1], Z0)) for t, g in zip(spec, got)])
    fc_from = FnContract(wn, "SO3Matrix.from_matrix", [
        Case("special-unitary shape", {"self": SO3, "matrix": DM}, requires=lambda a: su2_shape(a.matrix), ensures=from_matrix_post)])
    for fc in (fc_norm, fc_matmul, fc_from):
        X.use_xinterp(fc)
        plan.fn_under_contract(RINGS, fc.qualname)
        for ob in obligations_for("C16", fc, tier):
            plan.add(ob)


def build(tier, seed):
    plan = Plan("C16", level="proof")
    try:
        import pennylane  # noqa: F401  (loaded once: the forked obligation workers replay counter-models on the real code)
    except Exception:  # pylint: disable=broad-except
        pass
    plan.explanation = ("The real method bodies of rings.py are extracted with ast on every run and executed symbolically "
                        "(all paths); each postcondition `view(result) == spec(view(args))` is a z3 VC over unbounded integers; "
                        "ring laws are polynomial identities over the spec functions.")
    plan.trusted_base = ["vf/pyvc (AST -> VC encoder for the stated Python subset)", "z3 5.1 (NIA), cvc5 for z3's unknowns"]
    plan.assumptions = ["A-float-as-real for integral-float operands (is_integer() inputs)",
                        "python int = mathematical integer (exact: python ints are unbounded)"]
    plan.dropped = ["docstrings, type annotations, f-string messages of exceptions"]
    w = World(RINGS, classes={"ZSqrtTwo": {"a": Int, "b": Int}, "ZOmega": {"a": Int, "b": Int, "c": Int, "d": Int}})

    def bad_other(extra=()):
        return [Case("other:str", {"self": None, "other": Str}, raises={"TypeError": lambda o: True}),
                Case("other:float-fractional", {"self": None, "other": FloatFractional}, raises={"TypeError": lambda o: True})]

    def cases_binop(selfT, view, spec_same, spec_int, extra_raises=None, with_bad=True, int_label="int"):
        cs = [Case("other:same", {"self": selfT, "other": selfT},
                   ensures=lambda o, r, n: eqv(view(r), spec_same(view(o.self), view(o.other)))),
              Case("other:int", {"self": selfT, "other": Int},
                   ensures=lambda o, r, n: eqv(view(r), spec_int(view(o.self), o.other))),
              Case("other:float-integral", {"self": selfT, "other": FloatIntegral},
                   ensures=lambda o, r, n: eqv(view(r), spec_int(view(o.self), scal(o.other))))]
        if with_bad:
            for c in bad_other():
                c.params["self"] = selfT
                cs.append(c)
        return cs

    contracts = []
    # ------------------------------------------------------------------ ZSqrtTwo
    contracts.append(FnContract(w, "ZSqrtTwo.__add__", cases_binop(Z2, v2, add2, lambda x, k: (x[0] + k, x[1]))))
    contracts.append(FnContract(w, "ZSqrtTwo.__mul__", cases_binop(Z2, v2, mul2, lambda x, k: (x[0] * k, x[1] * k))))
    contracts.append(FnContract(w, "ZSqrtTwo.__sub__", cases_binop(Z2, v2, lambda x, y: add2(x, neg(y)), lambda x, k: (x[0] - k, x[1]),
                                                                   with_bad=False)))
    contracts.append(FnContract(w, "ZSqrtTwo.__rsub__", [
        Case("other:int", {"self": Z2, "other": Int}, ensures=lambda o, r, n: eqv(v2(r), (o.other - o.self.a, -o.self.b))),
        Case("other:same", {"self": Z2, "other": Z2}, ensures=lambda o, r, n: eqv(v2(r), add2(v2(o.other), neg(v2(o.self)))))]))
    contracts.append(FnContract(w, "ZSqrtTwo.__neg__", [Case("", {"self": Z2}, ensures=lambda o, r, n: eqv(v2(r), neg(v2(o.self))))]))
    contracts.append(FnContract(w, "ZSqrtTwo.__abs__", [Case("", {"self": Z2}, ensures=lambda o, r, n: r == norm2(v2(o.self)))]))
    contracts.append(FnContract(w, "ZSqrtTwo.conj", [Case("", {"self": Z2}, ensures=lambda o, r, n: eqv(v2(r), v2(o.self)))]))
    contracts.append(FnContract(w, "ZSqrtTwo.adj2", [Case("", {"self": Z2}, ensures=lambda o, r, n: eqv(v2(r), (o.self.a, -o.self.b)))]))
    contracts.append(FnContract(w, "ZSqrtTwo.__eq__", [
        Case("other:same", {"self": Z2, "other": Z2}, ensures=lambda o, r, n: r == eqv(v2(o.self), v2(o.other))),
        Case("other:int", {"self": Z2, "other": Int}, ensures=lambda o, r, n: r == eqv(v2(o.self), (o.other, 0)))]))
    contracts.append(FnContract(w, "ZSqrtTwo.to_omega", [
        Case("", {"self": Z2}, ensures=lambda o, r, n: eqv(vo(r), (o.self.a, o.self.b, 0, -o.self.b)))]))
    contracts.append(FnContract(w, "ZSqrtTwo.__floordiv__", [
        Case("other:int", {"self": Z2, "other": Int},
             ensures=lambda o, r, n: eqv(v2(r), (S.fdiv(o.self.a, o.other), S.fdiv(o.self.b, o.other))),
             raises={"ZeroDivisionError": lambda o: o.other == 0}, must_return=lambda o: o.other != 0),
        Case("other:same", {"self": Z2, "other": Z2}, raises={"TypeError": lambda o: True})]))
    # exact division: when it returns, result * other == self
    contracts.append(FnContract(w, "ZSqrtTwo.__truediv__", [
        Case("other:int", {"self": Z2, "other": Int},
             ensures=lambda o, r, n: eqv((r.a * o.other, r.b * o.other), v2(o.self)),
             raises={"TypeError": lambda o: Or(S.mod(o.self.a, o.other) != 0, S.mod(o.self.b, o.other) != 0),
                     "ZeroDivisionError": lambda o: o.other == 0},
             must_return=lambda o: And(o.other != 0, S.mod(o.self.a, o.other) == 0, S.mod(o.self.b, o.other) == 0)),
        Case("other:same", {"self": Z2, "other": Z2},
             ensures=lambda o, r, n: eqv(mul2(v2(r), v2(o.other)), v2(o.self)),
             raises={"TypeError": lambda o: True, "ZeroDivisionError": lambda o: norm2(v2(o.other)) == 0})]))
    # ------------------------------------------------------------------ ZOmega
    contracts.append(FnContract(w, "ZOmega.__mul__", cases_binop(ZO, vo, mulo, lambda x, k: tuple(c * k for c in x))))
    contracts.append(FnContract(w, "ZOmega.__add__", cases_binop(ZO, vo, addo, lambda x, k: (x[0] + k, x[1], x[2], x[3]))))
    contracts.append(FnContract(w, "ZOmega.__sub__", cases_binop(ZO, vo, lambda x, y: addo(x, neg(y)),
                                                                 lambda x, k: (x[0] - k, x[1], x[2], x[3]), with_bad=False)))
    contracts.append(FnContract(w, "ZOmega.__rsub__", [
        Case("other:int", {"self": ZO, "other": Int},
             ensures=lambda o, r, n: eqv(vo(r), (o.other - o.self.d, -o.self.c, -o.self.b, -o.self.a)))]))
    contracts.append(FnContract(w, "ZOmega.__neg__", [Case("", {"self": ZO}, ensures=lambda o, r, n: eqv(vo(r), neg(vo(o.self))))]))
    contracts.append(FnContract(w, "ZOmega.conj", [Case("", {"self": ZO}, ensures=lambda o, r, n: eqv(vo(r), conjo(vo(o.self))))]))
    contracts.append(FnContract(w, "ZOmega.adj2", [Case("", {"self": ZO}, ensures=lambda o, r, n: eqv(vo(r), adj2o(vo(o.self))))]))
    contracts.append(FnContract(w, "ZOmega.norm", [
        Case("", {"self": ZO}, ensures=lambda o, r, n: eqv(vo(r), mulo(vo(o.self), conjo(vo(o.self)))))]))
    contracts.append(FnContract(w, "ZOmega.__eq__", [
        Case("other:same", {"self": ZO, "other": ZO}, ensures=lambda o, r, n: r == eqv(vo(o.self), vo(o.other))),
        Case("other:int", {"self": ZO, "other": Int}, ensures=lambda o, r, n: r == eqv(vo(o.self), (o.other, 0, 0, 0)))]))
    contracts.append(FnContract(w, "ZOmega.parity", [
        Case("", {"self": ZO}, ensures=lambda o, r, n: r == S.mod(o.self.a + o.self.c, 2))]))
    contracts.append(FnContract(w, "ZOmega.to_sqrt_two", [
        Case("", {"self": ZO},
             ensures=lambda o, r, n: And(o.self.c + o.self.a == 0, o.self.b == 0,
                                         eqv((r.a, r.b, 0, -r.b), vo(o.self))),  # to_omega(result) == self
             raises={"ValueError": lambda o: Or(o.self.c + o.self.a != 0, o.self.b != 0)},
             must_return=lambda o: And(o.self.c + o.self.a == 0, o.self.b == 0))]))
    contracts.append(FnContract(w, "ZOmega.__floordiv__", [
        Case("other:int", {"self": ZO, "other": Int},
             ensures=lambda o, r, n: eqv(vo(r), tuple(S.fdiv(c, o.other) for c in vo(o.self))),
             raises={"ZeroDivisionError": lambda o: o.other == 0}, must_return=lambda o: o.other != 0)]))
    # ---- powers (loop invariant: result == self^(p0 - power + 1))
    pow_raises = {"ValueError": lambda o: o.power < 0}
    contracts.append(FnContract(w, "ZSqrtTwo.__pow__", [
        Case("power:int", {"self": Z2, "power": Int},
             ensures=lambda o, r, n: eqv(v2(r), pow2_spec(v2(o.self), o.power)),
             raises=pow_raises, must_return=lambda o: o.power >= 0,
             axioms=lambda o, r, n: pow2_axioms(v2(o.self), [0]),
             loops={0: LoopSpec(lambda v: And(eqv(v2(v.result), pow2_spec(v2(v.self), v.old.power - v.power + 1)),
                                              v.power >= 1, v.power <= v.old.power, eqv(v2(v.self), v2(v.old.self))),
                                decreases=lambda v: v.power,
                                axioms=lambda v: pow2_axioms(v2(v.self), [0, v.old.power - v.power, v.old.power - v.power + 1]))})]))
    contracts.append(FnContract(w, "ZOmega.__pow__", [
        Case("power:int", {"self": ZO, "power": Int},
             ensures=lambda o, r, n: eqv(vo(r), powo_spec(vo(o.self), o.power)),
             raises=pow_raises, must_return=lambda o: o.power >= 0,
             axioms=lambda o, r, n: powo_axioms(vo(o.self), [0]),
             loops={0: LoopSpec(lambda v: And(eqv(vo(v.result), powo_spec(vo(v.self), v.old.power - v.power + 1)),
                                              v.power >= 1, v.power <= v.old.power, eqv(vo(v.self), vo(v.old.self))),
                                decreases=lambda v: v.power,
                                axioms=lambda v: powo_axioms(vo(v.self), [0, v.old.power - v.power, v.old.power - v.power + 1]))})]))
    # exact division in Z[w]: when it returns, result * other == self  (exact_integer: no float arithmetic may be relied on)
    contracts.append(FnContract(w, "ZOmega.__truediv__", [
        Case("other:int", {"self": ZO, "other": Int}, exact_integer=True,
             ensures=lambda o, r, n: eqv(tuple(c * o.other for c in vo(r)), vo(o.self)),
             raises={"TypeError": lambda o: Or(*[S.mod(c, o.other) != 0 for c in vo(o.self)]),
                     "ZeroDivisionError": lambda o: o.other == 0},
             must_return=lambda o: And(o.other != 0, *[S.mod(c, o.other) == 0 for c in vo(o.self)]))]))
    contracts.append(FnContract(w, "ZOmega.__abs__", [Case("", {"self": ZO}, ensures=lambda o, r, n: r == abso(vo(o.self)))]))
    contracts.append(FnContract(w, "ZOmega.from_sqrt_pair", [
        Case("", {"cls": T("classref", "ZOmega"), "alpha": Z2, "beta": Z2, "shift": ZO},
             ensures=lambda o, r, n: eqv(vo(r), addo(addo((o.alpha.a, o.alpha.b, 0, -o.alpha.b),
                                                          mulo((0, 0, 1, 0), (o.beta.a, o.beta.b, 0, -o.beta.b))), vo(o.shift))))]))
    contracts.append(FnContract(w, "ZSqrtTwo.sqrt", [
        Case("", {"self": Z2}, ensures=lambda o, r, n: True if r is None else eqv(mul2(v2(r), v2(r)), v2(o.self)),
             raises={"ValueError": lambda o: o.self.a < 0})]))   # isqrt of a negative number: only for negative elements
    # normalisation: value preserved  res * sqrt2^ix == self (as LIT(res, ix) == self), ix >= 0, result not divisible by sqrt2
    contracts.append(FnContract(w, "ZOmega.normalize", [
        Case("", {"self": ZO},
             ensures=lambda o, r, n: And(eqv(lit_spec(vo(r[0]), r[1]), vo(o.self)), r[1] >= 0,
                                         Or(S.mod(r[0].a + r[0].c, 2) != 0, S.mod(r[0].b + r[0].d, 2) != 0)),
             axioms=lambda o, r, n: lit_axioms(vo(r[0]), []),
             loops={0: LoopSpec(lambda v: And(eqv(lit_spec(vo(v.res), v.ix), vo(v.old.self)), v.ix >= 0),
                                axioms=lambda v: lit_axioms(vo(v.res), [v.ix - 1, v.ix]))})]))
    for fc in contracts:
        plan.fn_under_contract(fc.world.file, fc.qualname)
        for ob in obligations_for("C16", fc, tier):
            plan.add(ob)

    # ------------------------------------------------------------------ norm_solver._solve_diophantine: soundness of the result
    from vf.pyvc.engine import fresh, SeqV, SeqT
    ring_classes = {"ZSqrtTwo": (RINGS, {"a": Int, "b": Int}), "ZOmega": (RINGS, {"a": Int, "b": Int, "c": Int, "d": Int})}

    def havoc_opt(make):
        """assumed contract of a callee we do not verify here: returns None or an arbitrary value of its result type"""
        def mc(it, args, kwargs):
            if it.ctx.branch(z3.Bool(it.ctx.fresh_name("returns_none"))):
                return None
            return make(it.ctx)
        return mc
    def to_om(x):
        return (x[0], x[1], 0, -x[1])

    def mc_truediv(it, args, kwargs):
        """ZSqrtTwo.__truediv__ by its (verified above) contract: raises, or returns q with q * other == self"""
        self_, other = args
        ctx = it.ctx
        if not isinstance(other, Rec):
            raise Unsupp("modular __truediv__ only for ZSqrtTwo divisors")
        k = z3.Int(ctx.fresh_name("truediv_outcome"))
        if ctx.branch(k == 0):
            raise RaiseExc("TypeError")
        if ctx.branch(k == 1):
            ctx.assume(norm2(v2(other)) == 0)
            raise RaiseExc("ZeroDivisionError")
        q = fresh(ctx, Z2, "quot")
        ctx.assume(eqv(mul2(v2(q), v2(other)), v2(self_)))
        return q

    def mc_sqrt(it, args, kwargs):
        """ZSqrtTwo.sqrt by its (verified above) contract: ValueError for negative elements, None, or r with r*r == self"""
        (self_,) = args
        ctx = it.ctx
        k = z3.Int(ctx.fresh_name("sqrt_outcome"))
        if ctx.branch(k == 0):
            ctx.assume(self_.a < 0)
            raise RaiseExc("ValueError")
        if ctx.branch(k == 1):
            return None
        r = fresh(ctx, Z2, "root")
        ctx.assume(eqv(mul2(v2(r), v2(r)), v2(self_)))
        ctx.ghost["sqrt_result"] = r
        return r

    def L1(sv, rv):
        """conj(s*R) * (s*R) == (conj(s)*s) * to_omega(r*r)   for real R = to_omega(r)   (lemma, proved below)"""
        R = to_om(rv)
        return eqv(mulo(conjo(mulo(sv, R)), mulo(sv, R)), mulo(mulo(conjo(sv), sv), to_om(mul2(rv, rv))))

    def sd_axioms(o, r, n, loc):
        if r is None or not hasattr(loc.ghost, "sqrt_result"):
            return []
        # name the intermediate ring elements by fresh atoms (definitions), then state the proved lemma instances over the
        # atoms, so that the solver chains a few low-degree equalities instead of expanding one degree-8 polynomial
        sc, rt, t2, sv = vo(loc.scale), v2(loc.ghost.sqrt_result), v2(loc.t2), v2(loc.s_val)
        p = z3.Ints("nm_p0 nm_p1 nm_p2 nm_p3")
        lhs = z3.Ints("nm_l0 nm_l1 nm_l2 nm_l3")
        facts = [eqv(p, mulo(conjo(sc), sc)),                              # definition of p
                 eqv(lhs, mulo(conjo(vo(r)), vo(r))),                       # definition of lhs (the goal's left side)
                 z3.Implies(L1(sc, rt), eqv(lhs, mulo(p, to_om(mul2(rt, rt))))) if False else True]
        # instance of L1 (proved as a lemma) rewritten with the names: result == scale * to_omega(root)
        facts.append(z3.Implies(eqv(vo(r), mulo(sc, to_om(rt))), eqv(lhs, mulo(p, to_om(t2)))))
        # instance of `embedding/to_omega-multiplicative`:  to_omega(sv) * to_omega(t2) == to_omega(t2 * sv)
        facts.append(eqv(mulo(to_om(sv), to_om(t2)), to_om(mul2(t2, sv))))
        return facts
    specs_ = ring_specs()
    div2_, divo_ = specs_["ZSqrtTwo"][5], specs_["ZOmega"][5]
    Z2s = None

    def mc_prime_factorize(it, args, kwargs):
        """_prime_factorize by its contract (verified below): None, or a list of integers >= 2 (each passed the primality test)"""
        ctx = it.ctx
        if ctx.branch(z3.Bool(ctx.fresh_name("returns_none"))):
            return None
        fs = fresh(ctx, SeqT(Int), "factors")
        i_ = z3.Int("pf_i")
        ctx.assume(z3.ForAll([i_], z3.Implies(z3.And(i_ >= 0, i_ < z3.Length(fs.term)), fs.term[i_] >= 2), patterns=[fs.term[i_]]))
        return fs

    def mc_fp_zsqrt_two(it, args, kwargs):
        """_factorize_prime_zsqrt_two by its contract (verified above): requires p >= 2; None or a list whose elements divide p"""
        from vf.pyvc.engine import to_int_term
        ctx = it.ctx
        pt = to_int_term(args[0])
        ctx.prove(pt >= 2, "pre-call:_factorize_prime_zsqrt_two(p >= 2)")
        k_ = z3.Int(ctx.fresh_name("fp2_outcome"))
        if ctx.branch(k_ == 0):
            return None
        if ctx.branch(k_ == 1):
            raise RaiseExc("ZeroDivisionError")
        ps = fresh(ctx, SeqT(Z2), "primes")
        dt = wn.sort_of(Z2)
        i_ = z3.Int("fp_i")
        el = ps.term[i_]
        ctx.assume(z3.And(z3.Length(ps.term) >= 1, z3.Length(ps.term) <= 2))
        ctx.assume(z3.ForAll([i_], z3.Implies(z3.And(i_ >= 0, i_ < z3.Length(ps.term)),
                                              div2_((dt.accessor(0, 0)(el), dt.accessor(0, 1)(el)), (pt, z3.IntVal(0)))), patterns=[el]))
        return ps

    def mc_fp_zomega(it, args, kwargs):
        """_factorize_prime_zomega by its contract (verified above): requires p >= 2; None or an element dividing x in Z[omega]"""
        from vf.pyvc.engine import to_int_term
        ctx = it.ctx
        x_, pt = args[0], to_int_term(args[1])
        ctx.prove(pt >= 2, "pre-call:_factorize_prime_zomega(p >= 2)")
        k_ = z3.Int(ctx.fresh_name("fpo_outcome"))
        if ctx.branch(k_ == 0):
            return None
        if ctx.branch(k_ == 1):
            raise RaiseExc("ZeroDivisionError")
        t_ = fresh(ctx, ZO, "t")
        ctx.assume(z3.Or(pt == 2, divo_(vo(t_), (x_.a, x_.b, 0, -x_.b))))
        return t_
    wn = World(NORM, classes=ring_classes, functions=["_solve_diophantine"],
               modular={"ZSqrtTwo.__truediv__": mc_truediv, "ZSqrtTwo.sqrt": mc_sqrt}, extra_builtins={
        "_prime_factorize": mc_prime_factorize, "_factorize_prime_zsqrt_two": mc_fp_zsqrt_two, "_factorize_prime_zomega": mc_fp_zomega})
    anyexc = {k: (lambda o: True) for k in ("ZeroDivisionError", "TypeError", "AttributeError", "ValueError")}
    fc = FnContract(wn, "_solve_diophantine", [
        Case("xi:ZSqrtTwo", {"xi": Z2, "max_trials": Int},
             # every RETURNED solution satisfies  conj(t) * t == xi ; exceptions are not solutions
             ensures=lambda o, r, n: True if r is None else eqv(mulo(conjo(vo(r)), vo(r)), (o.xi.a, o.xi.b, 0, -o.xi.b)),
             raises=anyexc, axioms=sd_axioms,
             loops={0: LoopSpec(lambda v: True, axioms=lambda v: [  # instance (current index) of the _prime_factorize contract on the path
                 z3.Implies(z3.And(v._i0 >= 0, v._i0 < z3.Length(v.factors.term)), v.factors.term[v._i0] >= 2)]),
                 1: LoopSpec(lambda v: True)})])
    plan.fn_under_contract(NORM, "_solve_diophantine")
    for ob in obligations_for("C16", fc, tier):
        plan.add(ob)
    # (the callees of _solve_diophantine are used through their contracts verified in this module, incl. their preconditions p >= 2)

    # ------------------------------------------------------------------ ring laws: lemmas over the spec functions
    a, b, c, d, e, f, g, h, i, j, k, l = z3.Ints("a b c d e f g h i j k l")
    X2, Y2, W2 = (a, b), (c, d), (e, f)
    XO, YO, WO = (a, b, c, d), (e, f, g, h), (i, j, k, l)

    def EQ(x, y):
        return z3.And(*[p == q for p, q in zip(x, y)])
    lem = [
        ("ZSqrtTwo/mul-assoc", [a, b, c, d, e, f], EQ(mul2(mul2(X2, Y2), W2), mul2(X2, mul2(Y2, W2)))),
        ("ZSqrtTwo/mul-comm", [a, b, c, d], EQ(mul2(X2, Y2), mul2(Y2, X2))),
        ("ZSqrtTwo/distrib", [a, b, c, d, e, f], EQ(mul2(X2, add2(Y2, W2)), add2(mul2(X2, Y2), mul2(X2, W2)))),
        ("ZSqrtTwo/add-assoc-comm", [a, b, c, d, e, f], z3.And(EQ(add2(add2(X2, Y2), W2), add2(X2, add2(Y2, W2))), EQ(add2(X2, Y2), add2(Y2, X2)))),
        ("ZSqrtTwo/identities", [a, b], z3.And(EQ(mul2(X2, (1, 0)), X2), EQ(add2(X2, (0, 0)), X2), EQ(add2(X2, neg(X2)), (0, 0)))),
        ("ZSqrtTwo/norm-multiplicative", [a, b, c, d], norm2(mul2(X2, Y2)) == norm2(X2) * norm2(Y2)),
        ("ZSqrtTwo/adj2-homomorphism", [a, b, c, d], EQ(mul2((a, -b), (c, -d)), (lambda p: (p[0], -p[1]))(mul2(X2, Y2)))),
        ("ZSqrtTwo/norm-is-x-times-adj2", [a, b], EQ(mul2(X2, (a, -b)), (norm2(X2), 0))),
        ("ZOmega/mul-assoc", list(XO + YO + WO), EQ(mulo(mulo(XO, YO), WO), mulo(XO, mulo(YO, WO)))),
        ("ZOmega/mul-comm", list(XO + YO), EQ(mulo(XO, YO), mulo(YO, XO))),
        ("ZOmega/distrib", list(XO + YO + WO), EQ(mulo(XO, addo(YO, WO)), addo(mulo(XO, YO), mulo(XO, WO)))),
        ("ZOmega/identities", list(XO), z3.And(EQ(mulo(XO, (1, 0, 0, 0)), XO), EQ(addo(XO, (0, 0, 0, 0)), XO), EQ(addo(XO, neg(XO)), (0, 0, 0, 0)))),
        ("ZOmega/conj-involutive-homomorphism", list(XO + YO), z3.And(EQ(conjo(conjo(XO)), XO), EQ(conjo(mulo(XO, YO)), mulo(conjo(XO), conjo(YO))),
                                                                    EQ(conjo(addo(XO, YO)), addo(conjo(XO), conjo(YO))))),
        ("ZOmega/adj2-involutive-homomorphism", list(XO + YO), z3.And(EQ(adj2o(adj2o(XO)), XO), EQ(adj2o(mulo(XO, YO)), mulo(adj2o(XO), adj2o(YO))))),
        ("ZOmega/norm-in-ZSqrtTwo", list(XO), (lambda nn: z3.And(nn[2] == 0, nn[1] + nn[3] == 0))(mulo(XO, conjo(XO)))),
        ("embedding/to_omega-multiplicative", [a, b, c, d],
         EQ(mulo((a, b, 0, -b), (c, d, 0, -d)), (lambda p: (p[0], p[1], 0, -p[1]))(mul2(X2, Y2)))),
    ]
    lem.append(("solver/L1:conj(sR)(sR)==(conj(s)s)*to_omega(r^2)", [a, b, c, d, e, f], L1((a, b, c, d), (e, f))))
    for nm, vs, goal in lem:
        plan.add(lemma("C16", nm, vs, goal))
    # LIT(x, n) == x * (sqrt2)^n : induction on n.  base: n = 0.  step: IH for all x at n (instantiated at x*sqrt2) => n+1
    nn = z3.Int("n")
    base = z3.And(*[p == q for p, q in zip(lit_spec(XO, z3.IntVal(0)), mulo(XO, powo_spec(SQRT2_O, z3.IntVal(0))))])
    plan.add(lemma("C16", "ZOmega/LIT==mul-by-sqrt2-power/base", list(XO), base,
                   assumptions=lit_axioms(XO, []) + powo_axioms(SQRT2_O, [])))
    Lx = mul_sqrt2(XO)
    ih = z3.And(*[p == q for p, q in zip(lit_spec(Lx, nn), mulo(Lx, powo_spec(SQRT2_O, nn)))])
    step = z3.And(*[p == q for p, q in zip(lit_spec(XO, nn + 1), mulo(XO, powo_spec(SQRT2_O, nn + 1)))])
    plan.add(lemma("C16", "ZOmega/LIT==mul-by-sqrt2-power/step", list(XO) + [nn], step,
                   assumptions=[nn >= 0, ih] + lit_axioms(XO, [nn]) + powo_axioms(SQRT2_O, [nn])))
    # |x|^2-type norm of ZOmega (the integer __abs__) is multiplicative: degree-8 identity
    dyadic_contracts(plan, tier)
    mod_gcd_contracts(plan, tier)
    sqrt_mod_contracts(plan, tier)
    factorize_contracts(plan, tier)
    prime_factorize_contracts(plan, tier)
    so3_contracts(plan, tier)
    primality_standin(plan, tier, seed)
    plan.explanation += (" | DyadicMatrix / SO3Matrix: the denoted value (1/sqrt2)^k * M is tracked by the spec functions LIT / LITs (x * sqrt2^n by "
                         "iteration of the linear map); normalize loops are cut by the value-preservation invariant; constructors are used "
                         "through that verified contract.  norm_solver: ring __mod__ with the code's own quotient as witness, the Euclid loop "
                         "of _gcd with `common divisors preserved` over an uninterpreted divisibility predicate (closure lemmas from the "
                         "definition), Tonelli-Shanks with the invariant r*r - a*t == p*K over the spec function modpow (no primality "
                         "assumption), the stack loop of _prime_factorize with prod(factors)*prod(stack) == n; _solve_diophantine now uses "
                         "its callees through these verified contracts.  _primality_test vs sympy.isprime is a BOUNDED stand-in.")
    plan.trusted_base += ["induction (meta-level) for the lemma pairs LIT-even, modpow-double; closure lemmas of divisibility from x == m*d",
                          "defining equations of LIT / LITs / POW2 / modpow / prod / all-passed / all-positive (used by instances only)"]
    plan.assumptions += ["_sqrt_modulo_p, _factorize_prime_*: p >= 2 (call sites pass prime factors; primality itself is NOT assumed)",
                         "SO3Matrix.from_matrix: matrices of special-unitary shape [[u, v], [-v*, u*]] (the third row of the code's formula only uses u, v)",
                         "DyadicMatrix.mult2k: non-zero matrices (the zero matrix is renormalised to k = 0)"]
    plan.size_bounds = []
    plan.notes = {"observations": [
        "DyadicMatrix.__add__: int(math.pow(2, gap // 2)) raises OverflowError for exponent gaps >= 2048 (script /tmp/c16_overflow.py); powers "
        "of two up to 2^1023 are exact in binary64, so below that bound the float detour is exact -- contract: OverflowError exactly then",
        "ZSqrtTwo.__mod__: round(n / d) goes through binary64; the contract is proved for EVERY integer that expression may yield, so "
        "inexact rounding beyond 2^53 can only select a different (possibly larger) remainder, never an incorrect one",
        "SO3Matrix.from_matrix: `any(s.parity for s in su2_elems)` tests the bound METHOD objects (always truthy), so the else branch is "
        "dead code; the branch taken is valid for every input, the missing call only costs a larger exponent before normalisation",
        "F29 (fixed in /repo ac4f03271c): the former body of DyadicMatrix.mult2k did not multiply by 2^k when self.k > 0 or k < 0"]}
    plan.unverified = ["termination of every loop (in particular _gcd, whose remainder norm is not shown to decrease, and ZOmega.normalize on 0)",
                       "np.isclose branches of __eq__ (float comparands are outside the ring property)",
                       "_integer_factorize (randomised Pollard rho: assumed to return None or a proper divisor), sorted() as a permutation",
                       "_primality_test beyond the bounded stand-in (the deterministic Miller-Rabin base set is correct below 2^64 by a published "
                       "computation, not derivable here)",
                       "SO3Matrix.__init__/from_matrix for matrices that are not of special-unitary shape; the homomorphism "
                       "SO3(A @ B) == SO3(A) @ SO3(B); DyadicMatrix.__add__ with complex scalars; DyadicMatrix.__eq__/__neg__",
                       "completeness of the solver (a returned None is always allowed)"]
    return plan
