"""C10 Every registered decomposition rule implements its operator exactly.

For every registry entry we can instantiate (named gates, their Adjoint/Pow/C variants, variable-arity gates by size) and
every applicable rule: the REAL rule is run on exact symbolic parameters through the repository's calling convention, the
emitted operators' real matrices are multiplied in circuit order (exact ring) and compared with the operator's real matrix,
global phase included.  Work wires: M.(I (x) |0>) == (M_target (x) |0>) for zeroed+restored wires.
"""
import numpy as np
import pennylane as qp
from pennylane.decomposition.utils import _get_decomp_args

from vf.common import Plan, Obligation, Outcome, DISCHARGED, REFUTED, UNDECIDED, FAULT
from vf.symx import rules as R
from vf.symx.ring import Unsupported, Poly
from vf.symx.scalar import poly_matrix, pm_diff_entries, pm_eval, sym
from vf.symx.oblig import sample_point, TOL
import inspect
import os
import random
import zlib
from vf.common import REPO


def rule_func(rule):
    """(file, qualname) of the rule's python function"""
    f = getattr(rule, "_impl", None)
    try:
        f = inspect.unwrap(f)
        return os.path.relpath(inspect.getsourcefile(f), REPO), f.__qualname__
    except Exception:  # pylint: disable=broad-except
        return None


def target_and_circuit(cfg, rule, op_builder, symbolic=True):
    """returns (M_circuit restricted to work=|0> columns, M_target (x) |0>) as arrays (Poly if symbolic else complex)"""
    op = op_builder()
    ops = R.run_rule(rule, op)
    work, info = R.work_wire_plan(ops)
    twires = list(op.wires)
    wire_order = twires + [lab for lab, _, _ in info]
    nt, nw = len(twires), len(info)
    if symbolic:
        M = R.circuit_matrix(ops, wire_order, work)
        T = symbolic_target(op, twires)
    else:
        mapped = []
        for o in ops:
            if type(o).__name__ in ("Allocate", "Deallocate"):
                continue
            mp = {w: work[w] for w in o.wires if w in work}
            mapped.append(qp.map_wires(o, mp) if mp else o)
        M = np.eye(2 ** len(wire_order), dtype=complex)
        for o in mapped:
            M = np.asarray(qp.matrix(o, wire_order=wire_order), dtype=complex) @ M
        T = np.asarray(qp.matrix(op, wire_order=twires) if twires else qp.matrix(op), dtype=complex)
    valid = getattr(cfg, "valid_inputs", None)
    if nw == 0:
        if valid is not None:
            # operator specified only on part of its input space (e.g. TemporaryAND: target in |0>): compare on that domain
            return M[:, valid], T[:, valid], info
        return M, T, info
    for lab, state, restored in info:
        if state not in ("zero", "ZERO", "AllocateState.ZERO") and "zero" not in state.lower():
            raise Unsupported(f"work wire in state {state}: block condition not built")
        if not restored:
            raise Unsupported("work wire allocated without restored=True: end state unspecified")
    # columns with all work wires = 0:  index = t * 2^nw + 0
    cols = [t << nw for t in range(2 ** nt)]
    Mz = M[:, cols]
    if symbolic:
        Tz = np.empty((2 ** (nt + nw), 2 ** nt), dtype=object)
        for i in range(2 ** (nt + nw)):
            for j in range(2 ** nt):
                Tz[i, j] = T[i >> nw, j] if (i & (2 ** nw - 1)) == 0 else Poly()
    else:
        Tz = np.zeros((2 ** (nt + nw), 2 ** nt), dtype=complex)
        for j in range(2 ** nt):
            for t in range(2 ** nt):
                Tz[t << nw, j] = T[t, j]
    return Mz, Tz, info


def symbolic_target(op, twires):
    """the operator's own real matrix on symbolic parameters; negative integer powers of a unitary base are taken as the
    conjugate transpose of the positive power (numpy's inv cannot run on exact scalars; unitarity of the bases is C02's lemma)"""
    if type(op).__name__.startswith("Pow"):
        return R.op_small_matrix(op)
    return poly_matrix(qp.matrix(op, wire_order=twires) if twires else qp.matrix(op))


# (operator-name substring, rule-name substring or None) -> reason the pair is outside the symbolic fragment; these get a
# labelled bounded stand-in (seeded float comparison of the real rule against the real matrix), never counted as proved
OUT_OF_REACH = [
    ("DiagonalQubitUnitary", None, "rule/validation is data-dependent (np.allclose -> isfinite on object arrays, arctan2/angle of entries)"),
    ("Adjoint(U2)", "_adjoint_u2", "rule reduces angles with % (2*pi): piecewise in the parameter"),
    ("Adjoint(U3)", "_adjoint_u3", "rule reduces angles with % (2*pi): piecewise in the parameter"),
    ("", "to_controlled_unitary", "rule hands the base's matrix to ControlledQubitUnitary, whose constructor validates dtype complex128"),
]


def out_of_reach(cfg, rule):
    if getattr(cfg, "numeric", False):
        return "operator instantiated with concrete numeric data (rules branch on the data / synthesise angles numerically)"
    for o, r, why in OUT_OF_REACH:
        if o in cfg.opname and (r is None or r == rule.name):
            return why
    return None


def make_obligation(cfg, rule, seed):
    name = f"C10/{cfg.opname}{cfg.label}/{rule.name}/post:circuit==matrix"
    names = cfg.names
    oor = out_of_reach(cfg, rule)

    def replay(witness):
        env = {k: float(v) for k, v in (witness or {}).get("point", {}).items()}
        try:
            M, T, _ = target_and_circuit(cfg, rule, lambda: cfg.float_op(env), symbolic=False)
        except Exception as ex:  # pylint: disable=broad-except
            return dict(confirmed=None, note=f"native run raised {type(ex).__name__}: {ex}", point=env)
        err = float(np.max(np.abs(M - T)))
        idx = np.unravel_index(int(np.argmax(np.abs(M - T))), M.shape)
        return dict(confirmed=bool(err > TOL), max_abs_err=err, at_entry=[int(i) for i in idx], observed=str(M[idx]),
                    expected=str(T[idx]), point=env, operator=repr(cfg.float_op(env)), rule=rule.name)

    def fn():
        rng = random.Random(zlib.crc32(f"{seed}:{name}".encode()))
        if oor:
            for _ in range(48):
                env = sample_point(names, rng)
                rp = replay(dict(point=env))
                if rp.get("confirmed"):
                    return Outcome(REFUTED, "float-standin", "bounded stand-in found a mismatch", witness=dict(point=env), replay=rp)
                if rp.get("confirmed") is None:
                    return Outcome(FAULT, "float-standin", f"native run failed: {rp.get('note')}")
            return Outcome(DISCHARGED, "float-standin(bounded: 48 seeded points, tol 1e-9)", f"outside the symbolic fragment: {oor}")
        try:
            M, T, info = target_and_circuit(cfg, rule, cfg.sym_op, symbolic=True)
        except R.HasMCM as ex:
            # measurement-based rule: every outcome branch must be the operator, global phase included (shared with C13)
            from contracts.C13 import make_ob as mcm_ob
            return mcm_ob(cfg, rule, seed, pid="C10", strict_phase=True).fn()
        except Exception as ex:  # pylint: disable=broad-except
            # anything the symbolic run cannot carry (Unsupported, numpy refusing object dtype, ...): bounded stand-in: seeded float comparison of the real rule with the real matrix
            for _ in range(16):
                env = sample_point(names, rng)
                rp = replay(dict(point=env))
                if rp.get("confirmed"):
                    return Outcome(REFUTED, "float-standin", f"trace left the fragment ({ex}); stand-in found a mismatch",
                                   witness=dict(point=env), replay=rp)
                if rp.get("confirmed") is None:
                    return Outcome(UNDECIDED, "trace", f"trace left the fragment: {ex}; native stand-in unavailable: {rp.get('note')}",
                                   extra=dict(standin="unavailable"))
            return Outcome(UNDECIDED, "trace", f"trace left the decidable fragment: {ex}", extra=dict(standin="passed", standin_points=16))
        diff = pm_diff_entries(M, T)
        if not diff:
            # self-check: symbolic product agrees with native execution at one point
            env = sample_point(names, rng)
            try:
                Mn, Tn, _ = target_and_circuit(cfg, rule, lambda: cfg.float_op(env), symbolic=False)
                if float(np.max(np.abs(pm_eval(M, env) - Mn))) > 1e-8:
                    return Outcome(FAULT, "selfcheck", f"symbolic circuit product disagrees with native execution at {env}")
            except Exception as ex:  # pylint: disable=broad-except
                return Outcome(FAULT, "selfcheck", f"native execution failed: {ex!r}")
            return Outcome(DISCHARGED, "laurent-normal-form", f"{M.size} entries identical; work wires {info}")
        detail = "; ".join(f"entry {idx}: circuit-target = {str(d)[:120]}" for idx, d in diff[:3])
        for _ in range(40):
            env = sample_point(names, rng)
            if any(abs(d.evaluate(env)) > 1e-7 for _, d in diff):
                return Outcome(REFUTED, "laurent-normal-form", detail, witness=dict(point=env, entries=[list(i) for i, _ in diff[:8]]),
                               replay=replay(dict(point=env)))
        return Outcome(REFUTED, "laurent-normal-form", detail, witness=dict(point=None),
                       replay=dict(confirmed=None, note="symbolic difference non-zero, no float-visible point found"))

    return Obligation(name, "post", fn, func=rule_func(rule), size_bounded=cfg.size_bounded, replay=replay, timeout=600,
                      bounded=bool(oor),
                      sample=f"product of emitted gates of rule {rule.name} == matrix of {cfg.opname}{cfg.label}")


def enumerate_rule_obligations(tier, seed, make):
    """shared by C10/C11: (obligations, coverage notes)"""
    configs, skipped = R.all_configs(tier)
    obs, inapplicable, per_rule = [], 0, {}
    for cfg in configs:
        try:
            twin = cfg.twin_op()
            params, _, _ = _get_decomp_args(twin)
            rules = qp.list_decomps(twin)
        except Exception as ex:  # pylint: disable=broad-except
            skipped[f"{cfg.opname}{cfg.label}"] = f"instance setup failed: {type(ex).__name__}: {str(ex)[:100]}"
            continue
        for rule in rules:
            try:
                ok = rule.is_applicable(**params)
            except Exception as ex:  # pylint: disable=broad-except
                skipped[f"{cfg.opname}{cfg.label}/{rule.name}"] = f"is_applicable raised {type(ex).__name__}"
                continue
            if not ok:
                inapplicable += 1
                continue
            ob = make(cfg, rule, seed, params)
            if ob is not None:
                obs.append(ob)
                per_rule.setdefault(f"{cfg.opname}/{rule.name}", 0)
                per_rule[f"{cfg.opname}/{rule.name}"] += 1
    return obs, skipped, inapplicable, per_rule


def build(tier, seed):
    plan = Plan("C10", level="proof")
    plan.explanation = ("Each applicable registered rule is executed on exact symbolic parameters; the ordered product of the "
                        "emitted operators' real matrices equals the operator's real matrix as Laurent polynomials "
                        "(all parameter values, global phase included). Sizes/configurations are enumerated (size-bounded).")
    plan.trusted_base = ["vf/symx exact ring + Sym scalar", "circuit semantics: ordered product of gate matrices embedded on "
                         "their wires (textbook tensor embedding, vf/symx/rules.py:apply_small)",
                         "numpy/autoray structural operations on object arrays"]
    plan.assumptions = ["TemporaryAND (Elbow) and its adjoint are compared on their documented input domain only (target wire in |0>, "
                        "resp. holding the AND of the controls)",
                        "A-float-as-real", "A-float-constants", "numpy interface path",
                        "is_applicable evaluated on a float twin (abstractification discards parameter values)"]
    def mk(cfg, rule, seed, params):
        if getattr(cfg, "numeric", False) and "SemiAdder" in cfg.opname:
            return None        # arithmetic templates (nested dynamic work wires) are only used for the resource check C11
        return make_obligation(cfg, rule, seed)
    obs, skipped, inapplicable, per_rule = enumerate_rule_obligations(tier, seed, mk)
    for ob in obs:
        plan.add(ob)
        if ob.func:
            plan.fn_under_contract(*ob.func)
    plan.unverified = [f"{o} / {r or 'all rules'}: bounded stand-in only ({why})" for o, r, why in OUT_OF_REACH] + \
        [f"{k}: {v}" for k, v in sorted(skipped.items())]
    plan.size_bounds = ["control configurations: 1-2 controls (quick) / up to 3 (thorough), mixed control values",
                        "integer powers {2,3,-1,0} (quick) / {-2..4} (thorough)", "MultiRZ <= 3/4 wires, PauliRot selected words",
                        "MultiControlledX <= 3/4 controls", "one (scrambled) wire labelling per configuration"]
    plan.notes["rules_covered"] = len(per_rule)
    plan.notes["rule_instances_inapplicable"] = inapplicable
    plan.notes["registry_names_skipped"] = len(skipped)
    return plan
