"""C11 Declared decomposition resources match the emitted gates.

Same instance space as C10.  For each applicable rule: (a) the rule is run on exact symbolic parameters and on a float
twin; the emitted skeleton (operator types, wires, hyperparameters) is identical, i.e. the rule does not branch on
parameter values, so one run decides all parameter values; (b) the multiset of abstract representations of the emitted
operators equals `compute_resources(...).gate_counts` when exact_resources, and is covered by the declared types otherwise;
(c) allocated work wires <= get_work_wire_spec(...).total.
"""
from collections import Counter

import pennylane as qp
from pennylane.core.operator import abstractify
from pennylane.decomposition.utils import _get_decomp_args

from vf.common import Plan, Obligation, Outcome, DISCHARGED, REFUTED, UNDECIDED
from vf.symx import rules as R
from contracts.C10 import enumerate_rule_obligations, rule_func, out_of_reach


def skeleton(ops):
    out = []
    for o in ops:
        w = tuple(str(x) if type(x).__name__ == "DynamicWire" else x for x in o.wires)
        dyn = tuple("dyn" if type(x).__name__ == "DynamicWire" else x for x in o.wires)
        out.append((type(o).__name__, getattr(o, "name", ""), dyn))
    return out


def emitted_counts(ops):
    cnt = Counter()
    n_alloc = 0
    for o in ops:
        nm = type(o).__name__
        if nm == "Allocate":
            n_alloc += len(o.wires)
            continue
        if nm == "Deallocate":
            continue
        if isinstance(o, qp.ops.Conditional):
            o = o.base
        cnt[abstractify(o)] += 1
    return cnt, n_alloc


def compare(cfg, rule, params):
    twin = cfg.twin_op()
    ops = R.run_rule(rule, twin)
    actual, n_alloc = emitted_counts(ops)
    declared = {k: v for k, v in rule.compute_resources(**params).gate_counts.items() if v > 0}
    problems = []
    if rule.exact_resources:
        if dict(actual) != declared:
            for k in set(actual) | set(declared):
                if actual.get(k, 0) != declared.get(k, 0):
                    problems.append(f"{k}: emitted {actual.get(k, 0)} declared {declared.get(k, 0)}")
    else:
        for k in actual:
            if k not in declared:
                problems.append(f"{k}: emitted {actual[k]} but not among the declared types")
    spec_total = rule.get_work_wire_spec(**params).total
    if n_alloc > spec_total:
        problems.append(f"allocated {n_alloc} work wires > declared total {spec_total}")
    return ops, problems, dict(emitted={str(k): v for k, v in actual.items()}, declared={str(k): v for k, v in declared.items()},
                               allocated=n_alloc, work_wire_spec_total=spec_total, exact=rule.exact_resources)


def make_obligation(cfg, rule, seed, params):
    name = f"C11/{cfg.opname}{cfg.label}/{rule.name}/post:emitted==declared"
    oor = out_of_reach(cfg, rule)

    def replay(witness):
        tw = cfg.twin_op(shift=float((witness or {}).get("shift", 0.0)))
        p2, _, _ = _get_decomp_args(tw)
        _, problems, info = compare(cfg, rule, p2)
        return dict(confirmed=bool(problems), observed=info["emitted"], expected=info["declared"], problems=problems,
                    operator=repr(tw), rule=rule.name)

    def fn():
        ops, problems, info = compare(cfg, rule, params)
        if problems:
            return Outcome(REFUTED, "multiset-compare", "; ".join(problems[:4]), witness=dict(shift=0.0, operator=repr(cfg.twin_op())),
                           replay=replay(dict(shift=0.0)))
        # parameter independence of the emitted skeleton
        tw2 = cfg.twin_op(shift=0.7321)
        p2, _, _ = _get_decomp_args(tw2)
        if {str(k): str(v) for k, v in p2.items()} != {str(k): str(v) for k, v in params.items()}:
            return Outcome(UNDECIDED, "twin", "resource parameters depend on parameter values")
        if oor:
            ops2 = R.run_rule(rule, tw2)
            same = skeleton(ops2) == skeleton(ops)
            return Outcome(DISCHARGED if same else UNDECIDED, "float-twin(bounded: two parameter points)",
                           f"data-dependent rule ({oor}); skeleton compared at two float points only")
        try:
            sops = R.run_rule(rule, cfg.sym_op())
        except Exception as ex:  # pylint: disable=broad-except
            ops2 = R.run_rule(rule, tw2)
            if skeleton(ops2) != skeleton(ops):
                return Outcome(UNDECIDED, "twin", "emitted skeleton differs between two parameter points")
            return Outcome(UNDECIDED, "trace", f"symbolic run left the fragment: {type(ex).__name__}: {str(ex)[:120]}",
                           extra=dict(standin="passed", standin_points=2))
        if skeleton(sops) != skeleton(ops):
            return Outcome(UNDECIDED, "skeleton", f"symbolic skeleton {skeleton(sops)[:4]} != twin skeleton {skeleton(ops)[:4]}")
        return Outcome(DISCHARGED, "symbolic-skeleton+multiset-compare",
                       f"{sum(info['emitted'].values())} emitted ops == declared; exact={info['exact']}; work wires {info['allocated']}<={info['work_wire_spec_total']}")

    return Obligation(name, "post", fn, func=rule_func(rule), size_bounded=cfg.size_bounded, replay=replay, timeout=300,
                      bounded=bool(oor), sample=f"emitted gate multiset of {rule.name} vs declared resources")


def build(tier, seed):
    plan = Plan("C11", level="proof")
    plan.explanation = ("The real rule is executed on exact symbolic parameters (no branch on a parameter value is possible "
                        "without leaving the fragment), so the emitted operator skeleton is the same for every parameter value; "
                        "its abstract multiset is compared with the declared resources and the work-wire bound.")
    plan.trusted_base = ["vf/symx Sym scalar (branching on a symbolic value raises)", "pennylane abstractify()/resource_rep equality "
                         "(the repository's own notion of a resource type)"]
    plan.assumptions = ["resource parameters are computed on a float twin; checked equal at two parameter points",
                        "numpy interface path"]
    obs, skipped, inapplicable, per_rule = enumerate_rule_obligations(tier, seed, make_obligation)
    for ob in obs:
        plan.add(ob)
        if ob.func:
            plan.fn_under_contract(*ob.func)
    plan.unverified = [f"{k}: {v}" for k, v in sorted(skipped.items())]
    plan.size_bounds = ["same configuration space as C10"]
    plan.notes["rules_covered"] = len(per_rule)
    plan.notes["rule_instances_inapplicable"] = inapplicable
    return plan
