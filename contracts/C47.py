"""C47 Resource estimation composes additively.

Three groups of contracts on the real functions of pennylane/estimator:

  wires_manager.py   WireResourceManager: representation invariant  zeroed >= 0 /\\ any_state >= 0  preserved by grab_zeroed /
                     free_wires (allocation sizes >= 0), exact accounting equalities, ValueError exactly when documented,
                     total_wires >= algo_wires; the history statement is an induction lemma over the two contracts.
  resources_base.py  Resources.{__init__, add_series, add_parallel, multiply_series, multiply_parallel}: gate counts are the
                     pointwise sum / multiple FOR EVERY gate type (maps with symbolic contents; proved at an arbitrary key g0),
                     wire accounting of series vs parallel composition; multiply(r, k+1) == add(multiply(r, k), r) as lemmas.
  estimate.py        _sum_allocated_wires, _update_counts_from_compressed_res_op (recursive; the decomposition is an
                     UNINTERPRETED function op -> sequence of actions of symbolic length), _resources_from_resource:
                     counts'[g] == counts[g] + scalar * cnt(op, g)  with cnt the recursively specified gate count -- additivity
                     over the action list is the loop invariant, multiplicativity in `scalar` the recursive-call contract.
"""
import z3

from vf.common import Plan
from vf.pyvc.engine import (World, T, Int, Bool, Float, Label, LabelSort, RecT, SeqT, SetT, MapT, TupleT, Rec, SeqV, SetV, MapV,
                            PyList, Opaque, fresh, Unsupp, RaiseExc)
from vf.pyvc.contract import FnContract, Case, LoopSpec, obligations_for, lemma
from vf.pyvc import spec as S
from vf.pyvc import xmaps as X
from vf.pyvc.spec import And, Or, Not, Implies, If

WIRES = "pennylane/estimator/wires_manager.py"
RBASE = "pennylane/estimator/resources_base.py"
ROPER = "pennylane/estimator/resource_operator.py"
ESTIM = "pennylane/estimator/estimate.py"

WM_FIELDS = {"zeroed": Int, "any_state": Int, "_algo_wires": Int, "tight_budget": Bool}
WM = RecT("WireResourceManager")
G0 = z3.Const("g0", LabelSort)          # an ARBITRARY gate type: a VC proved at g0 holds for every key of the map


def mx(a, b):
    if isinstance(a, z3.ExprRef) or isinstance(b, z3.ExprRef):
        return z3.If(S._t(a) >= S._t(b), S._t(a), S._t(b))
    return max(a, b)


def sym(*xs):
    return any(isinstance(x, (z3.ExprRef, MapV, Rec, SeqV, SetV, X.UnionV)) for x in xs)


# ---- value view of a gate-count mapping: count of key g, 0 when the key is missing ---------------------------------------
def cnt_of(m, g):
    if isinstance(m, X.DMapV):
        return z3.Select(m.val, g)
    if isinstance(m, MapV):
        return z3.If(z3.Select(m.dom, g), z3.Select(m.val, g), z3.IntVal(0))
    if m is None:
        return 0
    return m.get(g, 0)


def keys_of(*maps):
    out = []
    for m in maps:
        for k in (m or {}):
            if k not in out:
                out.append(k)
    return out


def forall_keys(pred, *maps):
    """for every gate type g: pred(g).  Symbolic maps: pred at the arbitrary key g0; real dicts: every key of any of the maps"""
    if any(isinstance(m, MapV) for m in maps):
        return pred(G0)
    return all(S.truth(pred(k)) for k in keys_of(*maps))


def nonneg(m):
    """every stored count is >= 0"""
    if isinstance(m, MapV):
        k = z3.Const("nnk", LabelSort)
        return z3.ForAll([k], cnt_of(m, k) >= 0)
    return all(v >= 0 for v in (m or {}).values())


class GetterContract(FnContract):
    """contract on a @property GETTER that also has a @<name>.setter: vf.common.find_def returns the LAST definition of a name
    (the setter), so the getter is located by its decorator here"""

    def node(self):
        from vf.common import find_def
        cls, name = self.qualname.split(".")[:2]
        for n in find_def(self.world.file, cls)[1].body:
            if getattr(n, "name", None) == name and any(getattr(d, "id", None) == "property" for d in getattr(n, "decorator_list", [])):
                return n
        raise KeyError(f"{self.world.file}:{self.qualname} property getter")


# =====================================================================================================================
def wire_manager_contracts(plan, tier):
    w = World(WIRES, classes={"WireResourceManager": WM_FIELDS})

    def inv(s):
        return And(s.zeroed >= 0, s.any_state >= 0)

    def total(s):
        return s.zeroed + s.any_state + s._algo_wires

    def frame(o, nw):
        return And(nw.self._algo_wires == o.self._algo_wires, nw.self.tight_budget == o.self.tight_budget)

    def wm_same(o, nw):
        return And(nw.self.zeroed == o.self.zeroed, nw.self.any_state == o.self.any_state, frame(o, nw))

    def native_ctor(mod, a):
        a["self"] = mod.WireResourceManager(a["zeroed"], a["any_state"], a["algo_wires"], a["tight_budget"])
        return None

    def grab_fails(o):
        return And(o.self.tight_budget, o.num_wires > o.self.zeroed)

    def free_fails(o):
        return o.num_wires > o.self.any_state

    def unchanged_on_exception(exc, o, nw):
        """a rejected allocation / release leaves the manager exactly as it was (in particular the invariant still holds)"""
        return And(nw.self.zeroed == o.self.zeroed, nw.self.any_state == o.self.any_state, frame(o, nw), inv(nw.self))

    contracts = [
        FnContract(w, "WireResourceManager.__init__", [
            Case("", {"self": WM, "zeroed": Int, "any_state": Int, "algo_wires": Int, "tight_budget": Bool}, native_call=native_ctor,
                 ensures=lambda o, r, nw: And(nw.self.zeroed == o.zeroed, nw.self.any_state == o.any_state,
                                              nw.self._algo_wires == o.algo_wires, nw.self.tight_budget == o.tight_budget))]),
        GetterContract(w, "WireResourceManager.algo_wires", [
            Case("getter", {"self": WM}, ensures=lambda o, r, nw: And(r == o.self._algo_wires, wm_same(o, nw)))]),
        FnContract(w, "WireResourceManager.algo_wires", [
            Case("setter", {"self": WM, "count": Int},
                 ensures=lambda o, r, nw: And(nw.self._algo_wires == o.count, nw.self.zeroed == o.self.zeroed,
                                              nw.self.any_state == o.self.any_state, nw.self.tight_budget == o.self.tight_budget))],
                   setter=True),
        FnContract(w, "WireResourceManager.total_wires", [
            Case("sum", {"self": WM}, ensures=lambda o, r, nw: And(r == total(o.self), wm_same(o, nw))),
            # reported wire total is at least the algorithmic wires (under the representation invariant)
            Case("total>=algo", {"self": WM}, requires=lambda a: inv(a.self),
                 ensures=lambda o, r, nw: And(r >= o.self._algo_wires, r - o.self._algo_wires == o.self.zeroed + o.self.any_state))]),
        # allocation: every grabbed wire is accounted as any_state; zeroed wires are consumed first, the shortfall is created
        FnContract(w, "WireResourceManager.grab_zeroed", [
            Case("num_wires>=0", {"self": WM, "num_wires": Int}, requires=lambda a: And(inv(a.self), a.num_wires >= 0),
                 ensures=lambda o, r, nw: And(
                     inv(nw.self), Not(grab_fails(o)),
                     nw.self.any_state == o.self.any_state + o.num_wires,
                     nw.self.zeroed == If(o.num_wires > o.self.zeroed, 0, o.self.zeroed - o.num_wires),
                     nw.self.zeroed + nw.self.any_state == mx(o.self.zeroed, o.num_wires) + o.self.any_state,
                     total(nw.self) >= total(o.self), frame(o, nw)),
                 raises={"ValueError": grab_fails}, must_return=lambda o: Not(grab_fails(o)), exc_ensures=unchanged_on_exception)]),
        FnContract(w, "WireResourceManager.free_wires", [
            Case("num_wires>=0", {"self": WM, "num_wires": Int}, requires=lambda a: And(inv(a.self), a.num_wires >= 0),
                 ensures=lambda o, r, nw: And(
                     inv(nw.self), Not(free_fails(o)),
                     nw.self.any_state == o.self.any_state - o.num_wires, nw.self.zeroed == o.self.zeroed + o.num_wires,
                     total(nw.self) == total(o.self), frame(o, nw)),
                 raises={"ValueError": free_fails}, must_return=lambda o: Not(free_fails(o)), exc_ensures=unchanged_on_exception)]),
    ]
    for fc in contracts:
        for c in fc.cases:
            c.standin_on_unsupported = True
        plan.fn_under_contract(fc.world.file, fc.qualname)
        for ob in obligations_for("C47", fc, tier):
            plan.add(ob)

    # ---- histories: induction over a sequence of grab/free steps, stated over the two contracts (as relations) -----------------
    z, a, n, z1, a1, peak = z3.Ints("z a n z1 a1 peak")
    grab = z3.And(n >= 0, a1 == a + n, z1 == z3.If(n > z, 0, z - n))
    free = z3.And(n >= 0, n <= a, a1 == a - n, z1 == z + n)
    plan.add(lemma("C47", "wire-history/step:invariant-and-total-monotone", [z, a, n, z1, a1],
                   z3.And(z1 >= 0, a1 >= 0, z1 + a1 >= z + a), assumptions=[z >= 0, a >= 0, z3.Or(grab, free)]))
    # `peak` = largest number of simultaneously allocated (grabbed, not yet freed) wires so far: the auxiliary total covers it
    plan.add(lemma("C47", "wire-history/step:total-covers-peak-allocation", [z, a, n, z1, a1, peak],
                   z3.And(z1 + a1 >= z3.If(a1 > peak, a1, peak)), assumptions=[z >= 0, a >= 0, z + a >= peak, z3.Or(grab, free)]))
    # a grab creates exactly the shortfall, nothing more (no over-allocation)
    plan.add(lemma("C47", "wire-history/grab-creates-exactly-the-shortfall", [z, a, n, z1, a1],
                   (z1 + a1) - (z + a) == z3.If(n > z, n - z, 0), assumptions=[z >= 0, a >= 0, grab]))


# =====================================================================================================================
def resources_contracts(plan, tier):
    GT = X.DMapT(Label)
    RES_FIELDS = {"zeroed_wires": Int, "any_state_wires": Int, "algo_wires": Int, "gate_types": GT}
    RES = RecT("Resources")

    def typed_defaultdict(it, args, kw):
        """defaultdict(int, mapping) with Label keys (the key type of a fresh empty mapping is fixed by the contract)"""
        if len(args) == 2 and isinstance(args[1], dict) and not args[1]:
            return X.empty_dmap(it.world, Label)
        if len(args) == 1:
            return X.empty_dmap(it.world, Label)
        return X.b_defaultdict(it, args, kw, None)

    w = World(RBASE, classes={"Resources": RES_FIELDS}, extra_builtins={"defaultdict": typed_defaultdict})

    def as_res(mod, d):
        from collections import defaultdict
        return mod.Resources(d.zeroed_wires, d.any_state_wires, d.algo_wires, defaultdict(int, d.gate_types))

    def native_method(name):
        def call(mod, a):
            # rebuild the operands through the public constructor (gate_types becomes a real defaultdict)
            a["self"] = as_res(mod, a["self"])
            if "other" in a and hasattr(a["other"], "gate_types"):
                a["other"] = as_res(mod, a["other"])
            rest = [v for k, v in a.items() if k != "self"]
            return getattr(a["self"], name)(*rest)
        return call

    def native_ctor(mod, a):
        a["self"] = mod.Resources(a["zeroed_wires"], a["any_state_wires"], a["algo_wires"], a["gate_types"])
        return None

    def wires_series(o, r):
        return And(r.zeroed_wires == mx(o.self.zeroed_wires, o.other.zeroed_wires),
                   r.any_state_wires == o.self.any_state_wires + o.other.any_state_wires,
                   r.algo_wires == mx(o.self.algo_wires, o.other.algo_wires))

    def wires_parallel(o, r):
        return And(r.zeroed_wires == mx(o.self.zeroed_wires, o.other.zeroed_wires),
                   r.any_state_wires == o.self.any_state_wires + o.other.any_state_wires,
                   r.algo_wires == o.self.algo_wires + o.other.algo_wires)

    def gates_sum(o, r):
        return forall_keys(lambda g: cnt_of(r.gate_types, g) == cnt_of(o.self.gate_types, g) + cnt_of(o.other.gate_types, g),
                           r.gate_types, o.self.gate_types, o.other.gate_types)

    def gates_sum_clipped(o, r):
        def at(g):
            s = cnt_of(o.self.gate_types, g) + cnt_of(o.other.gate_types, g)
            return cnt_of(r.gate_types, g) == If(s > 0, s, 0)
        return forall_keys(at, r.gate_types, o.self.gate_types, o.other.gate_types)

    def gates_scaled(o, r):
        return forall_keys(lambda g: cnt_of(r.gate_types, g) == cnt_of(o.self.gate_types, g) * o.scalar,
                           r.gate_types, o.self.gate_types)

    def frame2(o, nw):
        """the operands are not modified"""
        def same_keys(a, b):
            if isinstance(a, MapV) and isinstance(b, MapV):
                return z3.Select(a.dom, G0) == z3.Select(b.dom, G0)          # at an arbitrary key: the key SETS agree
            return set(a) == set(b)

        def same(x, y):
            return And(x.zeroed_wires == y.zeroed_wires, x.any_state_wires == y.any_state_wires, x.algo_wires == y.algo_wires,
                       forall_keys(lambda g: cnt_of(x.gate_types, g) == cnt_of(y.gate_types, g), x.gate_types, y.gate_types),
                       same_keys(x.gate_types, y.gate_types))
        r = same(nw.self, o.self)
        if hasattr(o, "other") and hasattr(o.other, "gate_types"):
            r = And(r, same(nw.other, o.other))
        return r

    def nonneg_gen(rng, m):
        """generated inputs of the counts >= 0 cases satisfy their precondition (solver models are passed through)"""
        if rng is None:
            return m
        fix = lambda d: dict(d, gate_types={"__map__": [[k, abs(v)] for k, v in d["gate_types"]["__map__"]]}) if isinstance(d, dict) and "gate_types" in d else d
        return {k: fix(v) for k, v in m.items()}

    def fresh_result(r, nw):
        """the result owns its dictionary: later updates of the result or of an operand cannot leak into the other"""
        ok = r is not nw.self and r.gate_types is not nw.self.gate_types
        if hasattr(nw, "other") and hasattr(nw.other, "gate_types"):
            ok = ok and r is not nw.other and r.gate_types is not nw.other.gate_types
        return ok

    def exc_frame(exc, o, nw):
        """an argument that is rejected leaves the operands untouched"""
        return frame2(o, nw)

    contracts = []
    for lab, gt in (("gate_types:defaultdict", GT), ("gate_types:dict", MapT(Label, Int)), ("gate_types:None", T("const", None))):
        contracts.append(FnContract(w, "Resources.__init__", [
            Case(lab, {"self": RES, "zeroed_wires": Int, "any_state_wires": Int, "algo_wires": Int, "gate_types": gt},
                 native_call=native_ctor,
                 ensures=lambda o, r, nw: And(nw.self.zeroed_wires == o.zeroed_wires, nw.self.any_state_wires == o.any_state_wires,
                                              nw.self.algo_wires == o.algo_wires,
                                              forall_keys(lambda g: cnt_of(nw.self.gate_types, g) == cnt_of(o.gate_types, g),
                                                          nw.self.gate_types, o.gate_types),
                                              # the object owns a COPY of the table it was given, and the given table is unchanged
                                              nw.gate_types is None or nw.self.gate_types is not nw.gate_types,
                                              forall_keys(lambda g: cnt_of(nw.gate_types, g) == cnt_of(o.gate_types, g), nw.gate_types, o.gate_types)))]))
    for name, wires in (("add_series", wires_series), ("add_parallel", wires_parallel)):
        contracts.append(FnContract(w, f"Resources.{name}", [
            # the property: counts of the combination are the sums of the counts of the parts (counts are numbers of gates: >= 0)
            Case("other:Resources[counts>=0]", {"self": RES, "other": RES}, native_call=native_method(name), native_gen=nonneg_gen,
                 requires=lambda a: And(nonneg(a.self.gate_types), nonneg(a.other.gate_types)),
                 ensures=lambda o, r, nw, wires=wires: And(wires(o, r), gates_sum(o, r), frame2(o, nw), fresh_result(r, nw))),
            # exact behaviour on arbitrary integers (collections.Counter addition keeps positive sums only)
            Case("other:Resources[any counts]", {"self": RES, "other": RES}, native_call=native_method(name),
                 ensures=lambda o, r, nw, wires=wires: And(wires(o, r), gates_sum_clipped(o, r), frame2(o, nw), fresh_result(r, nw))),
            Case("other:int", {"self": RES, "other": Int}, native_call=native_method(name), raises={"TypeError": lambda o: True},
                 exc_ensures=exc_frame),
        ]))
    for name, algo in (("multiply_series", lambda o: o.self.algo_wires), ("multiply_parallel", lambda o: o.self.algo_wires * o.scalar)):
        contracts.append(FnContract(w, f"Resources.{name}", [
            Case("scalar:int", {"self": RES, "scalar": Int}, native_call=native_method(name),
                 ensures=lambda o, r, nw, algo=algo: And(r.zeroed_wires == o.self.zeroed_wires,
                                                         r.any_state_wires == o.self.any_state_wires * o.scalar,
                                                         r.algo_wires == algo(o), gates_scaled(o, r), frame2(o, nw), fresh_result(r, nw))),
            Case("scalar:float", {"self": RES, "scalar": Float}, native_call=native_method(name), raises={"TypeError": lambda o: True},
                 exc_ensures=exc_frame),
        ]))
    contracts.append(FnContract(w, "Resources.total_wires", [
        Case("sum", {"self": RES}, ensures=lambda o, r, nw: r == o.self.zeroed_wires + o.self.any_state_wires + o.self.algo_wires),
        Case("total>=algo", {"self": RES}, requires=lambda a: And(a.self.zeroed_wires >= 0, a.self.any_state_wires >= 0),
             ensures=lambda o, r, nw: r >= o.self.algo_wires)]))
    for fc in contracts:
        X.use_xinterp(fc)
        plan.fn_under_contract(fc.world.file, fc.qualname)
        for ob in obligations_for("C47", fc, tier):
            plan.add(ob)

    # ---- repeating = iterated adding: lemmas over the CONTRACTS above (as relations on the abstract view (z, a, l, counts)) ----
    z, a, l, k, c = z3.Ints("z a l k c")          # c = counts[g] at an arbitrary gate type g

    def ms(v, kk):          # multiply_series contract
        return (v[0], v[1] * kk, v[2], v[3] * kk)

    def mp(v, kk):          # multiply_parallel contract
        return (v[0], v[1] * kk, v[2] * kk, v[3] * kk)

    def clip(s):
        return z3.If(s > 0, s, 0)

    def as_(x, y):          # add_series contract (exact form)
        return (mx(x[0], y[0]), x[1] + y[1], mx(x[2], y[2]), clip(x[3] + y[3]))

    def ap(x, y):           # add_parallel contract (exact form)
        return (mx(x[0], y[0]), x[1] + y[1], x[2] + y[2], clip(x[3] + y[3]))

    def eq4(x, y):
        return z3.And(*[p == q for p, q in zip(x, y)])
    r0 = (z, a, l, c)
    plan.add(lemma("C47", "Resources/multiply_series(r,k+1)==add_series(multiply_series(r,k),r)", [z, a, l, k, c],
                   eq4(ms(r0, k + 1), as_(ms(r0, k), r0)), assumptions=[k >= 0, c >= 0]))
    plan.add(lemma("C47", "Resources/multiply_parallel(r,k+1)==add_parallel(multiply_parallel(r,k),r)", [z, a, l, k, c],
                   eq4(mp(r0, k + 1), ap(mp(r0, k), r0)), assumptions=[k >= 0, c >= 0]))
    plan.add(lemma("C47", "Resources/multiply(r,1)==r", [z, a, l, c], z3.And(eq4(ms(r0, 1), r0), eq4(mp(r0, 1), r0))))
    z2, a2, l2, c2, z3_, a3, l3, c3 = z3.Ints("z2 a2 l2 c2 z3 a3 l3 c3")
    r1, r2 = (z2, a2, l2, c2), (z3_, a3, l3, c3)
    plan.add(lemma("C47", "Resources/add_series,add_parallel:associative-commutative-on-counts>=0", [z, a, l, c, z2, a2, l2, c2, z3_, a3, l3, c3],
                   z3.And(eq4(as_(as_(r0, r1), r2), as_(r0, as_(r1, r2))), eq4(as_(r0, r1), as_(r1, r0)),
                          eq4(ap(ap(r0, r1), r2), ap(r0, ap(r1, r2))), eq4(ap(r0, r1), ap(r1, r0))),
                   assumptions=[c >= 0, c2 >= 0, c3 >= 0]))


# =====================================================================================================================
N_UNIVERSE = 5
U_NAMES = ["U0", "U1", "U2", "CNOT", "Toffoli"]      # the last two are names of the default gate set


class _Universe:
    """REPLAY ONLY: a small family of real ResourceOperator subclasses U0..U4 whose decompositions are tables filled in per input
    (acyclic: Ui only decomposes into Uj with j > i).  The uninterpreted decomposition function of the proof is realised by it."""

    def __init__(self):
        self.mod = None

    def setup(self, mod):
        if self.mod is mod:
            return
        self.mod = mod
        self.tables = [[] for _ in range(N_UNIVERSE)]
        self.classes, self.reps = [], []
        RO, CRO = mod.ResourceOperator, mod.CompressedResourceOp
        for i in range(N_UNIVERSE):
            def resource_rep(cls):
                return CRO(cls, 1, {})

            def resource_decomp(cls, i=i):
                return list(self.tables[i])
            c = type(U_NAMES[i], (RO,), dict(resource_params=property(lambda self: {}), resource_rep=classmethod(resource_rep),
                                         resource_decomp=classmethod(resource_decomp), num_wires=1))
            self.classes.append(c)
            self.reps.append(CRO(c, 1, {}))

    @staticmethod
    def index(label):
        if str(label) in U_NAMES:
            return U_NAMES.index(str(label))
        digits = "".join(ch for ch in str(label) if ch.isdigit())
        return (int(digits) if digits else 0) % N_UNIVERSE

    def rep(self, label):
        return self.reps[self.index(label)]

    def load_tables(self, spec):
        """spec: list (per operator) of actions ("G", j, count) | ("A", n) | ("D", n)"""
        m = self.mod
        for i in range(N_UNIVERSE):
            self.tables[i][:] = []
            for act in (spec[i] if i < len(spec) else []):
                if act[0] == "G":
                    self.tables[i].append(m.GateCount(self.reps[act[1]], act[2]))
                elif act[0] == "A":
                    self.tables[i].append(m.Allocate(act[1]))
                else:
                    self.tables[i].append(m.Deallocate(act[1]))


UNIVERSE = _Universe()


def spec_tables(tokens, mags, count):
    """replay data of a decomposition shape: U0 decomposes into the given actions, the gate is the leaf `Toffoli` (U4)"""
    acts = [("G", N_UNIVERSE - 1, count) if t == "G" else (t[0], mags[t[1]]) for t in tokens]
    return {"tables": [acts] + [[] for _ in range(N_UNIVERSE - 1)], "mags": dict(mags)}


class DecompSpec:
    """a decomposition of CONCRETE shape with symbolic magnitudes, handed to the function in the place of `config` (which the code
    only forwards to the decomposition lookup)"""

    def __init__(self, tokens, mags, leaf, count, actions):
        self.tokens, self.mags, self.leaf, self.count, self.actions = tokens, mags, leaf, count, actions

    def snapshot(self):
        return self

    def concretize_value(self, world, model):
        ev = lambda t: model.eval(t, model_completion=True).as_long()
        return spec_tables(self.tokens, {k: ev(v) for k, v in self.mags.items()}, ev(self.count))


def CRO_DATA(i):
    return {"__class__": "CompressedResourceOp", "op_type": U_NAMES[i], "num_wires": 1, "params": "P", "_name": U_NAMES[i]}


def gen_tables(rng, nonneg_only=True):
    spec = []
    for i in range(N_UNIVERSE):
        acts = []
        if i < N_UNIVERSE - 1:
            for _ in range(rng.choice([0, 1, 2, 2, 3, 4])):
                r = rng.random()
                if r < 0.6:
                    acts.append(("G", rng.randint(i + 1, N_UNIVERSE - 1), rng.choice([0, 1, 1, 2, 3, 5])))
                elif r < 0.8:
                    acts.append(("A", rng.choice([0, 1, 2, 3])))
                else:
                    acts.append(("D", rng.choice([0, 1, 1, 2])))
        spec.append(acts)
    return spec


def estimate_contracts(plan, tier):
    CRO_FIELDS = {"op_type": Label, "num_wires": Int, "params": Label, "_name": Label}
    CRO = RecT("CompressedResourceOp")
    KEY_T = TupleT(Label, Int, Label)            # what CompressedResourceOp.__eq__/__hash__ look at: (op_type, num_wires, params)
    ACTION = X.UnionT("GateCount", "Allocate", "Deallocate")
    cell = {}

    def keyfn(rec):
        return w.box((rec.op_type, rec.num_wires, rec.params), KEY_T)
    GCD = X.DMapT(KEY_T, keyfn=keyfn, keyobj=CRO)
    RES_FIELDS = {"zeroed_wires": Int, "any_state_wires": Int, "algo_wires": Int, "gate_types": GCD}

    def typed_defaultdict(it, args, kw):
        if len(args) == 1 or (len(args) == 2 and isinstance(args[1], dict) and not args[1]):
            return X.empty_dmap(it.world, KEY_T, keyfn=keyfn, keyobj_t=CRO)
        return X.b_defaultdict(it, args, kw, None)

    def b_get_decomp(it, args, kw):
        """_get_resource_decomposition(op, config): ABSTRACT -- an uninterpreted function of the operator (config is fixed during
        one estimate) into action sequences of symbolic length; it may also fail (operator without decomposition)"""
        op = args[0]
        if len(args) > 1 and isinstance(args[1], DecompSpec):
            return args[1].actions          # size-bounded cases: the decomposition (concrete shape, symbolic magnitudes) is an input
        if it.ctx.branch(z3.Bool(it.ctx.fresh_name("decomposition_undefined"))):
            raise RaiseExc("ResourcesUndefinedError")
        it.ctx.havocked = True
        return SeqV(DEC(it.world.box(op, CRO)), ACTION, False)

    w = World(ESTIM, classes={"CompressedResourceOp": (ROPER, CRO_FIELDS),
                              "GateCount": (ROPER, {"gate": CRO, "count": Int}),
                              "Allocate": (WIRES, {"num_wires": Int}), "Deallocate": (WIRES, {"num_wires": Int}),
                              "WireResourceManager": (WIRES, WM_FIELDS), "Resources": (RBASE, RES_FIELDS)},
              functions=["_sum_allocated_wires", "_update_counts_from_compressed_res_op"],
              extra_builtins={"_get_resource_decomposition": b_get_decomp, "defaultdict": typed_defaultdict,
                              "ResourceConfig": lambda it, a, k: Opaque("config"),
                              "__default_gate_set__": lambda it, a, k: SetV(DGS, Label)})
    import ast as _ast
    w.module_consts["DefaultGateSet"] = _ast.parse("__default_gate_set__()", mode="eval").body
    CROs, KEYs, ACTs = w.sort_of(CRO), w.sort_of(KEY_T), w.sort_of(ACTION)
    ASEQ = z3.SeqSort(ACTs)
    GSs = z3.ArraySort(LabelSort, z3.BoolSort())
    DGS = z3.Const("DefaultGateSet", GSs)
    G0K = z3.Const("g0", KEYs)
    udt = X.union_sort(w, ACTION)
    is_gc, is_al, is_de = udt.recognizer(0), udt.recognizer(1), udt.recognizer(2)
    GCs, ALs, DEs = w.sort_of(RecT("GateCount")), w.sort_of(RecT("Allocate")), w.sort_of(RecT("Deallocate"))

    def gc_gate(a):
        return GCs.accessor(0, 0)(udt.accessor(0, 0)(a))

    def gc_count(a):
        return GCs.accessor(0, 1)(udt.accessor(0, 0)(a))

    def al_n(a):
        return ALs.accessor(0, 0)(udt.accessor(1, 0)(a))

    def de_n(a):
        return DEs.accessor(0, 0)(udt.accessor(2, 0)(a))

    def name_of(op):
        return CROs.accessor(0, 3)(op)

    def key_of(op):
        return KEYs.constructor(0)(CROs.accessor(0, 0)(op), CROs.accessor(0, 1)(op), CROs.accessor(0, 2)(op))

    # ---- spec functions (uninterpreted; used only through instances of their defining equations) ---------------------------------
    DEC = z3.Function("decomposition", CROs, ASEQ)                               # the abstract decomposition of an operator
    CNT = z3.Function("cnt", CROs, GSs, KEYs, z3.IntSort())                      # gate count of g in the full expansion of op
    # prefix sums are indexed: F(s, i, ..) ranges over the FIRST i actions of s (F(s, 0) = 0, F(s, i+1) = F(s, i) + term(s[i]))
    DSUM = z3.Function("dsum", ASEQ, z3.IntSort(), GSs, KEYs, z3.IntSort())      # sum over the GateCount actions among the first i
    ALLOC = z3.Function("alloc_sum", ASEQ, z3.IntSort(), z3.IntSort())           # allocated minus released wires of the first i actions
    WFD = z3.Function("wf_decomp", ASEQ, z3.BoolSort())                          # counts >= 0 and allocation sizes >= 0
    ITEM_T = TupleT(CRO, Int)
    ITEMs = w.sort_of(ITEM_T)
    WSUM = z3.Function("wsum", z3.SeqSort(ITEMs), z3.IntSort(), GSs, KEYs, z3.IntSort())   # sum over the first i (operator, count) items

    def cnt_def(op, gs, g):
        return [z3.Implies(z3.Select(gs, name_of(op)), CNT(op, gs, g) == z3.If(key_of(op) == g, 1, 0)),
                z3.Implies(z3.Not(z3.Select(gs, name_of(op))), CNT(op, gs, g) == DSUM(DEC(op), z3.Length(DEC(op)), gs, g))]

    def in_range(s_, i):
        return z3.And(i >= 0, i < z3.Length(s_))

    def dsum_def(s_, i, gs, g):
        a = s_[i]
        return [DSUM(s_, 0, gs, g) == 0,
                z3.Implies(in_range(s_, i), DSUM(s_, i + 1, gs, g) == DSUM(s_, i, gs, g) + z3.If(is_gc(a), gc_count(a) * CNT(gc_gate(a), gs, g), 0))]

    def alloc_def(s_, i):
        a = s_[i]
        return [ALLOC(s_, 0) == 0,
                z3.Implies(in_range(s_, i), ALLOC(s_, i + 1) == ALLOC(s_, i) + z3.If(is_al(a), al_n(a), 0) - z3.If(is_de(a), de_n(a), 0))]

    def wf_elem(a):
        return z3.And(z3.Implies(is_gc(a), gc_count(a) >= 0), z3.Implies(is_al(a), al_n(a) >= 0), z3.Implies(is_de(a), de_n(a) >= 0))

    def wfd_def(s_, i):
        """wf_decomp(s) := every action of s is well-formed; instance at index i"""
        return [z3.Implies(z3.And(WFD(s_), in_range(s_, i)), wf_elem(s_[i]))]

    def wsum_def(s_, i, gs, g):
        it = s_[i]
        return [WSUM(s_, 0, gs, g) == 0,
                z3.Implies(in_range(s_, i), WSUM(s_, i + 1, gs, g) == WSUM(s_, i, gs, g)
                           + ITEMs.accessor(0, 1)(it) * CNT(ITEMs.accessor(0, 0)(it), gs, g))]

    # ---- views -------------------------------------------------------------------------------------------------------------------
    def gs_term(gs):
        return DGS if gs is None else gs.term

    def inv_wm(s):
        return And(s.zeroed >= 0, s.any_state >= 0)

    def total(s):
        return s.zeroed + s.any_state + s._algo_wires

    def wm_frame(x, y):
        return And(x._algo_wires == y._algo_wires, x.tight_budget == y.tight_budget)

    def cnt_at(m, g):
        return z3.Select(m.val, g)

    # native (replay) evaluation of the specification on the real objects
    def n_gate_set(gs):
        import importlib
        return importlib.import_module("pennylane.estimator.resources_base").DefaultGateSet if gs is None else gs

    def n_decomp(op):
        return op.op_type.resource_decomp()

    def n_cnt(op, gs, g):
        if op.name in gs:
            return 1 if op == g else 0
        return sum(a.count * n_cnt(a.gate, gs, g) for a in n_decomp(op) if type(a).__name__ == "GateCount")

    def n_universe_keys():
        return list(UNIVERSE.reps)

    def n_wf_all():
        return all((a.count >= 0 if type(a).__name__ == "GateCount" else a.num_wires >= 0) for t in UNIVERSE.tables for a in t)

    # ---- _sum_allocated_wires ---------------------------------------------------------------------------------------------------------
    def n_alloc(decomp):
        return sum(a.num_wires for a in decomp if type(a).__name__ == "Allocate") - \
            sum(a.num_wires for a in decomp if type(a).__name__ == "Deallocate")

    def native_sum_alloc(mod, a):
        UNIVERSE.setup(mod)
        UNIVERSE.load_tables(a["decomp"]["tables"])
        a["decomp"] = list(UNIVERSE.tables[0])
        return mod._sum_allocated_wires(a["decomp"])

    def gen_sum_alloc(rng, m):
        import random
        rng = rng or random.Random(repr(sorted(m.items(), key=str)))
        t = gen_tables(rng)
        t[0] = t[0] + [("A", rng.randint(0, 4)), ("D", rng.randint(0, 3)), ("G", 1, 2)][:rng.randint(0, 3)]
        rng.shuffle(t[0])
        return {"decomp": {"tables": t}}

    fc_sum = FnContract(w, "_sum_allocated_wires", [
        Case("decomp:seq-of-actions", {"decomp": SeqT(ACTION)}, native_call=native_sum_alloc, native_gen=gen_sum_alloc,
             ensures=lambda o, r, nw: r == (ALLOC(o.decomp.term, z3.Length(o.decomp.term)) if isinstance(o.decomp, SeqV) else n_alloc(nw.decomp)),
             loops={0: LoopSpec(lambda v: v.s == ALLOC(v.decomp.term, v._i0), axioms=lambda v: alloc_def(v.decomp.term, v._i0))})])

    # callee contracts ------------------------------------------------------------------------------------------------------------------
    def mc_sum_alloc(it, args, kw):
        (d,) = args
        if isinstance(d, PyList):           # a decomposition of concrete shape: the real body is executed
            return it.call_user(w.functions["_sum_allocated_wires"], [d], {}, None, qual=None)
        return ALLOC(d.term, z3.Length(d.term))

    def mc_update(it, args, kwargs):
        """_update_counts_from_compressed_res_op by its contract (verified below): counts'[g] == counts[g] + scalar * cnt(op, g) for
        EVERY g; wire manager: invariant and monotone total whenever invariant and scalar >= 0 held at the call; may raise"""
        env = it.bind(w.functions["_update_counts_from_compressed_res_op"], args, kwargs)
        op, gcd, wm, gs, scalar = env["comp_res_op"], env["gate_counts_dict"], env["wire_manager"], env["gate_set"], env["scalar"]
        ctx = it.ctx
        opt, gst, sc = it.world.box(op, CRO), gs_term(gs), S._t(scalar)
        k = z3.Int(ctx.fresh_name("callee_outcome"))
        if ctx.branch(k == 0):
            ctx.assume(z3.Not(z3.Select(gst, name_of(opt))))        # an operator of the gate set is only counted: no exception
            raise RaiseExc("ValueError")
        if ctx.branch(k == 1):
            ctx.assume(z3.Not(z3.Select(gst, name_of(opt))))
            raise RaiseExc("ResourcesUndefinedError")
        kk = z3.Const("uk", KEYs)
        old_val, old_dom = gcd.val, gcd.dom
        gcd.val = z3.Lambda([kk], z3.Select(old_val, kk) + sc * CNT(opt, gst, kk))
        gcd.dom = z3.Const(ctx.fresh_name("dom_after_call"), old_dom.sort())
        pre_w = z3.And(S.to_z3(inv_wm(wm)), sc >= 0)
        z0, a0 = wm.zeroed, wm.any_state
        wm.f["zeroed"], wm.f["any_state"] = z3.Int(ctx.fresh_name("zeroed_after_call")), z3.Int(ctx.fresh_name("any_after_call"))
        ctx.assume(z3.Implies(pre_w, z3.And(wm.zeroed >= 0, wm.any_state >= 0, wm.zeroed + wm.any_state >= z0 + a0)))
        # an operator of the gate set is counted and nothing else happens: the wire manager is untouched
        ctx.assume(z3.Implies(z3.Select(gst, name_of(opt)), z3.And(wm.zeroed == z0, wm.any_state == a0)))
        return None
    w.modular["_sum_allocated_wires"] = mc_sum_alloc
    w.modular["_update_counts_from_compressed_res_op"] = mc_update
    w.modular["rec:_update_counts_from_compressed_res_op"] = mc_update

    # ---- _update_counts_from_compressed_res_op -------------------------------------------------------------------------------------------
    def upd_inv(wires):
        def inv(v):
            dec, i = v.resource_decomp.term, v._i0
            gs = v.gate_set.term
            r = And(cnt_at(v.gate_counts_dict, G0K) == cnt_at(v.old.gate_counts_dict, G0K) + v.scalar * DSUM(dec, i, gs, G0K),
                    wm_frame(v.wire_manager, v.old.wire_manager))
            if wires:
                r = And(r, inv_wm(v.wire_manager), total(v.wire_manager) >= total(v.old.wire_manager))
            return r
        return inv

    def upd_inv_axioms(v):
        dec, i = v.resource_decomp.term, v._i0
        gs = v.gate_set.term
        return dsum_def(dec, i, gs, G0K) + wfd_def(dec, i)

    def upd_post_axioms(o, r, nw):
        op = w.box(o.comp_res_op, CRO)
        return cnt_def(op, gs_term(o.gate_set), G0K)

    def upd_counts_post(o, nw):
        if sym(o.comp_res_op):
            op = w.box(o.comp_res_op, CRO)
            return cnt_at(nw.gate_counts_dict, G0K) == cnt_at(o.gate_counts_dict, G0K) + o.scalar * CNT(op, gs_term(o.gate_set), G0K)
        gs = n_gate_set(o.gate_set)
        keys = keys_of(nw.gate_counts_dict, o.gate_counts_dict, n_universe_keys())
        return all(nw.gate_counts_dict.get(g, 0) == o.gate_counts_dict.get(g, 0) + o.scalar * n_cnt(nw.comp_res_op, gs, g) for g in keys)

    def in_gate_set_frame(o, nw):
        """an operator that is in the gate set leaves the wire manager untouched"""
        same = And(nw.wire_manager.zeroed == o.wire_manager.zeroed, nw.wire_manager.any_state == o.wire_manager.any_state)
        if sym(o.comp_res_op):
            return Implies(z3.Select(gs_term(o.gate_set), o.comp_res_op._name), same)
        return same if nw.comp_res_op.name in n_gate_set(o.gate_set) else True

    def in_gate_set(o):
        if sym(o.comp_res_op):
            return z3.Select(gs_term(o.gate_set), o.comp_res_op._name)
        return o.comp_res_op.name in n_gate_set(o.gate_set)

    def upd_wires_pre(a):
        if sym(a.comp_res_op):
            return And(inv_wm(a.wire_manager), a.scalar >= 0, WFD(DEC(w.box(a.comp_res_op, CRO))))
        return inv_wm(a.wire_manager) and a.scalar >= 0 and n_wf_all()

    def native_update(mod, a):
        from collections import defaultdict
        UNIVERSE.setup(mod)
        UNIVERSE.load_tables(a["config"]["tables"])
        a["gate_counts_dict"] = defaultdict(int, a["gate_counts_dict"])
        return mod._update_counts_from_compressed_res_op(a["comp_res_op"], a["gate_counts_dict"], a["wire_manager"], a["gate_set"],
                                                         a["scalar"], None)

    def gen_update(with_set):
        def gen(rng, m):
            import random
            rng = rng or random.Random(repr(sorted(m.items(), key=str)))
            cro = CRO_DATA
            wm = m.get("wire_manager") if isinstance(m.get("wire_manager"), dict) and "zeroed" in m["wire_manager"] else None
            if wm is None or m.get("__generated__") is None and False:
                wm = {"__class__": "WireResourceManager"}
            wm = {"__class__": "WireResourceManager", "zeroed": abs(int(wm.get("zeroed", rng.randint(0, 4)))),
                  "any_state": abs(int(wm.get("any_state", rng.randint(0, 4)))), "_algo_wires": int(wm.get("_algo_wires", 2)),
                  "tight_budget": bool(wm.get("tight_budget", False)) and rng.random() < 0.3}
            sc = m.get("scalar")
            sc = abs(int(sc)) % 7 if isinstance(sc, int) else rng.randint(0, 4)
            out = {"comp_res_op": cro(rng.choice([0, 0, 1, 2, 3])),
                   "gate_counts_dict": {"__map__": [[cro(j), rng.randint(0, 5)] for j in rng.sample(range(N_UNIVERSE), rng.randint(0, 3))]},
                   "wire_manager": wm, "scalar": sc, "config": {"tables": gen_tables(rng)}}
            out["gate_set"] = {"__set__": sorted({U_NAMES[j] for j in range(N_UNIVERSE) if rng.random() < 0.4} | {U_NAMES[-1]})} \
                if with_set else None
            return out
        return gen

    def upd_cases():
        cases = []
        for gl, gt in (("gate_set:set", SetT(Label)), ("gate_set:None", T("const", None))):
            params = {"comp_res_op": CRO, "gate_counts_dict": GCD, "wire_manager": WM, "gate_set": gt, "scalar": Int,
                      "config": T("const", None)}
            any_exc = {"ValueError": lambda o: True, "ResourcesUndefinedError": lambda o: True}
            for wires in (False, True):
                ls = LoopSpec(upd_inv(wires), axioms=upd_inv_axioms)
                ls.modifies = ["gate_counts_dict", "wire_manager"]
                if not wires:
                    # gate counts: no assumption on signs, on the wire manager or on the decompositions
                    cases.append(Case(f"gate-counts[{gl}]", params, native_call=native_update, native_gen=gen_update(gt.kind == "set"),
                                      ensures=lambda o, r, nw: And(upd_counts_post(o, nw), wm_frame(nw.wire_manager, o.wire_manager),
                                                                   in_gate_set_frame(o, nw)),
                                      raises=any_exc, must_return=in_gate_set, axioms=upd_post_axioms, loops={0: ls}))
                else:
                    cases.append(Case(f"wire-bookkeeping[{gl}]", params, native_call=native_update, native_gen=gen_update(gt.kind == "set"),
                                      requires=upd_wires_pre,
                                      ensures=lambda o, r, nw: And(inv_wm(nw.wire_manager), total(nw.wire_manager) >= total(o.wire_manager),
                                                                   wm_frame(nw.wire_manager, o.wire_manager)),
                                      raises=any_exc, must_return=in_gate_set, axioms=upd_post_axioms, loops={0: ls}))
        return cases
    # ---- exact wire effect of a repeated operation (SIZE-BOUNDED in the shape of the decomposition, symbolic magnitudes) ------------------
    # Property: processing `scalar * op` leaves the wire manager in the state reached by processing op `scalar` times in sequence.
    # The sequential state has a closed form for decompositions that only allocate, only release, or allocate and release the same
    # amount (lemmas wire-repeat/* below are the induction steps over the grab_zeroed / free_wires contracts).
    EFFECT_SHAPES = {"alloc": ["A0"], "alloc-alloc": ["A0", "A1"], "alloc-gate": ["A0", "G"], "release": ["D0"],
                     "release-release": ["D0", "D1"], "gate-release": ["G", "D0"], "balanced": ["A0", "D0"],
                     "balanced-around-gate": ["A0", "G", "D0"], "balanced-nested": ["A0", "A1", "D1", "D0"]}

    def shape_kind(tokens):
        acts = [t for t in tokens if t != "G"]
        if all(t[0] == "A" for t in acts):
            return "alloc"
        if all(t[0] == "D" for t in acts):
            return "release"
        return "balanced"

    def mk_spec(tokens):
        def mk(ctx, name):
            mags = {t[1]: z3.Int(ctx.fresh_name(f"{name}.m{t[1]}")) for t in tokens if t != "G"}
            leaf = fresh(ctx, CRO, f"{name}.leaf")
            cnt = z3.Int(ctx.fresh_name(f"{name}.count"))
            acts = []
            for t in tokens:
                if t == "G":
                    acts.append(Rec(w.classes["GateCount"], {"gate": leaf, "count": cnt}))
                else:
                    acts.append(Rec(w.classes["Allocate" if t[0] == "A" else "Deallocate"], {"num_wires": mags[t[1]]}))
            return DecompSpec(tokens, mags, leaf, cnt, PyList(acts))
        return mk

    def gen_spec(tokens):
        def gen(rng):
            mags = {t[1]: rng.choice([0, 1, 2, 3]) for t in tokens if t != "G"}
            return spec_tables(tokens, mags, rng.choice([0, 1, 2]))
        return gen

    def magnitudes(cfg, tokens):
        """(total allocated, total released, list of magnitudes) of one repetition"""
        if isinstance(cfg, DecompSpec):
            get = lambda t: cfg.mags[t[1]]
        else:
            get = lambda t: cfg["mags"][t[1]]
        al = [get(t) for t in tokens if t[0] == "A"]
        de = [get(t) for t in tokens if t[0] == "D"]
        return al, de

    def tot(xs):
        r = 0
        for x in xs:
            r = r + x
        return r

    def effect_fails(tokens):
        kind = shape_kind(tokens)

        def fails(o):
            al, de = magnitudes(o.config, tokens)
            wm, k = o.wire_manager, o.scalar
            if kind == "alloc":
                return And(wm.tight_budget, tot(al) * k > wm.zeroed)
            if kind == "release":
                return tot(de) * k > wm.any_state
            return And(wm.tight_budget, tot(al) > wm.zeroed)
        return fails

    def effect_pre(tokens):
        def pre(a):
            al, de = magnitudes(a.config, tokens)
            r = And(inv_wm(a.wire_manager), a.scalar >= 1, *[m >= 0 for m in al + de])
            if isinstance(a.config, DecompSpec):
                r = And(r, z3.Select(gs_term(a.gate_set), a.config.leaf._name), z3.Not(z3.Select(gs_term(a.gate_set), a.comp_res_op._name)))
            return r
        return pre

    def effect_post(tokens):
        kind = shape_kind(tokens)

        def post(o, r, nw):
            al, de = magnitudes(o.config, tokens)
            wm0, wm1, k = o.wire_manager, nw.wire_manager, o.scalar
            if kind == "alloc":           # k sequential rounds of grabs == one grab of k times the amount
                exp_z, exp_a = mx(wm0.zeroed - tot(al) * k, 0), wm0.any_state + tot(al) * k
            elif kind == "release":       # k sequential rounds of releases
                exp_z, exp_a = wm0.zeroed + tot(de) * k, wm0.any_state - tot(de) * k
            else:                          # borrowed wires are given back: every round after the first reuses them
                exp_z, exp_a = mx(wm0.zeroed, tot(al)), wm0.any_state
            ok = And(wm1.zeroed == exp_z, wm1.any_state == exp_a, wm_frame(wm1, wm0), Not(effect_fails(tokens)(o)))
            if not sym(o.comp_res_op):
                ok = ok and sequential_reference(o, nw)
            return ok
        return post

    def sequential_reference(o, nw):
        """REPLAY: the property itself -- run the real function `scalar` times with scalar = 1 on a copy of the initial manager"""
        import copy
        import importlib
        from collections import defaultdict
        mod = importlib.import_module("pennylane.estimator.estimate")
        ref = copy.deepcopy(o.wire_manager)
        try:
            for _ in range(o.scalar):
                mod._update_counts_from_compressed_res_op(nw.comp_res_op, defaultdict(int), ref, nw.gate_set, 1, None)
        except ValueError:
            return False
        return (ref.zeroed, ref.any_state, ref.algo_wires) == (nw.wire_manager.zeroed, nw.wire_manager.any_state, nw.wire_manager.algo_wires)

    def gen_effect(tokens):
        def gen(rng, m):
            import random
            cfg = m.get("config") if isinstance(m.get("config"), dict) and "tables" in m.get("config", {}) else None
            r2 = rng or random.Random(repr(sorted(m.items(), key=str)))
            if cfg is None or rng is not None:
                cfg = gen_spec(tokens)(r2)
            wm = m.get("wire_manager") if isinstance(m.get("wire_manager"), dict) and rng is None else None
            if wm is None:
                wm = {"__class__": "WireResourceManager", "zeroed": r2.randint(0, 6), "any_state": r2.randint(0, 6), "_algo_wires": 2,
                      "tight_budget": r2.random() < 0.3}
            sc = m.get("scalar") if isinstance(m.get("scalar"), int) and rng is None else r2.randint(1, 4)
            return {"comp_res_op": CRO_DATA(0), "gate_counts_dict": {"__map__": []}, "wire_manager": wm, "gate_set": {"__set__": ["Toffoli"]},
                    "scalar": sc, "config": cfg}
        return gen
    effect_cases = []
    for nm, tokens in EFFECT_SHAPES.items():
        effect_cases.append(Case(f"wire-effect-of-repetition[{nm}]",
                                 {"comp_res_op": CRO, "gate_counts_dict": GCD, "wire_manager": WM, "gate_set": SetT(Label), "scalar": Int,
                                  "config": T("build", mk_spec(tokens), gen=gen_spec(tokens))},
                                 size_bounded=True, native_call=native_update, native_gen=gen_effect(tokens),
                                 requires=effect_pre(tokens), ensures=effect_post(tokens),
                                 raises={"ValueError": effect_fails(tokens)}, must_return=lambda o, tokens=tokens: Not(effect_fails(tokens)(o))))
    fc_upd = FnContract(w, "_update_counts_from_compressed_res_op", upd_cases() + effect_cases)

    def realize_cro(fields):
        import importlib
        UNIVERSE.setup(importlib.import_module("pennylane.estimator.estimate"))
        return UNIVERSE.rep(fields.get("op_type"))
    w.stub_realize = {"CompressedResourceOp": realize_cro}

    for fc in (fc_sum, fc_upd):
        X.use_xinterp(fc)
        plan.fn_under_contract(fc.world.file, fc.qualname)
        for ob in obligations_for("C47", fc, tier):
            plan.add(ob)

    # ---- _resources_from_resource: the counts of a workflow are the sum over its (operator, count) parts -----------------------------------
    def items_of(v):
        return v.ghost.map_items[-1][1]

    def rfr_inv(wires):
        def inv(v):
            items, i, gs = items_of(v), v._i0, gs_term(v.gate_set)
            r = And(cnt_at(v.gate_counts, G0K) == WSUM(items, i, gs, G0K),
                    v.wire_manager._algo_wires == v.old.workflow.algo_wires, v.wire_manager.tight_budget == v.old.tight_budget)
            if wires:
                r = And(r, inv_wm(v.wire_manager), v.wire_manager.zeroed + v.wire_manager.any_state >= v.old.zeroed + v.old.any_state)
            return r
        return inv

    def rfr_inv_axioms(v):
        items, i, gs = items_of(v), v._i0, gs_term(v.gate_set)
        return wsum_def(items, i, gs, G0K)

    def rfr_inv_axioms_wires(v):
        # instances (at the current index) of two facts that are already on the path: the enumeration of the workflow's items
        # and the precondition `all counts >= 0`
        items, i = items_of(v), v._i0
        m = v.ghost.map_items[-1][0]
        key_i = keyfn(w.unbox(ITEMs.accessor(0, 0)(items[i]), CRO))
        inst = z3.Implies(z3.And(i >= 0, i < z3.Length(items)),
                          z3.And(z3.Select(m.val, key_i) == ITEMs.accessor(0, 1)(items[i]), z3.Select(m.val, key_i) >= 0))
        return rfr_inv_axioms(v) + [inst]

    def rfr_post_axioms(o, r, nw, loc):
        cell["items"] = loc.ghost.map_items[-1][1]
        return []

    def n_wsum(workflow, gs, g):
        return sum(c * n_cnt(op, gs, g) for op, c in workflow.gate_types.items())

    def rfr_frame(o, r, nw):
        """the analysed workflow is not modified and shares no dictionary with the result"""
        a, b = o.workflow, nw.workflow
        same = And(a.zeroed_wires == b.zeroed_wires, a.any_state_wires == b.any_state_wires, a.algo_wires == b.algo_wires)
        if sym(a):
            same = And(same, cnt_at(a.gate_types, G0K) == cnt_at(b.gate_types, G0K), z3.Select(a.gate_types.dom, G0K) == z3.Select(b.gate_types.dom, G0K))
        else:
            same = same and dict(a.gate_types) == dict(b.gate_types)
        return And(same, r is not nw.workflow, r.gate_types is not nw.workflow.gate_types)

    def rfr_counts_post(o, r):
        if sym(o.workflow):
            return And(cnt_at(r.gate_types, G0K) == WSUM(cell["items"], z3.Length(cell["items"]), gs_term(o.gate_set), G0K), r.algo_wires == o.workflow.algo_wires)
        gs = n_gate_set(o.gate_set)
        return r.algo_wires == o.workflow.algo_wires and \
            all(r.gate_types.get(g, 0) == n_wsum(o.workflow, gs, g) for g in keys_of(r.gate_types, n_universe_keys()))

    def rfr_wires_pre(a):
        if sym(a.workflow):
            k = z3.Const("wk", KEYs)
            return And(a.zeroed >= 0, a.any_state >= 0, z3.ForAll([k], z3.Select(a.workflow.gate_types.val, k) >= 0))
        return a.zeroed >= 0 and a.any_state >= 0 and all(c >= 0 for c in a.workflow.gate_types.values()) and n_wf_all()

    def native_rfr(mod, a):
        from collections import defaultdict
        UNIVERSE.setup(mod)
        UNIVERSE.load_tables(a["config"]["tables"])
        a["workflow"].gate_types = defaultdict(int, a["workflow"].gate_types)
        return mod._resources_from_resource(a["workflow"], a["gate_set"], a["zeroed"], a["any_state"], a["tight_budget"], None)

    def gen_rfr(with_set):
        def gen(rng, m):
            import random
            rng = rng or random.Random(repr(sorted(m.items(), key=str)))
            out = {"workflow": {"__class__": "Resources", "zeroed_wires": rng.randint(0, 3), "any_state_wires": rng.randint(0, 3),
                                "algo_wires": rng.randint(0, 5),
                                "gate_types": {"__map__": [[CRO_DATA(j), rng.randint(0, 4)] for j in rng.sample(range(N_UNIVERSE), rng.randint(0, 4))]}},
                   "zeroed": rng.randint(0, 5), "any_state": rng.randint(0, 3), "tight_budget": rng.random() < 0.2,
                   "config": {"tables": gen_tables(rng)}}
            out["gate_set"] = {"__set__": sorted({U_NAMES[j] for j in range(N_UNIVERSE) if rng.random() < 0.4} | {U_NAMES[-1]})} \
                if with_set else None
            return out
        return gen
    rfr_cases = []
    for gl, gt in (("gate_set:set", SetT(Label)), ("gate_set:None", T("const", None))):
        params = {"workflow": RecT("Resources"), "gate_set": gt, "zeroed": Int, "any_state": Int, "tight_budget": Bool,
                  "config": T("const", None)}
        any_exc = {"ValueError": lambda o: True, "ResourcesUndefinedError": lambda o: True}
        for wires in (False, True):
            ls = LoopSpec(rfr_inv(wires), axioms=rfr_inv_axioms_wires if wires else rfr_inv_axioms)
            ls.modifies = ["gate_counts", "wire_manager"]
            if not wires:
                rfr_cases.append(Case(f"gate-counts[{gl}]", params, native_call=native_rfr, native_gen=gen_rfr(gt.kind == "set"),
                                      ensures=lambda o, r, nw: And(rfr_counts_post(o, r), rfr_frame(o, r, nw)), raises=any_exc, axioms=rfr_post_axioms, loops={0: ls}))
            else:
                rfr_cases.append(Case(f"wire-totals[{gl}]", params, native_call=native_rfr, native_gen=gen_rfr(gt.kind == "set"),
                                      requires=rfr_wires_pre,
                                      # reported totals: never negative, at least the algorithmic wires, at least the pre-allocated pool
                                      ensures=lambda o, r, nw: And(r.zeroed_wires >= 0, r.any_state_wires >= 0,
                                                                   r.zeroed_wires + r.any_state_wires >= o.zeroed + o.any_state,
                                                                   r.algo_wires == o.workflow.algo_wires,
                                                                   r.zeroed_wires + r.any_state_wires + r.algo_wires >= r.algo_wires),
                                      raises=any_exc, axioms=rfr_post_axioms, loops={0: ls}))
    fc_rfr = FnContract(w, "_resources_from_resource", rfr_cases)
    X.use_xinterp(fc_rfr)
    plan.fn_under_contract(fc_rfr.world.file, fc_rfr.qualname)
    for ob in obligations_for("C47", fc_rfr, tier):
        plan.add(ob)

    # ---- lemmas ----------------------------------------------------------------------------------------------------------------------------
    # closed forms of k sequential rounds (induction steps over the grab_zeroed / free_wires contracts; k = 0 is the identity)
    zz, aa, nn, kk = z3.Ints("z a n k")

    def grab_(st, n_):
        return (z3.If(n_ > st[0], 0, st[0] - n_), st[1] + n_)

    def free_(st, n_):
        return (st[0] + n_, st[1] - n_)
    after_k_grabs = (z3.If(zz - nn * kk >= 0, zz - nn * kk, 0), aa + nn * kk)
    g1 = grab_(after_k_grabs, nn)
    plan.add(lemma("C47", "wire-repeat/alloc:k+1-rounds==grab(n*(k+1))", [zz, aa, nn, kk],
                   z3.And(g1[0] == z3.If(zz - nn * (kk + 1) >= 0, zz - nn * (kk + 1), 0), g1[1] == aa + nn * (kk + 1)),
                   assumptions=[zz >= 0, aa >= 0, nn >= 0, kk >= 0]))
    f1 = free_((zz + nn * kk, aa - nn * kk), nn)
    plan.add(lemma("C47", "wire-repeat/release:k+1-rounds==free(n*(k+1))-and-legal-iff-n*(k+1)<=any", [zz, aa, nn, kk],
                   z3.And(f1[0] == zz + nn * (kk + 1), f1[1] == aa - nn * (kk + 1),
                          z3.And(nn * kk <= aa, nn <= aa - nn * kk) == (nn * (kk + 1) <= aa)),
                   assumptions=[zz >= 0, aa >= 0, nn >= 0, kk >= 0]))
    b1 = free_(grab_((z3.If(zz >= nn, zz, nn), aa), nn), nn)
    b0 = free_(grab_((zz, aa), nn), nn)
    plan.add(lemma("C47", "wire-repeat/balanced:first-round-gives-max(z,n);later-rounds-change-nothing", [zz, aa, nn],
                   z3.And(b0[0] == z3.If(zz >= nn, zz, nn), b0[1] == aa, b1[0] == z3.If(zz >= nn, zz, nn), b1[1] == aa),
                   assumptions=[zz >= 0, aa >= 0, nn >= 0]))
    # repeating an operation multiplies its counts / a workflow's counts are the sum over its parts: consequences of the contract
    c0, c1, c2, sc1, sc2, x1, x2 = z3.Ints("c0 c1 c2 sc1 sc2 x1 x2")
    plan.add(lemma("C47", "update-contract/two-updates-add;repeat-multiplies", [c0, c1, c2, sc1, sc2, x1, x2],
                   z3.And(z3.Implies(z3.And(c1 == c0 + sc1 * x1, c2 == c1 + sc2 * x2), c2 == c0 + (sc1 * x1 + sc2 * x2)),
                          z3.Implies(z3.And(c1 == c0 + sc1 * x1, c2 == c1 + sc2 * x1), c2 == c0 + (sc1 + sc2) * x1))))
    return w, dict(CRO=CRO, KEY_T=KEY_T, GCD=GCD, G0K=G0K, CNT=CNT, WSUM=WSUM, wsum_def=wsum_def, ITEMs=ITEMs, ITEM_T=ITEM_T,
                   gs_term=gs_term, cnt_at=cnt_at, inv_wm=inv_wm, n_cnt=n_cnt, n_gate_set=n_gate_set,
                   cell=cell, keyfn=keyfn)


# =====================================================================================================================
def misc_contracts(plan, tier):
    """Resources.gate_counts (aggregation of the per-type counts by operator name) and GateCount arithmetic"""
    CRO_FIELDS = {"op_type": Label, "num_wires": Int, "params": Label, "_name": Label}
    CRO = RecT("CompressedResourceOp")
    KEY_T = TupleT(Label, Int, Label)
    cell = {}

    def keyfn(rec):
        return w.box((rec.op_type, rec.num_wires, rec.params), KEY_T)
    GCD = X.DMapT(KEY_T, keyfn=keyfn, keyobj=CRO)
    w = World(RBASE, classes={"Resources": {"zeroed_wires": Int, "any_state_wires": Int, "algo_wires": Int, "gate_types": GCD},
                              "CompressedResourceOp": (ROPER, CRO_FIELDS)},
              extra_builtins={"defaultdict": lambda it, a, k: X.empty_dmap(it.world, Label) if len(a) == 1 else X.b_defaultdict(it, a, k, None)})
    ITEM_T = TupleT(CRO, Int)
    ITEMs, CROs = w.sort_of(ITEM_T), w.sort_of(CRO)
    ISEQ = z3.SeqSort(ITEMs)
    NSUM = z3.Function("nsum", ISEQ, z3.IntSort(), LabelSort, z3.IntSort())   # sum of the counts of those of the first i items whose operator has the given name
    N0 = z3.Const("n0", LabelSort)                                   # an arbitrary operator name

    def nsum_def(s_, i, n):
        it = s_[i]
        return [NSUM(s_, 0, n) == 0,
                z3.Implies(z3.And(i >= 0, i < z3.Length(s_)),
                           NSUM(s_, i + 1, n) == NSUM(s_, i, n) + z3.If(CROs.accessor(0, 3)(ITEMs.accessor(0, 0)(it)) == n, ITEMs.accessor(0, 1)(it), 0))]

    def items_of(v):
        return v.ghost.map_items[-1][1]

    def post_axioms(o, r, nw, loc):
        cell["items"] = loc.ghost.map_items[-1][1]
        return []

    def gc_post(o, r):
        if sym(o.self):
            return cnt_of(r, N0) == NSUM(cell["items"], z3.Length(cell["items"]), N0)
        names = {op.name for op in o.self.gate_types} | set(r)
        return all(r.get(n, 0) == sum(c for op, c in o.self.gate_types.items() if op.name == n) for n in names)

    def gc_frame(o, nw):
        a, b = o.self.gate_types, nw.self.gate_types
        if sym(o.self):
            k = z3.Const("gck", w.sort_of(KEY_T))
            return And(z3.Select(a.val, k) == z3.Select(b.val, k), z3.Select(a.dom, k) == z3.Select(b.dom, k))
        return dict(a) == dict(b)

    def realize_cro(fields):
        import importlib
        UNIVERSE.setup(importlib.import_module("pennylane.estimator.estimate"))
        base = UNIVERSE.rep(fields.get("op_type"))
        return type(base)(base.op_type, abs(int(fields.get("num_wires") or 0)) % 3, {})
    w.stub_realize = {"CompressedResourceOp": realize_cro}

    def gen_gc(rng, m):
        import random
        rng = rng or random.Random(repr(sorted(m.items(), key=str)))
        keys = {(j, nw_) for j, nw_ in ((rng.randrange(N_UNIVERSE), rng.randrange(3)) for _ in range(rng.randint(0, 5)))}
        return {"self": {"__class__": "Resources", "zeroed_wires": 0, "any_state_wires": 0, "algo_wires": 1,
                         "gate_types": {"__map__": [[dict(CRO_DATA(j), num_wires=nw_), rng.randint(-2, 6)] for j, nw_ in sorted(keys)]}}}
    ls = LoopSpec(lambda v: cnt_of(v.gate_counts, N0) == NSUM(items_of(v), v._i0, N0),
                  types={"gate_counts": X.DMapT(Label)},
                  axioms=lambda v: nsum_def(items_of(v), v._i0, N0))
    fc = FnContract(w, "Resources.gate_counts", [
        Case("by-name", {"self": RecT("Resources")}, native_gen=gen_gc, ensures=lambda o, r, nw: And(gc_post(o, r), gc_frame(o, nw)),
             axioms=post_axioms, loops={0: ls})])
    X.use_xinterp(fc)
    plan.fn_under_contract(fc.world.file, fc.qualname)
    for ob in obligations_for("C47", fc, tier):
        plan.add(ob)

    # ---- GateCount: scaling multiplies the count, adding equal gates adds the counts --------------------------------------------------------
    w3 = World(ROPER, classes={"CompressedResourceOp": CRO_FIELDS, "GateCount": {"gate": CRO, "count": Int}})
    GC = RecT("GateCount")

    def same_key(a, b):
        if sym(a) or sym(b):
            return And(a.op_type == b.op_type, a.num_wires == b.num_wires, a.params == b.params)
        return a == b

    def gc_operands_same(o, nw):
        r = And(nw.self.count == o.self.count, same_obj(nw.self.gate, o.self.gate))
        if hasattr(o, "other") and hasattr(o.other, "gate"):
            r = And(r, nw.other.count == o.other.count, same_obj(nw.other.gate, o.other.gate))
        return r

    def same_obj(a, b):
        if sym(a) or sym(b):
            return And(same_key(a, b), a._name == b._name)
        return a == b and a.name == b.name
    for fc in (
        FnContract(w3, "GateCount.__mul__", [
            Case("other:int", {"self": GC, "other": Int},
                 ensures=lambda o, r, nw: And(r.count == o.self.count * o.other, same_obj(r.gate, o.self.gate),
                                              gc_operands_same(o, nw), r is not nw.self)),
            Case("other:float", {"self": GC, "other": Float}, raises={"NotImplementedError": lambda o: True})]),
        FnContract(w3, "GateCount.__add__", [
            Case("other:GateCount", {"self": GC, "other": GC},
                 ensures=lambda o, r, nw: And(r.count == o.self.count + o.other.count, same_obj(r.gate, o.self.gate),
                                              same_key(o.self.gate, o.other.gate), gc_operands_same(o, nw), r is not nw.self, r is not nw.other),
                 raises={"NotImplementedError": lambda o: Not(same_key(o.self.gate, o.other.gate))},
                 must_return=lambda o: same_key(o.self.gate, o.other.gate), exc_ensures=lambda exc, o, nw: gc_operands_same(o, nw)),
            Case("other:int", {"self": GC, "other": Int}, raises={"NotImplementedError": lambda o: True})]),
        FnContract(w3, "CompressedResourceOp.__eq__", [
            Case("other:CompressedResourceOp", {"self": CRO, "other": CRO}, ensures=lambda o, r, nw: r == same_key(o.self, o.other)),
            Case("other:int", {"self": CRO, "other": Int}, ensures=lambda o, r, nw: r == False)]),  # noqa: E712
    ):
        for c in fc.cases:
            c.standin_on_unsupported = True
        plan.fn_under_contract(fc.world.file, fc.qualname)
        for ob in obligations_for("C47", fc, tier):
            plan.add(ob)


# =====================================================================================================================
def build(tier, seed):
    plan = Plan("C47", level="proof")
    plan.explanation = ("The real bodies of the estimator's bookkeeping functions are executed symbolically on integers, records, "
                        "maps with symbolic contents (z3 arrays; every per-gate-type statement is proved at an arbitrary key) and "
                        "action sequences of symbolic length; the decomposition of an operator is an uninterpreted function, the gate "
                        "count cnt(op, g) its recursive unfolding; the recursive call is used through the contract being proved "
                        "(partial correctness), loops are cut by invariants.")
    plan.trusted_base = ["vf/pyvc encoder (Python subset semantics) incl. vf/pyvc/xmaps.py (defaultdict/Counter maps, tagged unions, "
                         "in-place havoc of objects mutated through calls)",
                         "z3 (arrays with lambdas, linear/non-linear integer arithmetic, sequences, datatypes)",
                         "induction over histories / naturals (meta-level) for the lemma groups wire-history/*, Resources/multiply*",
                         "defining equations of the spec functions cnt / dsum / wsum / nsum / alloc_sum (used by instances only)"]
    plan.assumptions = ["python int = mathematical integer (exact)",
                        "termination of the recursion over decompositions (the decomposition relation is a DAG): partial correctness",
                        "A-abstract-decomposition: _get_resource_decomposition(op, config) is an arbitrary function of the compressed operator "
                        "(config fixed during one estimate) into a list of GateCount/Allocate/Deallocate, or raises",
                        "A-wellformed-decomposition (ONLY for the wire-bookkeeping / wire-totals cases, not for the gate-count cases): every "
                        "decomposition has GateCount.count >= 0 and Allocate/Deallocate.num_wires >= 0, the scalar and the workflow's counts "
                        "are >= 0 -- nothing in the code validates this (negative sizes drive the bookkeeping negative, see notes)",
                        "dictionary keys: a CompressedResourceOp keys on (op_type, num_wires, params) as its __eq__/__hash__ do; op_type, params "
                        "and names are uninterpreted hashable labels; DefaultGateSet is an arbitrary fixed set of names"]
    plan.assumed_contracts = ["collections.Counter.__add__: key-wise sum, only positive sums kept; Counter(m)/defaultdict(int, m)/dict(m) copy m",
                              "dict iteration (`.items()`): every key exactly once, order unspecified",
                              "ResourceConfig(): an opaque value only forwarded to the (abstract) decomposition lookup"]
    plan.dropped = ["docstrings, annotations, f-string messages of exceptions, __str__/__repr__"]
    wire_manager_contracts(plan, tier)
    resources_contracts(plan, tier)
    estimate_contracts(plan, tier)
    misc_contracts(plan, tier)
    plan.unverified = ["estimate() / _resources_from_qfunc.wrapper: queuing, singledispatch, algorithmic-wire count from the queue (with-statement)",
                       "_ops_to_compressed_reps, _map_to_resource_op; the concrete decompositions of the operator library and the default "
                       "adjoint/controlled/pow decompositions (apply_default_symbolic_decomp): additivity is proved for ANY decomposition",
                       "exact wire numbers through NESTED decompositions (proved for all inputs: never negative, totals never decrease, totals "
                       ">= algorithmic wires and >= the pre-allocated pool).  The exact effect of `scalar` repetitions -- equal to the operation "
                       "written out `scalar` times -- is proved size-bounded for decompositions that only allocate, only release, or give back "
                       "what they borrowed (9 shapes, symbolic magnitudes, scalar >= 1); for MIXED decompositions with a non-zero net and for "
                       "scalar == 0 the code does NOT equal the written-out workflow (see observations) and no contract is stated",
                       "ResourceOperator.__mul__/__matmul__/add_series/add_parallel (dict literal with an object key), Resources.__eq__, "
                       "total_gates, gate_breakdown, __str__"]
    plan.size_bounds = ["_update_counts_from_compressed_res_op / wire-effect-of-repetition: 9 decomposition shapes of <= 4 actions (allocations, "
                        "releases, one gate-set leaf), every magnitude, the scalar (>= 1) and the wire manager symbolic"]
    plan.notes = {"observations": [
        "repetition rule vs the written-out workflow (script /tmp/c47_repetition_oddities.py): decomposition [Allocate(2), Deallocate(1)] with "
        "scalar 3 gives (zeroed, any_state) = (3, 3), the same operation written out three times gives (1, 3) -- all allocations are made "
        "before any release, so the zeroed pool is over-reported; a balanced decomposition [Allocate(5), Deallocate(5)] reached with "
        "scalar 0 (GateCount(op, 0)) still allocates 5 wires although the operation is applied 0 times",
        "WireResourceManager.grab_zeroed / free_wires and Allocate / Deallocate accept negative sizes: grab_zeroed(-3) on (zeroed=1, any=0) "
        "gives any_state = -3 (script /tmp/c47_oddities.py); the property holds on the documented domain (sizes >= 0) only",
        "Resources.__eq__ distinguishes a stored zero count from a missing key: r.multiply_series(2) == r.add_series(r) is False for "
        "gate_types {X: 0, T: 2} although every count agrees (Counter addition drops the zero entry)"]}
    return plan
