"""C01 Operator representations describe one and the same linear map (named gates).

For every named gate, each representation the REAL class exposes is compared with its REAL matrix on exact symbolic
parameters:  eigenvalues (power sums  sum_k e_k^p == tr M^p, p = 1..dim: equal multisets),  diagonalizing gates
(D M D^dagger == diag(eigvals)),  decomposition (ordered product == M),  generator (dM/dtheta == i c G M and M(0) == I, hence
M == exp(i c theta G) by uniqueness of the ODE solution),  sparse matrix,  Pauli representation;  and the `has_*` flags:
True => the representation is produced, False => the documented *UndefinedError is raised.
"""
import numpy as np
import pennylane as qp

from vf.common import Plan, Obligation, Outcome, DISCHARGED, REFUTED, UNDECIDED, FAULT
from vf.symx import rules as R
from vf.symx.ring import Poly, Cyc, Unsupported, poly_diff, I_
from vf.symx.scalar import Sym, sym, poly_matrix, pm_matmul, pm_dagger, pm_eye, pm_diff_entries, pm_eval
from vf.symx.oblig import sample_point
from contracts.C02 import FIXED, where_compute_matrix
from refs import gates as G
import random
import zlib

PN = ["a", "b", "c"]


def instances(tier):
    out = []
    for name in FIXED:
        npar, nw, _ = G.REF[name]
        cls = getattr(qp, name)
        out.append((name, npar, (lambda P, cls=cls, nw=nw: cls(*P, wires=list(range(nw)))), False))
    for n in (1, 2, 3):
        out.append((f"MultiRZ[n={n}]", 1, (lambda P, n=n: qp.MultiRZ(P[0], wires=list(range(n)))), True))
    for w in ["X", "Y", "Z", "XY", "ZZ", "IX", "YI", "XYZ"]:
        out.append((f"PauliRot[{w}]", 1, (lambda P, w=w: qp.PauliRot(P[0], w, wires=list(range(len(w))))), True))
    for n, d in ((1, 1), (2, 1), (2, 3)):
        out.append((f"PCPhase[n={n},dim={d}]", 1, (lambda P, n=n, d=d: qp.PCPhase(P[0], d, wires=list(range(n)))), True))
    for cv in ((1, 1), (0, 1), (1, 0, 1)):
        out.append((f"MultiControlledX[cv={''.join(map(str, cv))}]", 0,
                    (lambda P, cv=cv: qp.MultiControlledX(wires=list(range(len(cv) + 1)), control_values=list(cv))), True))
    return out


def M_of(op):
    w = list(op.wires)
    return poly_matrix(qp.matrix(op, wire_order=w))


def check_eigvals(op):
    M = M_of(op)
    ev = np.asarray(op.eigvals(), dtype=object)
    e = [x.p if isinstance(x, Sym) else poly_matrix(np.array([x]))[0] for x in ev.flat]
    d = M.shape[0]
    if len(e) != d:
        return f"{len(e)} eigenvalues for a {d}-dimensional operator"
    P = pm_eye(d)
    pw = [Poly.const(1)] * d
    for p in range(1, d + 1):
        P = pm_matmul(M, P)
        pw = [x * y for x, y in zip(pw, e)]
        tr = Poly()
        for k in range(d):
            tr = tr + P[k, k]
        s = Poly()
        for x in pw:
            s = s + x
        if not (tr - s).is_zero():
            return f"power sum p={p}: tr(M^p) - sum(e^p) = {str(tr - s)[:120]}"
    return None


def check_diagonal_order(op):
    """gates listed as diagonal in the Z basis: eigvals(), in order, must be the diagonal of the matrix"""
    from pennylane.ops.qubit import attributes as A
    if op.name not in A.diagonal_in_z_basis:
        return "SKIP"
    M = M_of(op)
    ev = np.asarray(op.eigvals(), dtype=object)
    e = [x.p if isinstance(x, Sym) else poly_matrix(np.array([x]))[0] for x in ev.flat]
    for k in range(M.shape[0]):
        if not (M[k, k] - e[k]).is_zero():
            return f"eigvals()[{k}] = {str(e[k])[:60]} but the diagonal entry is {str(M[k, k])[:60]}"
    return None


def check_diag_gates(op):
    M = M_of(op)
    w = list(op.wires)
    gates = op.diagonalizing_gates()
    D = R.circuit_matrix(gates, w)
    lhs = pm_matmul(pm_matmul(D, M), pm_dagger(D))
    ev = np.asarray(op.eigvals(), dtype=object)
    e = [x.p if isinstance(x, Sym) else poly_matrix(np.array([x]))[0] for x in ev.flat]
    for (i, j), x in np.ndenumerate(lhs):
        want = e[i] if i == j else Poly()
        if not (x - want).is_zero():
            return f"(D M D^dagger)[{i},{j}] = {str(x)[:80]} but diag(eigvals) has {str(want)[:80]}"
    return None


def check_decomposition(op):
    M = M_of(op)
    w = list(op.wires)
    ops = op.decomposition()
    work, info = R.work_wire_plan(ops)
    if info:
        raise Unsupported("decomposition allocates work wires")
    C = R.circuit_matrix(ops, w)
    diff = pm_diff_entries(C, M)
    return None if not diff else f"product of decomposition differs from matrix at {[list(i) for i, _ in diff[:4]]}"


def gen_matrix(gen, wires):
    if isinstance(gen, qp.SparseHamiltonian):
        g = np.asarray(gen.sparse_matrix(wire_order=wires).toarray())
    else:
        g = np.asarray(qp.matrix(gen, wire_order=wires))
    return poly_matrix(g)


def check_generator(op, pname):
    M = M_of(op)
    w = list(op.wires)
    gen, coeff = qp.generator(op)
    Gm = gen_matrix(gen, w)
    c = poly_matrix(np.array([coeff]))[0]
    dM = np.empty(M.shape, dtype=object)
    for idx, x in np.ndenumerate(M):
        dM[idx] = poly_diff(x, pname)
    rhs = pm_matmul(Gm, M)
    for idx, x in np.ndenumerate(rhs):
        rhs[idx] = x * c.scale(I_) if isinstance(c, Poly) else x
    diff = pm_diff_entries(dM, rhs)
    if diff:
        return f"dM/dtheta != i*c*G*M at {[list(i) for i, _ in diff[:4]]}: {str(diff[0][1])[:100]}"
    # M(0) == I : substitute theta = 0 (generators exp(i*0) = 1, polynomial occurrences vanish)
    for (i, j), x in np.ndenumerate(M):
        v = Poly()
        for key, cf in x.t.items():
            if any(g[0] == "p" and g[1] == pname for g, _ in key):
                continue
            k2 = tuple((g, p) for g, p in key if not (g[0] == "e" and g[1] == ((pname, 1),)))
            v = v + Poly({k2: cf})
        want = Poly.const(1) if i == j else Poly()
        if not (v - want).is_zero():
            return f"M(theta=0)[{i},{j}] = {v} != identity"
    return None


def check_sparse(op):
    M = M_of(op)
    sm = op.sparse_matrix(wire_order=list(op.wires))
    S = poly_matrix(np.asarray(sm.toarray()))
    diff = pm_diff_entries(S, M)
    return None if not diff else f"sparse matrix differs at {[list(i) for i, _ in diff[:4]]}"


def check_pauli_rep(op):
    pr = op.pauli_rep
    if pr is None:
        return "SKIP"
    M = M_of(op)
    P = poly_matrix(np.asarray(pr.to_mat(wire_order=list(op.wires))))
    diff = pm_diff_entries(P, M)
    return None if not diff else f"pauli_rep matrix differs at {[list(i) for i, _ in diff[:4]]}"


REPS = [
    # (label, flag attribute or None, producer name for flag test, check, documented error)
    ("eigvals", None, lambda op: op.eigvals(), check_eigvals, "EigvalsUndefinedError"),
    ("diagonalizing_gates", "has_diagonalizing_gates", lambda op: op.diagonalizing_gates(), check_diag_gates, "DiagGatesUndefinedError"),
    ("decomposition", "has_decomposition", lambda op: op.decomposition(), check_decomposition, "DecompositionUndefinedError"),
    ("sparse_matrix", "has_sparse_matrix", lambda op: op.sparse_matrix(), check_sparse, "SparseMatrixUndefinedError"),
]


def expected_out_of_reach(name, label, mk, npar):
    """representations that the class does not define in closed form fall back to numeric linear algebra (np.linalg.eigvals on
    the matrix, scipy.sparse of the dense matrix): those cannot carry symbolic scalars, by construction"""
    op = mk([0.3 + 0.1 * i for i in range(npar)])
    cls = type(op)
    generic = ("Operator", "Operator2", "Operation", "Controlled2", "ControlledOp2", "ControlledOp", "Controlled")
    if label == "eigvals":
        q = getattr(getattr(cls, "compute_eigvals", None), "__qualname__", "")
        return q.split(".")[0] != cls.__name__            # inherited generic fallback (numeric eigensolver on the matrix)
    if label == "sparse_matrix":
        return True        # scipy.sparse does not support object dtype
    if label == "decomposition" and (name == "FermionicSWAP" or name.startswith("MultiControlledX")):
        return True        # compute_decomposition converts angles with float() / emits numerically synthesised angles
    return False


def make_ob(name, npar, mk, sb, label, flag, producer, check, err, seed):
    oname = f"C01/{name}/{label}/post:agrees-with-matrix"

    def run(P):
        op = mk(P)
        # flag coherence first (finite, on the instance)
        if flag is not None:
            fv = bool(getattr(op, flag))
            try:
                producer(op)
                produced, exc = True, None
            except Exception as ex:  # pylint: disable=broad-except
                produced, exc = False, ex
            if fv and not produced and not isinstance(exc, Unsupported):
                if isinstance(exc, (TypeError, ValueError)) and any(isinstance(p, Sym) for p in P):
                    raise Unsupported(f"{label} not traceable symbolically: {type(exc).__name__}: {exc}")
                return f"{flag} is True but {label} raised {type(exc).__name__}: {exc}"
            if not fv:
                if produced:
                    return f"{flag} is False but {label} was produced"
                if type(exc).__name__ != err:
                    return f"{flag} is False but {label} raised {type(exc).__name__} instead of {err}"
                return None
        else:
            try:
                producer(op)
            except Exception as ex:  # pylint: disable=broad-except
                if type(ex).__name__ == err:
                    return None          # representation undefined: nothing to compare
                if isinstance(ex, (TypeError, ValueError)) and any(isinstance(p, Sym) for p in P):
                    raise Unsupported(f"{label} not traceable symbolically: {type(ex).__name__}: {ex}") from ex
                raise
        return check(op)

    def replay(w):
        pt = {PN[i]: float(((w or {}).get("point") or {}).get(PN[i], 0.3 + 0.1 * i)) for i in range(npar)}
        try:
            msg = run_float(pt)
        except Exception as ex:  # pylint: disable=broad-except
            return dict(confirmed=True, observed=f"{type(ex).__name__}: {ex}", point=pt)
        return dict(confirmed=bool(msg), observed=msg, point=pt)

    def fn():
        rng = random.Random(zlib.crc32(f"{seed}:{oname}".encode()))
        try:
            msg = run([sym(PN[i]) for i in range(npar)])
        except Unsupported as ex:
            # bounded stand-in: the same comparison at seeded float points (exact arithmetic on recognised constants may fail there)
            for _ in range(8):
                pt = sample_point(PN[:npar], rng)
                try:
                    m2 = run_float(pt)
                except Exception:  # pylint: disable=broad-except
                    return Outcome(UNDECIDED, "trace", f"trace left the fragment: {ex}", extra=dict(standin="unavailable"))
                if m2:
                    return Outcome(REFUTED, "float-standin", m2, witness=dict(point=pt), replay=dict(confirmed=True, observed=m2, point=pt))
            if expected_out_of_reach(name, label, mk, npar):
                return Outcome(DISCHARGED, "float-standin(bounded: 8 seeded points)", f"outside the symbolic fragment by construction: {ex}",
                               extra=dict(bounded=True))
            return Outcome(UNDECIDED, "trace", f"trace left the fragment: {ex}", extra=dict(standin="passed", standin_points=8))
        if msg is None or msg == "SKIP":
            return Outcome(DISCHARGED, "laurent-normal-form", f"{label} agrees with the matrix (or is consistently undefined)")
        pt = sample_point(PN[:npar], rng)
        return Outcome(REFUTED, "laurent-normal-form", msg, witness=dict(point=pt), replay=replay(dict(point=pt)))

    def run_float(pt):
        """numeric comparison used only as bounded stand-in"""
        op = mk([pt[PN[i]] for i in range(npar)])
        w = list(op.wires)
        M = np.asarray(qp.matrix(op, wire_order=w), dtype=complex)
        if label == "eigvals":
            ev = list(np.asarray(op.eigvals(), dtype=complex).ravel())
            tv = list(np.linalg.eigvals(M))
            if len(ev) != len(tv):
                return "wrong number of eigenvalues"
            for x in ev:           # multiset comparison by greedy nearest matching (no ordering assumption)
                k = min(range(len(tv)), key=lambda q: abs(tv[q] - x))
                if abs(tv[k] - x) > 1e-7:
                    return f"eigenvalue {x} of eigvals() is not an eigenvalue of the matrix"
                tv.pop(k)
            return None
        if flag is not None:
            fv = bool(getattr(op, flag))
            try:
                producer(op)
                produced = True
            except Exception as ex:  # pylint: disable=broad-except
                produced = False
                if not fv and type(ex).__name__ != err:
                    return f"{flag} is False but {label} raised {type(ex).__name__} instead of {err}"
            if fv != produced:
                return f"{flag} is {fv} but {label} was {'produced' if produced else 'not produced'}"
            if not fv:
                return None
        if label == "decomposition":
            C = np.eye(M.shape[0], dtype=complex)
            for o in op.decomposition():
                C = np.asarray(qp.matrix(o, wire_order=w), dtype=complex) @ C
            return None if np.allclose(C, M, atol=1e-9) else "decomposition differs numerically"
        if label == "generator":
            from scipy.linalg import expm
            gen, coeff = qp.generator(op)
            Gm = np.asarray(gen.sparse_matrix(wire_order=w).toarray() if isinstance(gen, qp.SparseHamiltonian) else qp.matrix(gen, wire_order=w), dtype=complex)
            E = expm(1j * coeff * pt[PN[0]] * Gm)
            return None if np.allclose(E, M, atol=1e-9) else f"exp(i*c*theta*G) differs from the matrix by {np.max(np.abs(E - M)):.3g}"
        if label == "diagonalizing_gates":
            D = np.eye(M.shape[0], dtype=complex)
            for o in op.diagonalizing_gates():
                D = np.asarray(qp.matrix(o, wire_order=w), dtype=complex) @ D
            ev = np.asarray(op.eigvals(), dtype=complex)
            return None if np.allclose(D @ M @ D.conj().T, np.diag(ev), atol=1e-9) else "D M D^dagger differs from diag(eigvals)"
        if label == "sparse_matrix":
            return None if np.allclose(op.sparse_matrix(wire_order=w).toarray(), M, atol=1e-9) else "sparse matrix differs numerically"
        if label == "pauli_rep":
            pr = op.pauli_rep
            return None if pr is None or np.allclose(pr.to_mat(wire_order=w), M, atol=1e-9) else "pauli_rep differs numerically"
        if label == "diagonal-eigvals":
            ev = np.asarray(op.eigvals(), dtype=complex)
            return None if np.allclose(np.diag(ev), M, atol=1e-9) else "eigvals (in order) differ from the diagonal of the matrix"
        return None
    return Obligation(oname, "post", fn, func=where_compute_matrix(type(mk([0.3 + 0.1 * i for i in range(npar)]))), replay=replay,
                      timeout=600, size_bounded=sb, sample=f"{label} of {name} describes the same linear map as its matrix")


def build(tier, seed):
    plan = Plan("C01", level="proof")
    plan.explanation = ("All representations exposed by the named gate classes are compared with the real matrix on exact symbolic "
                        "parameters; eigenvalue multisets via power sums, generators via the defining ODE, decompositions via the "
                        "ordered product, flags by production / documented error.")
    plan.trusted_base = ["vf/symx exact ring", "Newton identities (power sums determine the eigenvalue multiset)",
                         "ODE uniqueness: dM/dt = i c G M, M(0) = I  =>  M = exp(i c t G)"]
    plan.assumptions = ["A-float-as-real", "A-float-constants", "numpy interface"]
    plan.unverified = ["templates, operator arithmetic (C03), fractional powers", "expand_matrix beyond the permutations checked in C02/C07"]
    for name, npar, mk, sb in instances(tier):
        for label, flag, producer, check, err in REPS:
            plan.add(make_ob(name, npar, mk, sb, label, flag, producer, check, err, seed))
        op = mk([0.3 + 0.1 * i for i in range(npar)])
        if npar == 1:
            plan.add(make_ob(name, npar, mk, sb, "generator", "has_generator", lambda o: qp.generator(o),
                             lambda o: check_generator(o, PN[0]), "GeneratorUndefinedError", seed))
        plan.add(make_ob(name, npar, mk, sb, "pauli_rep", None, lambda o: o.pauli_rep, check_pauli_rep, "NoSuchError", seed))
        from pennylane.ops.qubit import attributes as A
        if op.name in A.diagonal_in_z_basis:
            plan.add(make_ob(name, npar, mk, sb, "diagonal-eigvals", None, lambda o: o.eigvals(), check_diagonal_order,
                             "EigvalsUndefinedError", seed))
        plan.fn_under_contract(*where_compute_matrix(type(op)))
    return plan
